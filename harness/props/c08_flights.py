"""Feature-combination streams for the handshake flights after the hellos (helper of c08.py).

A flight is what one side sends between two points of the handshake; for every message of it a small
table of variants (a mutation descriptor of c08_mut + the abstract feature value the Lean model in
lean/TlsModel/Flights.lean knows).  A case picks one variant per message, a cooperating peer sends the
flight, the victim's answer (alert description + message) is compared with the model's decision function
and judged by the C08 oracle."""
import os
import zlib

from . import c08_mut as M

OK = ("ok", None)


def S(*steps):
    return {"op": "multi", "steps": list(steps)}


def F(names, op, **kw):
    d = {"find": list(names), "op": op}
    d.update(kw)
    return d


def ext_raw(t, body_hex):
    return (t.to_bytes(2, "big") + (len(body_hex) // 2).to_bytes(2, "big") + bytes.fromhex(body_hex)).hex()


def ins_ext(t, body_hex, where=9999):
    return F(["extensions"], "insert_raw_item", i=where, data=ext_raw(t, body_hex))


# ---- TLS 1.3: what the client sends after the server's Finished (victim: server)
T13_CLIENT_FLIGHT = {
    "cert": [OK,
             ("empty", S(F(["certificate_list"], "empty"))),
             ("drop", {"op": "drop_msg"}),
             ("trunc", {"op": "trunc_msg", "at": 3}),
             ("context", S(F(["context"], "set_bytes", data="aabb"))),
             ("garbage", S(F(["cert_der"], "set_bytes", data="30820100" + "00" * 10))),
             ("entry-ext", S(F(["certificate_list", "entry", "extensions"], "insert_raw_item", i=0, data=ext_raw(0xfafa, "00")))),
             ("trailing", {"op": "trail_msg", "data": "00"})],
    "cv": [OK,
           ("drop", {"op": "drop_msg"}),
           ("scheme-unknown", S(F(["scheme"], "set_uint", value=0x7fff))),
           ("scheme-zero", S(F(["scheme"], "set_uint", value=0))),
           ("scheme-pkcs1-sha1", S(F(["scheme"], "set_uint", value=0x0201))),
           ("scheme-ecdsa", S(F(["scheme"], "set_uint", value=0x0403))),
           ("scheme-pss-sha384", S(F(["scheme"], "set_uint", value=0x0805))),
           ("sig-flip", S(F(["signature"], "flip", pos=5, mask=1))),
           ("sig-empty", S(F(["signature"], "empty"))),
           ("trunc", {"op": "trunc_msg", "at": 2}),
           ("trailing", {"op": "trail_msg", "data": "00"})],
    "ccs": [OK, ("drop", {"op": "drop_msg"}), ("bad", {"op": "raw_replace", "data": "02"}), ("two", {"op": "raw_replace", "data": "0101"})],
    "fin": [OK,
            ("flip", {"op": "byte_xor", "pos": 10, "mask": 255}),
            ("short", {"op": "trunc_msg", "at": 31}),
            ("long", {"op": "trail_msg", "data": "00"}),
            ("empty", {"op": "trunc_msg", "at": 0})],
}

# ---- TLS 1.3: what the server sends after ServerHello (victim: client)
T13_SERVER_FLIGHT = {
    "ee": [OK,
           ("trunc", {"op": "trunc_msg", "at": 1}),
           ("unknown-ext", S(ins_ext(0xfafa, "00"))),
           ("rsl-63", S(ins_ext(28, "003f"))),
           ("rsl-empty", S(ins_ext(28, ""))),
           ("rsl-16386", S(ins_ext(28, "4002"))),
           ("rsl-ok", S(ins_ext(28, "4001"))),
           ("alpn-unsolicited", S(ins_ext(16, "0003026832"))),
           ("alpn-empty", S(ins_ext(16, "0000"))),
           ("sni", S(ins_ext(0, ""))),
           ("key-share", S(ins_ext(51, "001d0020" + "11" * 32))),
           ("heartbeat-3", S(ins_ext(15, "03"))),
           ("sup-groups-empty", S(ins_ext(10, ""))),
           ("dup", S(ins_ext(0xfafa, "00"), ins_ext(0xfafa, "00"))),
           ("trailing", {"op": "trail_msg", "data": "00"})],
    "cr": [OK,
           ("drop", {"op": "drop_msg"}),
           ("no-sigalgs", S(F(["extensions"], "del_named", name="ext:signature_algorithms"))),
           ("empty-sigalgs", S(F(["ext:signature_algorithms", "ext_data"], "set_bytes", data="0000"))),
           ("sigalgs-no-payload", S(F(["ext:signature_algorithms", "ext_data"], "empty"))),
           ("sigalgs-unknown-only", S(F(["ext:signature_algorithms", "ext_data"], "set_bytes", data="00027fff"))),
           ("context", S(F(["context"], "set_bytes", data="aabb"))),
           ("compress-empty", S(ins_ext(27, ""))),
           ("compress-empty-list", S(ins_ext(27, "00"))),
           ("compress-unknown", S(ins_ext(27, "027777"))),
           ("unknown-ext", S(ins_ext(0xfafa, "00"))),
           ("no-exts", S(F(["extensions"], "empty"))),
           ("trunc", {"op": "trunc_msg", "at": 1})],
    "cert": [OK,
             ("empty", S(F(["certificate_list"], "empty"))),
             ("drop", {"op": "drop_msg"}),
             ("trunc", {"op": "trunc_msg", "at": 3}),
             ("context", S(F(["context"], "set_bytes", data="aabb"))),
             ("garbage", S(F(["cert_der"], "set_bytes", data="30820100" + "00" * 10))),
             ("entry-unknown-ext", S(F(["certificate_list", "entry", "extensions"], "insert_raw_item", i=0, data=ext_raw(0xfafa, "00")))),
             ("entry-status-request", S(F(["certificate_list", "entry", "extensions"], "insert_raw_item", i=0, data=ext_raw(5, "01000000")))),
             ("entry-dc-garbage", S(F(["certificate_list", "entry", "extensions"], "insert_raw_item", i=0, data=ext_raw(34, "00")))),
             ("entry-dc-two", S(F(["certificate_list", "entry", "extensions"], "insert_raw_item", i=0, data=ext_raw(34, "")),
                                F(["certificate_list", "entry", "extensions"], "insert_raw_item", i=0, data=ext_raw(34, "")))),
             ("entry-dup-ext", S(F(["certificate_list", "entry", "extensions"], "insert_raw_item", i=0, data=ext_raw(0xfafa, "")),
                                 F(["certificate_list", "entry", "extensions"], "insert_raw_item", i=0, data=ext_raw(0xfafa, "")))),
             ("trailing", {"op": "trail_msg", "data": "00"})],
    "cv": [OK,
           ("drop", {"op": "drop_msg"}),
           ("scheme-unknown", S(F(["scheme"], "set_uint", value=0x7fff))),
           ("scheme-pkcs1-sha1", S(F(["scheme"], "set_uint", value=0x0201))),
           ("scheme-pkcs1-sha256", S(F(["scheme"], "set_uint", value=0x0401))),
           ("scheme-ecdsa", S(F(["scheme"], "set_uint", value=0x0403))),
           ("scheme-ed25519", S(F(["scheme"], "set_uint", value=0x0807))),
           ("scheme-pss-sha384", S(F(["scheme"], "set_uint", value=0x0805))),
           ("sig-flip", S(F(["signature"], "flip", pos=5, mask=1))),
           ("sig-empty", S(F(["signature"], "empty"))),
           ("trunc", {"op": "trunc_msg", "at": 2})],
    "fin": [OK,
            ("flip", {"op": "byte_xor", "pos": 10, "mask": 255}),
            ("short", {"op": "trunc_msg", "at": 31}),
            ("long", {"op": "trail_msg", "data": "00"})],
}

NAME2KEY13S = {"handshake:encrypted_extensions": "ee", "handshake:certificate_request": "cr", "handshake:certificate": "cert",
               "handshake:compressed_certificate": "cert", "handshake:certificate_verify": "cv", "handshake:finished": "fin",
               "change_cipher_spec": "ccs"}


def flight_indexes(base, side, name2key, skip_first=1):
    """message index (in send order) -> flight key, for the messages after the hello(s)"""
    out = {}
    seen_hello = 0
    for i, (n, ct, data, _) in enumerate(base.msgs[side]):
        if n in ("handshake:client_hello", "handshake:server_hello"):
            seen_hello += 1
            continue
        if n in name2key and name2key[n] not in out.values():
            out[i] = name2key[n]
    return out


def observe(L, victim):
    """('alert', desc, msg) | ('escape', name, line) | ('tlserror', name, msg) | ('other', state)"""
    from tlslite import errors
    from . import c08
    v = L.end(victim)
    e = v.exc if v.state == "error" else None
    if e is None:
        return ("other", v.state, "")
    if isinstance(e, errors.TLSLocalAlert):
        return ("alert", e.description, c08.norm_msg(e.message or ""))
    if isinstance(e, (errors.TLSRemoteAlert, errors.TLSAbruptCloseError)):
        return ("other", "peer", "")
    if isinstance(e, errors.BaseTLSException):
        return ("tlserror", type(e).__name__, c08.norm_msg(str(e)))
    return ("escape", type(e).__name__, c08.exc_site(e)[1])


# ---- TLS <= 1.2: what the server sends after ServerHello (victim: client)
T12_SERVER_FLIGHT = {
    "cert": [OK,
             ("empty", S(F(["certificate_list"], "empty"))),
             ("drop", {"op": "drop_msg"}),
             ("trunc", {"op": "trunc_msg", "at": 3}),
             ("garbage", S(F(["cert_der"], "set_bytes", data="30820100" + "00" * 10))),
             ("trailing", {"op": "trail_msg", "data": "00"})],
    "ske": [OK,
            ("drop", {"op": "drop_msg"}),
            ("trunc", {"op": "trunc_msg", "at": 3}),
            ("trailing", {"op": "trail_msg", "data": "00"}),
            ("sig-flip", S(F(["signature"], "flip", pos=5, mask=1))),
            ("sig-empty", S(F(["signature"], "empty"))),
            ("hash-unknown", S(F(["hash_alg"], "set_uint", value=9))),
            ("hash-md5", S(F(["hash_alg"], "set_uint", value=1))),
            ("sigalg-ecdsa", S(F(["sig_alg"], "set_uint", value=3))),
            ("sigalg-unknown", S(F(["sig_alg"], "set_uint", value=99))),
            ("curve-type-1", S(F(["curve_type"], "set_uint", value=1))),
            ("curve-unknown", S(F(["named_curve"], "set_uint", value=0xffff))),
            ("curve-not-offered", S(F(["named_curve"], "set_uint", value=19))),
            ("point-empty", S(F(["point"], "empty"))),
            ("point-invalid", S(F(["point"], "set_bytes", data="04" + "12" * 64))),
            ("point-short", S(F(["point"], "trunc_content", n=1))),
            ("point-zero-x25519", S(F(["point"], "set_bytes", data="00" * 32))),
            ("dh-p-small", S(F(["dh_p"], "set_bytes", data="17"))),
            ("dh-p-even", S(F(["dh_p"], "flip", pos=255, mask=1))),
            ("dh-g-zero", S(F(["dh_g"], "set_bytes", data="00"))),
            ("dh-g-one", S(F(["dh_g"], "set_bytes", data="01"))),
            ("dh-ys-zero", S(F(["dh_Ys"], "set_bytes", data="00"))),
            ("dh-ys-one", S(F(["dh_Ys"], "set_bytes", data="01"))),
            ("dh-ys-empty", S(F(["dh_Ys"], "empty"))),
            ("dh-p-empty", S(F(["dh_p"], "empty")))],
    "cr": [OK,
           ("drop", {"op": "drop_msg"}),
           ("trunc", {"op": "trunc_msg", "at": 1}),
           ("types-empty", S(F(["cert_types"], "empty"))),
           ("types-unknown", S(F(["cert_types"], "set_bytes", data="7f"))),
           ("sigalgs-empty", S(F(["sigalgs"], "empty"))),
           ("sigalgs-unknown", S(F(["sigalgs"], "set_bytes", data="7f7f"))),
           ("sigalgs-odd", S(F(["sigalgs"], "set_bytes", data="040105"))),
           ("authorities-garbage", S(F(["authorities"], "set_bytes", data="0001"))),
           ("trailing", {"op": "trail_msg", "data": "00"})],
    "shd": [OK,
            ("drop", {"op": "drop_msg"}),
            ("nonempty", {"op": "trail_msg", "data": "00"}),
            ("dup", {"op": "dup_msg"})],
    "ccs": [OK, ("drop", {"op": "drop_msg"}), ("bad", {"op": "raw_replace", "data": "02"}), ("two", {"op": "raw_replace", "data": "0101"}),
            ("empty", {"op": "raw_replace", "data": ""})],
    "fin": [OK,
            ("flip", {"op": "byte_xor", "pos": 10, "mask": 255}),
            ("short", {"op": "trunc_msg", "at": 11}),
            ("long", {"op": "trail_msg", "data": "00"})],
}

# ---- TLS <= 1.2: what the client sends after ServerHelloDone (victim: server)
T12_CLIENT_FLIGHT = {
    "cert": [OK,
             ("empty", S(F(["certificate_list"], "empty"))),
             ("drop", {"op": "drop_msg"}),
             ("trunc", {"op": "trunc_msg", "at": 2}),
             ("garbage", S(F(["cert_der"], "set_bytes", data="30820100" + "00" * 10))),
             ("trailing", {"op": "trail_msg", "data": "00"})],
    "cke": [OK,
            ("drop", {"op": "drop_msg"}),
            ("empty", {"op": "trunc_msg", "at": 0}),
            ("trunc", {"op": "trunc_msg", "at": 3}),
            ("trailing", {"op": "trail_msg", "data": "00"}),
            ("point-empty", S(F(["ec_point"], "empty"))),
            ("point-invalid", S(F(["ec_point"], "set_bytes", data="04" + "12" * 64))),
            ("point-short", S(F(["ec_point"], "trunc_content", n=1))),
            ("point-zero-x25519", S(F(["ec_point"], "set_bytes", data="00" * 32))),
            ("dh-yc-zero", S(F(["exchange_keys"], "set_bytes", data="00"))),
            ("dh-yc-one", S(F(["exchange_keys"], "set_bytes", data="01"))),
            ("dh-yc-empty", S(F(["exchange_keys"], "empty"))),
            ("dh-yc-huge", S(F(["exchange_keys"], "set_bytes", data="ff" * 300))),
            ("rsa-garbage", S(F(["exchange_keys"], "fill", byte=0x41))),
            ("rsa-short", S(F(["exchange_keys"], "trunc_content", n=1))),
            ("rsa-empty", S(F(["exchange_keys"], "empty")))],
    "cv": [OK,
           ("drop", {"op": "drop_msg"}),
           ("trunc", {"op": "trunc_msg", "at": 2}),
           ("scheme-unknown", S(F(["scheme"], "set_uint", value=0x7fff))),
           ("scheme-md5", S(F(["scheme"], "set_uint", value=0x0101))),
           ("scheme-ecdsa", S(F(["scheme"], "set_uint", value=0x0403))),
           ("sig-flip", S(F(["signature"], "flip", pos=5, mask=1))),
           ("sig-empty", S(F(["signature"], "empty"))),
           ("trailing", {"op": "trail_msg", "data": "00"})],
    "ccs": [OK, ("drop", {"op": "drop_msg"}), ("bad", {"op": "raw_replace", "data": "02"}), ("two", {"op": "raw_replace", "data": "0101"}),
            ("empty", {"op": "raw_replace", "data": ""})],
    "fin": [OK,
            ("flip", {"op": "byte_xor", "pos": 10, "mask": 255}),
            ("short", {"op": "trunc_msg", "at": 11}),
            ("long", {"op": "trail_msg", "data": "00"})],
}

NAME2KEY12 = {"handshake:certificate": "cert", "handshake:server_key_exchange": "ske", "handshake:certificate_request": "cr",
              "handshake:server_hello_done": "shd", "handshake:client_key_exchange": "cke", "handshake:certificate_verify": "cv",
              "change_cipher_spec": "ccs", "handshake:finished": "fin"}


# ---------------------------------------------------------------------------------------------
# abstraction: (flight, message key, variant tag) -> item tokens of the model (lean/TlsModel/Flights.lean)
HT = {"cert": 11, "cv": 15, "fin": 20, "ee": 8, "cr": 13, "ske": 12, "shd": 14, "cke": 16}
P50 = ("trunc", "trailing", "short", "long", "empty-msg")


def item(h, **kw):
    parts = ["h:%d" % h] + ["%s:%s" % (k, v) for k, v in kw.items()]
    return ",".join(parts)


def ccs_items(tag):
    return {"ok": ["c:20,ccs:1"], "drop": [], "bad": ["c:20,ccs:2"], "two": ["c:20,ccs:1.1"], "empty": ["c:20,ccs:"]}[tag]


def feat_13s(key, tag, sc):
    """TLS 1.3, victim server"""
    if key == "ccs":
        return ccs_items(tag)
    h = HT[key]
    if tag == "drop":
        return []
    if key == "cert":
        honest = "1111" if sc["client_has_cert"] else "0111"
        return {"ok": [item(h, b=honest)], "empty": [item(h, b="0111")], "trunc": [item(h, p=50)], "context": [item(h, b=honest)],
                "garbage": [item(h, p=50)], "entry-ext": [item(h, b=honest)], "trailing": [item(h, p=50)]}.get(tag)
    if key == "cv":
        if tag in ("scheme-unknown", "scheme-zero", "scheme-pkcs1-sha1", "scheme-ecdsa"):
            return [item(h, b="0111")]
        return {"ok": [item(h)], "sig-flip": [item(h, b="1101")], "sig-empty": [item(h, b="1101")], "trunc": [item(h, p=50)],
                "trailing": [item(h, p=50)]}.get(tag)
    if key == "fin":
        return {"ok": [item(h)], "flip": [item(h, b="0111")], "short": [item(h, p=50)], "long": [item(h, p=50)],
                "empty": [item(h, p=50)]}.get(tag)
    return None


def feat_13c(key, tag, sc):
    """TLS 1.3, victim client (certificate authentication)"""
    if key == "ccs":
        return ccs_items(tag)
    h = HT[key]
    if tag == "drop":
        return []
    if key == "ee":
        base = {"e1": sc.get("ee_rsl", "-"), "n": "%d.0.0" % sc.get("ee_hb", 0)}
        m = {"ok": {}, "trunc": {"p": 50}, "unknown-ext": {}, "rsl-63": {"e1": 63}, "rsl-empty": {"e1": "N"}, "rsl-16386": {"e1": 16386},
             "rsl-64": {"e1": 64}, "alpn-unsolicited": {"x1": "L2"}, "alpn-two": {"x1": "L2.2"}, "alpn-empty": {"x1": "L"}, "sni": {},
             "key-share": {"p": 50}, "sup-groups-empty": {}, "dup": {"p": 47}, "trailing": {"p": 50}}
        if tag not in m:
            return None
        return [item(h, **dict(base, **m[tag]))]
    if key == "cr":
        m = {"ok": "2.0.0", "no-sigalgs": "0.0.0", "empty-sigalgs": "0.0.0", "sigalgs-no-payload": "0.0.0", "no-exts": "0.0.0",
             "sigalgs-unknown-only": "1.0.0", "context": "2.0.0", "compress-empty": "2.1.0", "compress-empty-list": "2.1.0",
             "compress-unknown": "2.2.0", "unknown-ext": "2.0.0"}
        if tag == "trunc":
            return [item(h, p=50)]
        return [item(h, n=m[tag])] if tag in m else None
    if key == "cert":
        m = {"ok": {}, "empty": {"b": "0111"}, "trunc": {"p": 50}, "context": {}, "garbage": {"p": 50}, "entry-unknown-ext": {},
             "entry-status-request": {}, "entry-dc-garbage": {"p": 50}, "entry-dc-two": {"p": 50}, "entry-dup-ext": {"p": 47},
             "trailing": {"p": 50}}
        return [item(h, **m[tag])] if tag in m else None
    if key == "cv":
        m = {"ok": {}, "scheme-unknown": {"b": "0111"}, "scheme-pkcs1-sha1": {"b": "0111"}, "scheme-pkcs1-sha256": {"b": "0111"},
             "scheme-ecdsa": {"b": "1011"}, "scheme-ed25519": {"b": "1011"}, "sig-flip": {"b": "1110"}, "sig-empty": {"b": "1110"},
             "trunc": {"p": 50}}
        return [item(h, **m[tag])] if tag in m else None
    if key == "fin":
        return {"ok": [item(h)], "flip": [item(h, b="0111")], "short": [item(h, p=50)], "long": [item(h, p=50)]}.get(tag)
    return None


def feat_12c(key, tag, sc):
    """TLS <= 1.2, victim client"""
    if key == "ccs":
        return ccs_items(tag)
    h = HT[key]
    if tag == "drop":
        return []
    if key == "cert":
        m = {"ok": {}, "empty": {"b": "0111"}, "trunc": {"p": 50}, "garbage": {"p": 42}, "trailing": {"p": 50}}
        return [item(h, **m[tag])] if tag in m else None
    if key == "ske":
        if tag in ("ok",):
            return [item(h)]
        if tag in ("trunc", "trailing"):
            return [item(h, p=50)]
        if tag == "curve-type-1":
            return [item(h, p=47)]
        if sc["signed"]:
            if tag in ("sig-empty", "hash-unknown", "hash-md5", "sigalg-ecdsa", "sigalg-unknown"):
                return [item(h, n="1.0.0")]
            if tag in ("dh-p-even",):
                return None
            return [item(h, n="2.0.0")]          # any change of the signed parameters: the signature no longer verifies
        m = {"dh-p-small": {"n": "0.1.0"}, "dh-p-empty": {"n": "0.1.0"}, "dh-g-zero": {"n": "0.0.47", "s": "Invalid_DH_generator"},
             "dh-g-one": {"n": "0.0.47", "s": "Invalid_DH_generator"}, "dh-ys-zero": {"n": "0.0.47", "s": "Invalid_peer_key_share"},
             "dh-ys-one": {"n": "0.0.47", "s": "Invalid_peer_key_share"}, "dh-ys-empty": {"n": "0.0.47", "s": "Invalid_peer_key_share"}}
        return [item(h, **m[tag])] if tag in m else None
    if key == "cr":
        m = {"ok": {}, "trunc": {"p": 50}, "trailing": {"p": 50}, "sigalgs-odd": {"p": 50}, "authorities-garbage": {"p": 50},
             "types-empty": {}, "types-unknown": {}, "sigalgs-empty": {"b": "0111"}, "sigalgs-unknown": {"b": "0111"}}
        return [item(h, **m[tag])] if tag in m else None
    if key == "shd":
        return {"ok": [item(h)], "nonempty": [item(h, p=50)], "dup": [item(h), item(h)]}.get(tag)
    if key == "fin":
        return {"ok": [item(h)], "flip": [item(h, b="0111")], "short": [item(h, p=50)], "long": [item(h, p=50)]}.get(tag)
    return None


def feat_12s(key, tag, sc):
    """TLS <= 1.2, victim server"""
    if key == "ccs":
        return ccs_items(tag)
    h = HT[key]
    if tag == "drop":
        return []
    if key == "cert":
        m = {"ok": {}, "empty": {"b": "0111"}, "trunc": {"p": 50}, "garbage": {"p": 42}, "trailing": {"p": 50}}
        return [item(h, **m[tag])] if tag in m else None
    if key == "cke":
        kx = sc["kx"]
        if tag == "ok":
            return [item(h)]
        if tag in ("empty", "trunc", "trailing"):
            return [item(h, p=50)]
        if kx == "ecdhe":
            m = {"point-empty": {"n": "50.0.0", "s": "No_key_share"}, "point-invalid": {"n": "47.0.0", "s": "Invalid_key_share"},
                 "point-short": {"n": "47.0.0", "s": "Invalid_key_share"}, "point-zero-x25519": {"n": "47.0.0", "s": "Invalid_key_share"}}
        elif kx == "dhe":
            m = {"dh-yc-zero": {"n": "47.0.0", "s": "Invalid_peer_key_share"}, "dh-yc-one": {"n": "47.0.0", "s": "Invalid_peer_key_share"},
                 "dh-yc-huge": {"n": "47.0.0", "s": "Invalid_peer_key_share"}, "dh-yc-empty": {"n": "50.0.0", "s": "DH_key_share_too_short"},
                 "rsa-empty": {"n": "50.0.0", "s": "DH_key_share_too_short"}, "rsa-garbage": {"b": "0111"}, "rsa-short": {"b": "0111"}}
        else:   # rsa: nothing is reported, the premaster secret is replaced by a random one
            m = dict((t, {"b": "0111"}) for t in ("dh-yc-zero", "dh-yc-one", "dh-yc-empty", "dh-yc-huge", "rsa-garbage", "rsa-short",
                                                   "rsa-empty"))
        return [item(h, **m[tag])] if tag in m else None
    if key == "cv":
        m = {"ok": {}, "trunc": {"p": 50}, "trailing": {"p": 50}, "scheme-unknown": {"b": "0111"}, "scheme-md5": {"b": "0111"},
             "scheme-ecdsa": {"b": "0111"}, "sig-flip": {"b": "1011"}, "sig-empty": {"b": "1011"}}
        return [item(h, **m[tag])] if tag in m else None
    if key == "fin":
        return {"ok": [item(h)], "flip": [item(h, b="0111")], "short": [item(h, p=50)], "long": [item(h, p=50)]}.get(tag)
    return None


# the EE variants that modify extensions the real message already carries
T13_SERVER_FLIGHT["ee"] = [v for v in T13_SERVER_FLIGHT["ee"] if v[0] not in ("rsl-63", "rsl-empty", "rsl-16386", "rsl-ok", "heartbeat-3")] + [
    ("rsl-63", S(F(["ext:record_size_limit", "limit"], "set_uint", value=63))),
    ("rsl-64", S(F(["ext:record_size_limit", "limit"], "set_uint", value=64))),
    ("rsl-16386", S(F(["ext:record_size_limit", "limit"], "set_uint", value=16386))),
    ("rsl-empty", S(F(["ext:record_size_limit", "ext_data"], "empty"))),
    ("alpn-two", S(ins_ext(16, "000602683202" + "6833"))),
]
T13_CLIENT_FLIGHT["cv"] = [v for v in T13_CLIENT_FLIGHT["cv"] if v[0] != "scheme-pss-sha384"]
T13_SERVER_FLIGHT["cv"] = [v for v in T13_SERVER_FLIGHT["cv"] if v[0] != "scheme-pss-sha384"]
T12_SERVER_FLIGHT["ske"] = [v for v in T12_SERVER_FLIGHT["ske"] if v[0] != "dh-p-even"]
# TLS <= 1.2: without the ChangeCipherSpec the Finished that follows is ciphertext read as plaintext, its fate
# depends on the random bytes (usually the Defragmenter waits for a huge message): not a feature the model has
T12_SERVER_FLIGHT["ccs"] = [v for v in T12_SERVER_FLIGHT["ccs"] if v[0] != "drop"]
T12_CLIENT_FLIGHT["ccs"] = [v for v in T12_CLIENT_FLIGHT["ccs"] if v[0] != "drop"]

FLIGHTS = [
    # name, scenario, sender, table, name->key, feature fn, driver op + configuration, scenario context
    ("tls13-server", "tls13-clientauth-nocompress", "client", T13_CLIENT_FLIGHT, NAME2KEY13S, feat_13s,
     "fl13s reqcert=1 compress=0", {"client_has_cert": True}),
    ("tls13-server", "tls13-reqcert-nocert", "client", T13_CLIENT_FLIGHT, NAME2KEY13S, feat_13s,
     "fl13s reqcert=1 compress=0", {"client_has_cert": False}),
    ("tls13-server", "tls13-nocompress", "client", T13_CLIENT_FLIGHT, NAME2KEY13S, feat_13s,
     "fl13s reqcert=0 compress=0", {"client_has_cert": False}),
    ("tls13-client", "tls13-clientauth-nocompress", "server", T13_SERVER_FLIGHT, NAME2KEY13S, feat_13c,
     "fl13c compress=0 rsl=1 havecert=1 salpn=0 uhb=1 hbcb=0 dc=0", {"ee_rsl": 16385, "ee_hb": 1}),
    ("tls13-client", "tls13-nocompress", "server", T13_SERVER_FLIGHT, NAME2KEY13S, feat_13c,
     "fl13c compress=0 rsl=1 havecert=0 salpn=0 uhb=1 hbcb=0 dc=0", {"ee_rsl": 16385, "ee_hb": 1}),
    ("tls12-client", "tls12-clientauth", "server", T12_SERVER_FLIGHT, NAME2KEY12, feat_12c,
     "fl12c certsuite=1 ske=1 dh=0 v12=1", {"signed": True}),
    ("tls12-client", "tls12-dhe", "server", T12_SERVER_FLIGHT, NAME2KEY12, feat_12c,
     "fl12c certsuite=1 ske=1 dh=1 v12=1", {"signed": True}),
    ("tls12-client", "tls12-rsa", "server", T12_SERVER_FLIGHT, NAME2KEY12, feat_12c,
     "fl12c certsuite=1 ske=0 dh=0 v12=1", {"signed": True}),
    ("tls12-client", "tls12-anon", "server", T12_SERVER_FLIGHT, NAME2KEY12, feat_12c,
     "fl12c certsuite=0 ske=1 dh=1 v12=1", {"signed": False}),
    ("tls12-client", "tls10-clientauth", "server", T12_SERVER_FLIGHT, NAME2KEY12, feat_12c,
     "fl12c certsuite=1 ske=1 dh=1 v12=0", {"signed": True}),
    ("tls12-server", "tls12-clientauth", "client", T12_CLIENT_FLIGHT, NAME2KEY12, feat_12s,
     "fl12s reqcert=1 v12=1", {"kx": "ecdhe"}),
    ("tls12-server", "tls12-dhe", "client", T12_CLIENT_FLIGHT, NAME2KEY12, feat_12s,
     "fl12s reqcert=0 v12=1", {"kx": "dhe"}),
    ("tls12-server", "tls12-rsa", "client", T12_CLIENT_FLIGHT, NAME2KEY12, feat_12s,
     "fl12s reqcert=0 v12=1", {"kx": "rsa"}),
    ("tls12-server", "tls12-anon", "client", T12_CLIENT_FLIGHT, NAME2KEY12, feat_12s,
     "fl12s reqcert=0 v12=1", {"kx": "dhe"}),
    ("tls12-server", "tls10-clientauth", "client", T12_CLIENT_FLIGHT, NAME2KEY12, feat_12s,
     "fl12s reqcert=1 v12=0", {"kx": "dhe"}),
]


def flight_stream(ctx, J, bases, n_random):
    """directed single variants + random combinations, model against implementation + the C08 oracle"""
    from . import c08
    lc = ctx.lean()
    rng = ctx.rng
    for (fname, sname, side, table, name2key, feat, opline, sc) in FLIGHTS:
        base = bases.get(sname)
        if base is None or not base.ok:
            ctx.count("flight-skipped:" + sname)
            continue
        idx = flight_indexes(base, side, name2key)
        keys = [(i, k) for i, k in sorted(idx.items()) if k in table]
        victim = "server" if side == "client" else "client"
        combos = []
        for i, k in keys:
            for tag, d in table[k]:
                if d is not None:
                    combos.append({k: tag})
        directed = len(combos)          # one deviation per message: never behind the budget
        for _ in range(n_random):
            c = {}
            for i, k in keys:
                if rng.random() < 0.3:
                    c[k] = rng.choice(table[k])[0]
            if c:
                combos.append(c)
        for ci, combo in enumerate(combos):
            if ci >= directed and ctx.out_of_time(0.7):
                ctx.count("cut-by-budget:flight-random-combinations")
                break
            muts, items, skip = {}, [], False
            for i, k in keys:
                tag = combo.get(k, "ok")
                d = dict(table[k])[tag]
                f = feat(k, tag, sc)
                if f is None:
                    skip = True
                    break
                items.extend(f)
                if d is not None:
                    muts[i] = dict(d, pver=list(base.ctxm["version"]), label=k, cls="flight-%s-%s" % (k, tag))
            if skip:
                continue
            if fname == "tls12-client" and combo.get("shd") == "drop":
                # the server's ChangeCipherSpec / Finished answer the client's flight, which is never sent
                items = [x for x in items if not (x.startswith("c:20") or x.startswith("h:20"))]
            # every second combination with an application that keeps the socket (closeSocket=False): the alert has to
            # reach the peer by the library's own write
            close_socket = zlib.crc32(repr(sorted(combo.items())).encode()) % 2 == 0
            L, applied, peak = c08.run_handshake_case(base.scn, side, muts, None, base.ctxm, close_socket=close_socket)
            if L is None or applied.get("inapplicable"):
                ctx.count("flight-inapplicable:%s" % fname)
                continue
            impl = observe(L, victim)
            line = "%s items=%s" % (opline, ";".join(items) or "-")
            replay = {"stage": "flight", "scn": sname, "side": side, "muts": {str(k): v for k, v in muts.items()},
                      "ctxm": base.ctxm, "msg": fname, "cls": "flight-" + "+".join("%s=%s" % kv for kv in sorted(combo.items())),
                      "line": line, "close_socket": close_socket}
            c08.judge(J, L, victim, "%s flight %s%s" % (fname, sorted(combo.items()), "" if close_socket else " closeSocket=False"),
                      replay)
            ctx.case(key=("flight", sname, side, tuple(sorted(combo.items()))), nontrivial=True,
                     sample={"flight": fname, "scenario": sname, "variants": combo, "impl": list(impl)}
                     if ctx.evaluations % 401 == 0 else None)
            ctx.count("flight:" + fname)
            if lc is None:
                continue
            if impl == ("other", "peer", ""):
                ctx.count("flight-peer-aborted-first")      # the honest peer gave up before the victim answered
                continue
            mo = lc.ask(line)
            ctx.compared()
            if not flight_agree(mo, impl):
                ctx.disagree("flight-" + fname, {"scenario": sname, "combo": combo, "line": line}, mo, impl)


def flight_agree(mo, impl):
    from . import c08
    parts = mo.split(":", 2)
    if parts[0] == "alert":
        m = c08.norm_msg(parts[2]) if len(parts) > 2 else ""
        if impl[0] != "alert" or impl[1] != int(parts[1]):
            return False
        return m in ("parse", "") or impl[2].startswith(m)
    if parts[0] == "pass":
        return impl[:2] == ("other", "done")
    if parts[0] == "blocked":
        return impl[:2] == ("other", "stall")
    return False


# ---------------------------------------------------------------------------------------------
# HelloRetryRequest: first ClientHello, the server's decision, the second ClientHello
HRR_ACCEPTABLE = [23, 29, 23, 29, 24, 256, 257, 258, 259, 260]     # keyShares + eccCurves + dhGroups of the server below
HRR_MESSAGES = ["Missing supported groups extension", "No acceptable group advertised by client", "Key share missing in Client Hello",
                "Empty key share extension in second Client Hello", "Multiple key shares in second Client Hello",
                "Client key share does not match Hello Retry Request", "Malformed cookie extension",
                "Second client hello does not contain cookie extension", "PSK extension not last in client hello",
                "Old Client Hello does not match the updated Client Hello"]


def hrr_case(rng):
    P = lambda v: ("P", v)
    psk_ke = rng.random() < 0.35
    ks1 = rng.choice([[30], [30], [30, 25], [], [25], [29], None if psk_ke else [30]])
    if psk_ke:
        sg1 = rng.choice([None, [30, 25, 29, 23], [30, 25, 24], [30, 25], [29, 30, 25]])
    else:
        sg1 = rng.choice([[30, 25, 29, 23], [30, 25, 24], [30, 25], [30, 25, 260], [29, 30, 25]])
    if ks1 and sg1 is not None:
        ks1 = [g for g in sg1 if g in ks1]          # the order of the advertised groups
        if not ks1:
            ks1 = [sg1[0]] if sg1[0] in (30, 25, 29) else []
    f1 = {"pe": 0, "cv": 0x0303, "se": 0, "ce": 0, "nc": 1, "sv": P([0x0304]), "sa": P(4), "alpn": "-", "sni": P([(0, "o")]),
          "ems": "-", "ecpf": "-", "pha": "-", "pm": P([0] if psk_ke else [1]), "psk": P(([4], [32], True)) if psk_ke else "-",
          "sg": "-" if sg1 is None else P(sg1), "ks": "-" if ks1 is None else P(ks1), "ed": "-", "hb": "-", "rsl": "-", "ct": "-",
          "_min": 0x0301, "_vers": [0x0304, 0x0303, 0x0302, 0x0301], "_dupval": {}, "_sid": b"\x07" * 32}
    second = {"ks2": rng.choice(["sel", "sel", "sel", "sel", "absent", "none", "empty", "sel+other", "other", "dup"]),
              "cookie": rng.choice([0, 0, 0, 0, 1, 2]),
              "psklast": True if not psk_ke else rng.random() < 0.8,
              "change": rng.choice(["none", "none", "none", "random", "suites", "added-ext", "sni", "padding-added", "early-data-removed"]),
              "parse": rng.choice([0, 0, 0, 0, 0, 50])}
    return f1, ks1, sg1, psk_ke, second


def run_hrr_case(f1, second):
    """server alone: first hello, read the HelloRetryRequest, answer with the second hello built from the features"""
    from harness import lab
    from . import c08
    L = lab.Lab()
    L.max_steps = 5000
    chain, key = lab.creds("rsa")
    ss = lab.settings(minv=(3, 1), maxv=(3, 4), eccCurves=["secp256r1", "x25519", "secp384r1"], pskConfigs=[(b"iiii", b"\x01" * 32)])
    L.start_server(lambda c: c.handshakeServerAsync(certChain=chain, privateKey=key, settings=ss))
    L.client.state = "idle"
    if second.get("change") == "early-data-removed":
        f1 = dict(f1, ed=("P", False)) if f1["psk"] != "-" else f1
    L.link.inject("c2s", c08.rec(22, c08.ch_feature_bytes(f1), ver=(3, 1)))
    with c08.Watchdog():
        L.run(only=("server",))
    hrr = None
    for t, v, body in L.link.records("s2c"):
        if t == 22 and body[:1] == b"\x02" and bytes(body[6:38]) == bytes.fromhex(
                "cf21ad74e59a6111be1d8c021e65b891c2a211167abb8c5e079e09e2c8a8339c"):
            hrr = bytes(body)
    if hrr is None or L.server.state != "stall":
        return L, None
    # the extensions of the HelloRetryRequest: selected group and cookie
    root = M.parse_handshake(hrr, {"version": (3, 4), "hrr": True})
    sel, cookie = None, None
    for p, n in root.walk():
        if n.name == "ext:key_share":
            sel = int.from_bytes(n.children[1].content(), "big")
        if n.name == "ext:cookie":
            cookie = n.children[1].content()
    f2 = dict(f1)
    f2["ed"] = "-"
    other = 24 if sel != 24 else 23
    ks2 = {"sel": ("P", [sel]), "absent": "-", "none": ("P", None), "empty": ("P", []), "sel+other": ("P", [sel, other]),
           "other": ("P", [other]), "dup": "D"}[second["ks2"]]
    f2["ks"] = ks2
    f2["_dupval"] = {"ks": [sel]}
    extra = []
    if second["cookie"] == 0:
        extra.append((44, cookie, 3))
    elif second["cookie"] == 2:
        extra.append((44, cookie[:-1] + bytes([cookie[-1] ^ 1]), 3))
    ch = second["change"]
    if ch == "random":
        f2["_random"] = 0x5b
    elif ch == "suites":
        f2["se"] = 0
        f2["_suites_alt"] = True
    elif ch == "added-ext":
        extra.append((0xfafa, b"\x00", 0))
    elif ch == "sni":
        f2["sni"] = ("P", [(0, "o"), ])
        f2["sni"] = "-"
    elif ch == "padding-added":
        extra.append((21, b"\x00" * 7, -1))      # after the cookie (the code re-inserts cookie, then padding, by index)
    f2["_extra_exts"] = extra
    if f2["psk"] != "-" and not second["psklast"]:
        ids, bs, _ = f2["psk"][1]
        f2["psk"] = ("P", (ids, bs, False))
    msg = c08.ch_feature_bytes(f2)
    if second["parse"] == 50:
        msg = msg[:1] + (len(msg) - 5).to_bytes(3, "big") + msg[4:-1]
    L.server.state = "running"
    L.link.inject("c2s", c08.rec(20, b"\x01") + c08.rec(22, msg, ver=(3, 3)))
    with c08.Watchdog():
        L.run(only=("server",))
    return L, (sel, f2)


def hrr_stream(ctx, J, n):
    from . import c08
    lc = ctx.lean()
    rng = ctx.rng
    msgs = [c08.norm_msg(m) for m in HRR_MESSAGES]
    for hi in range(n):
        if hi >= 150 and ctx.out_of_time(0.65):
            ctx.count("cut-by-budget:hrr-random")
            return
        f1, ks1, sg1, psk_ke, second = hrr_case(rng)
        L, info = run_hrr_case(f1, second)
        impl = observe(L, "server")
        ol = lambda v: "N" if v is None else "L" + ",".join(map(str, v))
        sel = info[0] if info else 0
        other = 24 if sel != 24 else 23
        ks2 = {"sel": "L%d" % sel, "absent": "-", "none": "N", "empty": "L", "sel+other": "L%d,%d" % (sel, other), "other": "L%d" % other,
               "dup": "D"}[second["ks2"]]
        same = second["change"] in ("none", "padding-added", "early-data-removed")
        p2 = second["parse"] if second["parse"] else (47 if second["ks2"] == "dup" else 0)
        line = "hrr ks1=%s sg1=%s acc=%s p2=%d ks2=%s cookie=%d pskboth=%d psklast=%d same=%d" % (
            ol(ks1), ol(sg1), ",".join(map(str, HRR_ACCEPTABLE)), p2, ks2, second["cookie"], 1 if psk_ke else 0,
            1 if second["psklast"] else 0, 1 if same else 0)
        replay = {"stage": "hrr", "f1": f1, "second": second, "msg": "client_hello", "cls": "hrr-" + second["ks2"], "scn": "hrr",
                  "line": line}
        c08.judge(J, L, "server", "HelloRetryRequest flow", replay)
        ctx.case(key=("hrr", line, second["change"]), nontrivial=True,
                 sample={"hrr": line, "impl": list(impl)} if ctx.evaluations % 157 == 0 else None)
        ctx.count("hrr:" + ("retry" if info else "no-retry"))
        if lc is None:
            continue
        mo = lc.ask(line)
        ctx.compared()
        parts = mo.split(":", 2)
        if parts[0] == "alert":
            m = c08.norm_msg(parts[2])
            ok = impl[0] == "alert" and impl[1] == int(parts[1]) and (m == "parse" or impl[2].startswith(m))
        elif parts[0] == "pass":
            ok = impl[0] != "escape" and not (impl[0] == "alert" and any(impl[2].startswith(x) for x in msgs))
        else:
            ok = False
        if not ok:
            ctx.disagree("hrr-flow", {"line": line, "change": second["change"]}, mo, impl)


# ---------------------------------------------------------------------------------------------
# resumption: the consistency checks between the cached session and the new ClientHello
RESUME_BASE = dict(req=1, found=1, co=1, srp=1, sni=1, etm=1, emsold=1, emsnew=1, reneg=0, alpnw=0, alpnc=1, hb=0)
RESUME_VARIANTS = {
    "cipher-not-offered": (F(["cipher_suites"], "set_bytes", data="00ff"), {"co": 0}),
    "sni-differs": (F(["ext:server_name", "host_name"], "set_bytes", data=b"example.org".hex()), {"sni": 0}),
    "ems-dropped": (F(["extensions"], "del_named", name="ext:extended_master_secret"), {"emsnew": 0}),
    "renegotiation-info-non-empty": (ins_ext(65281, "01aa", where=0), {"reneg": 1}),
    "other-session-id": (F(["session_id"], "set_bytes", data="ab" * 32), {"found": 0}),
    "no-session-id": (F(["session_id"], "empty"), {"req": 0}),
}


def resume_stream(ctx, J, bases):
    from . import c08
    import itertools
    lc = ctx.lean()
    base = bases.get("tls12-resume-sni")
    if base is None or not base.ok:
        ctx.count("flight-skipped:tls12-resume-sni")
        return
    names = sorted(RESUME_VARIANTS)
    combos = [()] + [(n,) for n in names] + list(itertools.combinations(names, 2))
    for combo in combos:
        steps = [RESUME_VARIANTS[n][0] for n in combo]
        f = dict(RESUME_BASE)
        for n in combo:
            f.update(RESUME_VARIANTS[n][1])
        d = dict(S(*steps), pver=[3, 3], label="client_hello", cls="resume-" + "+".join(combo))
        L, applied, peak = c08.run_handshake_case(base.scn, "client", 0, d, base.ctxm)
        if L is None or applied.get("inapplicable"):
            ctx.count("flight-inapplicable:resume")
            continue
        impl = observe(L, "server")
        line = "resume " + " ".join("%s=%s" % kv for kv in f.items())
        replay = {"stage": "handshake", "scn": base.scn.name, "side": "client", "target": 0, "msg": "client_hello", "desc": d,
                  "cls": d["cls"], "ctxm": base.ctxm}
        c08.judge(J, L, "server", "resumption " + "+".join(combo), replay)
        ctx.case(key=("resume", combo), nontrivial=True, sample=None)
        ctx.count("flight:resume")
        if lc is None:
            continue
        mo = lc.ask(line)
        ctx.compared()
        if mo == "pass":
            # a full handshake follows (or the resumed one goes on): not one of the message-less alerts of this block
            ok = impl[0] != "escape" and not (impl[0] == "alert" and impl[2] == "")
        else:
            ok = flight_agree(mo, impl)
        if not ok:
            ctx.disagree("resume-checks", {"combo": list(combo), "line": line}, mo, impl)


# ---------------------------------------------------------------------------------------------
# early data: ClientHello with early_data + PSK, then undecryptable records; the skipping is bounded by
# settings.max_early_data (property: bounded work, fails promptly)
def run_early_data_case(max_early, known_psk, sizes, rng_bytes):
    from harness import lab
    from . import c08
    L = lab.Lab()
    L.max_steps = 200000
    chain, key = lab.creds("rsa")
    ss = lab.settings(minv=(3, 1), maxv=(3, 4), eccCurves=["secp256r1", "x25519", "secp384r1"],
                      pskConfigs=[(b"iiii", b"\x01" * 32)], max_early_data=max_early)
    L.start_server(lambda c: c.handshakeServerAsync(certChain=chain, privateKey=key, settings=ss))
    L.client.state = "idle"
    P = lambda v: ("P", v)
    f = {"pe": 0, "cv": 0x0303, "se": 0, "ce": 0, "nc": 1, "sv": P([0x0304]), "sa": P(4), "alpn": "-", "sni": P([(0, "o")]),
         "ems": "-", "ecpf": "-", "pha": "-", "pm": P([1]), "psk": P(([4 if known_psk else 5], [32], True)), "sg": P([29, 23]),
         "ks": P([29]), "ed": P(False), "hb": "-", "rsl": "-", "ct": "-", "_min": 0x0301, "_vers": [0x0304, 0x0303, 0x0302, 0x0301],
         "_dupval": {}}
    L.link.inject("c2s", c08.rec(22, c08.ch_feature_bytes(f), ver=(3, 1)))
    with c08.Watchdog():
        L.run(only=("server",))
    if L.server.state != "stall":
        return L, None          # the hello itself was answered (known PSK with a bad binder): nothing to skip
    total = 0
    for n in sizes:
        L.link.inject("c2s", c08.rec(23, rng_bytes(n), ver=(3, 3)))
        total += n + 5
    L.server.state = "running"
    with c08.Watchdog():
        L.run(only=("server",))
    left = len(L.link.q["c2s"]) + len(L.server.conn.sock._read_buffer)
    consumed = total - left
    # whole records consumed (the BufferedSocket reads ahead, the record layer takes whole records out of it)
    k, acc = 0, 0
    while k < len(sizes) and acc + sizes[k] + 5 <= consumed:
        acc += sizes[k] + 5
        k += 1
    return L, {"records_taken": k, "payload_taken": sum(sizes[:k])}


def early_data_stream(ctx, J, thorough, only=None):
    from . import c08
    lc = ctx.lean()
    rng = ctx.rng
    rb = lambda n: bytes(rng.getrandbits(8) for _ in range(min(n, 32))) + b"\x00" * max(0, n - 32)
    cases = []
    for max_early in ([4000, 100, 16400] if not thorough else [1, 100, 1000, 4000, 16400, 70000]):
        for s in ([1, 17, 500, 16384 + 256] if not thorough else [1, 2, 17, 100, 500, 4000, 16384, 16384 + 256]):
            for mult in (0.5, 1.0, 6.0):
                n = int(max_early * mult / max(1, s)) + (1 if mult >= 1.0 else 0)
                n = max(1, min(n, 3000))
                cases.append((max_early, False, [s] * n))
        cases.append((max_early, False, [rng.choice([1, 20, 300, 1000]) for _ in range(60)]))
        cases.append((max_early, True, [500] * 4))
    if only is not None:
        cases = [only]
    for max_early, known, sizes in cases:
        L, info = run_early_data_case(max_early, known, sizes, rb)
        v = L.server
        replay = {"stage": "early-data", "max_early": max_early, "known_psk": known, "sizes": sizes if len(set(sizes)) > 1 else
                  {"size": sizes[0], "count": len(sizes)}, "msg": "early-data", "cls": "early-data-records", "scn": "early-data"}
        out = c08.judge(J, L, "server", "early data: %d undecryptable records after ClientHello" % len(sizes), replay)
        ctx.case(key=("early", max_early, known, tuple(sizes[:5]), len(sizes)), nontrivial=True,
                 sample={"max_early_data": max_early, "records": len(sizes), "size": sizes[0], "outcome": out["cls"],
                         "taken": info} if max_early == 4000 and sizes[0] == 500 else None)
        ctx.count("early-data:" + out["cls"].split(":")[0])
        if info is None:
            continue
        total = sum(sizes)
        biggest = max(sizes)
        # the property's reading of max_early_data: what is skipped stays below the budget, one more record at most
        # is looked at, and a flight that exceeds the budget ends with a fatal bad_record_mac
        if info["payload_taken"] > max_early + biggest:
            J.report(("early-data-budget",), "c08:early-data-skipped-beyond-max_early_data",
                     "after a ClientHello with early_data the server took %d bytes of undecryptable records although "
                     "max_early_data is %d (%d records of up to %d bytes sent; outcome %s)"
                     % (info["payload_taken"], max_early, len(sizes), biggest, out["cls"]), replay)
        if total >= max_early + biggest and out["cls"] != "local_alert:20":
            J.report(("early-data-no-failure",), "c08:early-data-beyond-budget-not-refused",
                     "%d bytes of undecryptable records (max_early_data %d) did not end in bad_record_mac: %s"
                     % (total, max_early, out["cls"]), replay)
        if lc is not None:
            mo = lc.ask("early max=%d done=0 sizes=%s" % (max_early, ",".join(map(str, sizes))))
            m = dict(p.split("=") for p in mo.split(" "))
            ctx.compared()
            failed = out["cls"] == "local_alert:20"
            # the record that trips the limit is taken too
            want_taken = int(m["skipped"]) + (1 if m["failed"] == "1" else 0)
            if (m["failed"] == "1") != failed or (failed and info["records_taken"] != want_taken) or \
                    (not failed and v.state != "stall"):
                ctx.disagree("early-data-skip", {"max_early": max_early, "size": sizes[0], "n": len(sizes)}, mo,
                             {"outcome": out["cls"], "taken": info})


# ---------------------------------------------------------------------------------------------
# history level: after a failure on a connection that uses a cached session (full or resumed), a later connection
# offering that session must not be resumed
def resumption_history_stream(ctx, J, thorough, only=None):
    import copy
    from harness import lab
    from tlslite.sessioncache import SessionCache
    from . import c08
    lc = ctx.lean()
    scns = {s.name: s for s in c08.all_scenarios()}
    ends = {
        "close": 1,            # orderly close_notify: stays resumable
        "garbage-to-server": 0,   # attacker's record fails the MAC at the server
        "fatal-alert-to-server": 0,
        "garbage-to-client": None,   # the client fails; the server learns it from the client's fatal alert
    }

    def finish(L, how):
        if how == "close":
            L.op("client", L.client.conn.closeAsync())
            L.read("server", max=10)
        elif how == "garbage-to-server":
            L.link.inject("c2s", c08.rec(23, b"\x17" * 64, ver=tuple(L.server.conn.version)))
            L.read("server", max=10)
        elif how == "fatal-alert-to-server":
            pc = L.client.conn
            L.op("client", pc._sendMsgThroughSocket(c08.RawMessage(21, b"\x02\x28")), pump_other=False)
            L.read("server", max=10)
        elif how == "garbage-to-client":
            L.link.inject("s2c", c08.rec(23, b"\x17" * 64, ver=tuple(L.client.conn.version)))
            L.read("client", max=10)
            L.read("server", max=10)

    histories = [["garbage-to-server"], ["close", "garbage-to-server"], ["close", "fatal-alert-to-server"],
                 ["close", "close"], ["close", "garbage-to-client"], ["fatal-alert-to-server"],
                 ["close", "close", "garbage-to-server"], ["close", "garbage-to-server", "close"]]
    if not thorough:
        histories = histories[:6]
    plan = [(n, h) for n in (["tls12-resume", "tls10-ecdhe"] if thorough else ["tls12-resume"]) for h in histories]
    if only is not None:
        plan = [only]
    for sname, hist in plan:
        scn = scns[sname]
        if True:
            cache = SessionCache()
            sess = None
            resumed_flags = []
            server_marks = []
            ok_run = True
            for k, how in enumerate(hist + ["probe"]):
                L = lab.Lab()
                ckw = {"session": copy.copy(sess)} if sess is not None else {}
                if sess is not None:
                    ckw["session"].resumable = True      # an attacker's client keeps offering it
                scn.start(L, {"ckw": ckw, "skw": {"sessionCache": cache}})
                L.run()
                if L.client.state != "done" or L.server.state != "done":
                    ok_run = False
                    break
                resumed_flags.append(bool(L.server.conn.resumed))
                if sess is None:
                    sess = copy.copy(L.client.conn.session)
                if how == "probe":
                    break
                finish(L, how)
                s = L.server.conn.session
                server_marks.append(None if s is None else bool(s.resumable))
            if not ok_run:
                ctx.count("history-baseline-failed")
                continue
            probe_resumed = resumed_flags[-1]
            must_not = any(ends[h] == 0 for h in hist) or any(ends[h] is None and m is False for h, m in zip(hist, server_marks))
            replay = {"stage": "resumption-history", "scn": sname, "history": hist, "msg": "resumption", "cls": "history",
                      "resumed": resumed_flags}
            ctx.case(key=("history", sname, tuple(hist)), nontrivial=True,
                     sample={"history": hist, "resumed_per_connection": resumed_flags} if hist == ["close", "garbage-to-server"] else None)
            ctx.count("history:" + ("resumed" if probe_resumed else "full"))
            if must_not and probe_resumed:
                J.report(("history-resumed",), "c08:session-resumed-after-failure-on-resumed-connection"
                         if resumed_flags[hist.index(next(h for h in hist if ends[h] == 0 or ends[h] is None))] else
                         "c08:session-resumed-after-failure",
                         "history %s: the server ended a connection that used the cached session with a failure, yet the next "
                         "connection offering that session was resumed (resumed flags per connection: %s)"
                         % (hist, resumed_flags), replay)
            if lc is not None:
                flags = [ends[h] if ends[h] is not None else (1 if m else 0) for h, m in zip(hist, server_marks)]
                mo = lc.ask("cache hist=%s" % ",".join(str(int(bool(x))) for x in flags))
                ctx.compared()
                if mo != "resumes=%d" % (1 if probe_resumed else 0):
                    ctx.disagree("resumption-history", {"scenario": sname, "history": hist}, mo,
                                 {"resumed": resumed_flags, "server_session_resumable": server_marks})


# ---------------------------------------------------------------------------------------------
# keyed peer: after a completed handshake a peer that holds the session keys sends structurally degenerate but
# correctly authenticated / encrypted records (only the IV, only padding, padding longer than the body, empty
# plaintext, empty fragments of every content type, TLS 1.3 inner plaintext without content type, ...).
# The reader must end in a TLS alert or a documented exception - never in a bare Python exception.
KEYED_SCENARIOS = ["tls12-cbc-etm", "tls12-cbc-noetm", "tls11-rsa-3des", "tls11-cbc-noetm", "tls10-cbc-etm", "tls10-rsa-aes-noetm",
                   "ssl3-rsa", "tls12-ecdhe-rsa", "tls12-ecdsa-chacha", "tls12-rc4", "tls13-x25519"]


def keyed_extra(ws, ver, tls13, rng):
    """degenerate records the C02 helper does not build: every content type with an empty / one byte fragment,
    correctly protected, for the CBC and stream constructions (AEAD and TLS 1.3 are covered by craft_keyed)"""
    import copy as _copy
    enc, macc = ws.encContext, ws.macContext
    if enc is None or enc.isAEAD or macc is None:
        return
    seq8 = ws.seqnum.to_bytes(8, "big")

    def mac(t, data):
        m = macc.copy()
        m.update(seq8 + bytes([t]) + (bytes(ver) if tuple(ver) != (3, 0) else b"") + len(data).to_bytes(2, "big") + bytes(data))
        return bytes(m.digest())

    def encrypt(pt):
        return bytes(_copy.deepcopy(enc).encrypt(bytearray(pt)))

    def pad(d, bs):
        n = bs - 1 - (len(d) % bs)
        return d + bytes([n]) * (n + 1)
    for t in (20, 21, 22, 23, 24, 99):
        for frag in (b"", b"\x01"):
            if enc.isBlockCipher:
                bs = enc.block_size
                iv = rng.randbytes(bs) if tuple(ver) >= (3, 2) else b""
                if ws.encryptThenMAC:
                    ct = encrypt(iv + pad(frag, bs))
                    body = ct + mac(t, ct)
                else:
                    body = encrypt(iv + pad(frag + mac(t, frag), bs))
            else:
                body = encrypt(frag + mac(t, frag))
            yield ("valid-type-%d-fragment-%d-bytes" % (t, len(frag)), (t, tuple(ver), body))
    if enc.isBlockCipher and ws.encryptThenMAC:
        bs = enc.block_size
        # whole record = padding only, maximal padding, padding byte pointing before the start
        for nm, pt in (("only-padding", bytes([bs - 1]) * bs), ("max-padding", bytes([255]) * 256),
                       ("padding-points-before-start", rng.randbytes(bs - 1) + bytes([bs + 3]))):
            iv = rng.randbytes(bs) if tuple(ver) >= (3, 2) else b""
            ct = encrypt(iv + pt)
            yield ("etm-%s-correct-mac" % nm, (23, tuple(ver), ct + mac(23, ct)))


def keyed_peer_stream(ctx, J, thorough, only=None):
    from harness import lab
    from . import c08
    from .c02 import craft_keyed, peer_write_state
    scns = {s.name: s for s in c08.all_scenarios()}
    rng = ctx.rng
    names = KEYED_SCENARIOS if only is None else [only[0]]
    rot, pair = rng.randrange(4), 0
    for sname in names:
        scn = scns.get(sname)
        if scn is None:
            continue
        for victim in (("server", "client") if only is None else (only[1],)):
            # one connection to enumerate the crafts, then a fresh connection per record (a failure closes it)
            def established():
                L = lab.Lab()
                L.max_steps = 20000
                scn.start(L)
                L.run()
                if L.client.state != "done" or L.server.state != "done":
                    return None
                c08.post_exchange(L)
                for _ in range(3):
                    if L.read(victim, max=16384)[0] != "ok":
                        break
                L.end(victim).state = "idle"
                return L

            def crafts(L):
                ver = tuple(L.end(victim).conn.version)
                tls13 = ver >= (3, 4)
                ws = peer_write_state(L, victim)
                limit = L.end(victim).conn._recordLayer.recv_record_limit
                out = [(n, r) for (n, r, e) in craft_keyed(ws, ver, tls13, limit, rng)]
                out += list(keyed_extra(ws, ver, tls13, rng))
                return out
            L0 = established()
            if L0 is None:
                ctx.count("keyed-baseline-failed:" + sname)
                continue
            try:
                cnames = [n for n, r in crafts(L0)]
            except Exception as e:       # a cipher object the helper cannot copy: not a finding about tlslite
                ctx.count("keyed-craft-unavailable:%s:%s" % (sname, type(e).__name__))
                continue
            if only is not None:
                cnames = [n for n in cnames if n == only[2]]
            elif not thorough:
                # quick: the encrypt-then-MAC degenerate records always, a rotating quarter of the others (a fresh
                # connection per record costs ~80 ms)
                keep = [n for n in cnames if not n.startswith("valid-type-") or n.endswith("0-bytes")]
                cnames = [n for i, n in enumerate(keep) if n.startswith("etm-") or (i + pair + rot) % 4 == 0]
            pair += 1
            for cname in cnames:
                if not cname.startswith("etm-") and ctx.out_of_time(0.75):
                    ctx.count("cut-by-budget:keyed-peer-other-records")
                    continue
                L = established()
                if L is None:
                    break
                rec_ = dict(crafts(L)).get(cname)
                if rec_ is None:
                    continue
                t, v, body = rec_
                rx = "s2c" if victim == "client" else "c2s"
                with c08.Watchdog():
                    L.link.inject(rx, c08.rec(t, body, ver=v))
                    for _ in range(3):
                        if L.read(victim, max=16384)[0] != "ok":
                            break
                vend = L.end(victim)
                if vend.state == "stall":
                    vend.state = "done"
                replay = {"stage": "keyed-record", "scn": sname, "victim": victim, "craft": cname, "msg": "keyed-record",
                          "cls": cname, "body_len": len(body)}
                out = c08.judge(J, L, victim, "keyed peer record %s" % cname, replay)
                ctx.case(key=("keyed", sname, victim, cname), nontrivial=True,
                         sample={"scenario": sname, "victim": victim, "record": cname, "outcome": out["cls"]}
                         if cname.startswith("etm-iv-only") else None)
                ctx.count("keyed:" + out["cls"].split(":")[0])


# ---------------------------------------------------------------------------------------------
# certificates with structurally valid DER but unusual SubjectPublicKeyInfo, in every place a peer's certificate
# is parsed (server Certificate TLS 1.2 / 1.3, client Certificate, CompressedCertificate)
OID_RSA, OID_RSAPSS, OID_EC, OID_DSA = "1.2.840.113549.1.1.1", "1.2.840.113549.1.1.10", "1.2.840.10045.2.1", "1.2.840.10040.4.1"
OID_ED25519, OID_ED448 = "1.3.101.112", "1.3.101.113"
P256, P384, P521 = "1.2.840.10045.3.1.7", "1.3.132.0.34", "1.3.132.0.35"


def spki_variants(rsa_spki, ec_spki):
    """(name, SubjectPublicKeyInfo DER) - the real keys of the test certificates give the honest parts"""
    D = M
    out = []

    def add(name, spki):
        out.append((name, bytes(spki)))
    # --- the real RSA key: modulus and exponent
    alg, bits = D.der_children(D.der_read(rsa_spki)[1])
    rsakey = D.der_children(D.der_read(bits[1][1:])[1])
    n = int.from_bytes(rsakey[0][1], "big")
    e = int.from_bytes(rsakey[1][1], "big")
    rsa_alg = D.der_seq(D.der_oid(OID_RSA), D.DER_NULL)

    def rsa(nn=None, ee=None, raw_n=None, raw_e=None, alg_=rsa_alg, unused=0, extra=b"", inner_tag=0x30):
        ints = (D.der_int(nn, raw_n) if (nn is not None or raw_n is not None) else b"") + \
               (D.der_int(ee, raw_e) if (ee is not None or raw_e is not None) else b"") + extra
        return D.der_seq(alg_, D.der_bits(D.der_enc(inner_tag, ints), unused))
    add("rsa-e-0", rsa(n, 0))
    add("rsa-e-1", rsa(n, 1))
    add("rsa-e-even", rsa(n, 65536))
    add("rsa-e-huge", rsa(n, (1 << 4096) + 1))
    add("rsa-e-negative", rsa(n, raw_e=b"\xff\x01"))
    add("rsa-n-0", rsa(0, e))
    add("rsa-n-0-e-0", rsa(0, 0))
    add("rsa-n-1", rsa(1, e))
    add("rsa-n-tiny", rsa(187, e))
    add("rsa-n-even", rsa(n + 1, e))
    add("rsa-n-negative", rsa(None, e, raw_n=b"\x80" + rsakey[0][1][1:]))
    add("rsa-n-16384-bits", rsa((1 << 16383) | 1, e))
    add("rsa-n-70000-bits", rsa((1 << 69999) | 1, e))
    add("rsa-n-empty-integer", rsa(None, e, raw_n=b""))
    add("rsa-missing-e", rsa(n, None))
    add("rsa-extra-integer", rsa(n, e, extra=D.der_int(5)))
    add("rsa-key-not-sequence", rsa(n, e, inner_tag=0x31))
    add("rsa-bitstring-unused-1", rsa(n, e, unused=1))
    add("rsa-bitstring-unused-255", rsa(n, e, unused=255))
    add("rsa-bitstring-empty", D.der_seq(rsa_alg, D.der_enc(0x03, b"")))
    add("rsa-bitstring-only-unused-byte", D.der_seq(rsa_alg, D.der_enc(0x03, b"\x00")))
    add("rsa-key-is-octet-string", D.der_seq(rsa_alg, D.der_enc(0x04, bits[1])))
    add("rsa-alg-no-params", rsa(n, e, alg_=D.der_seq(D.der_oid(OID_RSA))))
    add("rsa-alg-empty-sequence", rsa(n, e, alg_=D.der_seq()))
    add("rsa-alg-oid-empty", rsa(n, e, alg_=D.der_seq(D.der_enc(0x06, b""), D.DER_NULL)))
    add("rsapss-no-params", rsa(n, e, alg_=D.der_seq(D.der_oid(OID_RSAPSS))))
    add("rsapss-garbage-params", rsa(n, e, alg_=D.der_seq(D.der_oid(OID_RSAPSS), D.der_seq(D.der_int(1), D.der_int(2)))))
    add("unknown-algorithm-oid", rsa(n, e, alg_=D.der_seq(D.der_oid("1.2.3.4.5"), D.DER_NULL)))
    add("spki-empty-sequence", D.der_seq())
    add("spki-only-algorithm", D.der_seq(rsa_alg))
    add("spki-is-integer", D.der_int(5))
    # --- EC: the real point of the P-256 test certificate
    ealg, ebits = D.der_children(D.der_read(ec_spki)[1])
    point = ebits[1][1:]

    def ec(params, pt=point, unused=0):
        return D.der_seq(D.der_seq(D.der_oid(OID_EC), params), D.der_bits(pt, unused))
    add("ec-curve-prime239v1", ec(D.der_oid("1.2.840.10045.3.1.1")))
    add("ec-curve-unknown-oid", ec(D.der_oid("1.2.3.4")))
    add("ec-curve-secp224r1", ec(D.der_oid("1.3.132.0.33"), b"\x04" + b"\x11" * 56))
    add("ec-curve-secp256k1", ec(D.der_oid("1.3.132.0.10")))
    add("ec-curve-p384-with-p256-point", ec(D.der_oid(P384)))
    add("ec-params-null", ec(D.DER_NULL))
    add("ec-params-missing", D.der_seq(D.der_seq(D.der_oid(OID_EC)), D.der_bits(point)))
    add("ec-params-explicit", ec(D.der_seq(D.der_int(1), D.der_seq(D.der_oid("1.2.840.10045.1.1"), D.der_int((1 << 256) - 189)),
                                           D.der_seq(D.der_enc(0x04, b"\x01" * 32), D.der_enc(0x04, b"\x02" * 32)),
                                           D.der_enc(0x04, point), D.der_int((1 << 256) - 1000), D.der_int(1))))
    add("ec-params-integer", ec(D.der_int(7)))
    add("ec-point-empty", ec(D.der_oid(P256), b""))
    add("ec-point-one-byte", ec(D.der_oid(P256), b"\x04"))
    add("ec-point-infinity", ec(D.der_oid(P256), b"\x00"))
    add("ec-point-short", ec(D.der_oid(P256), point[:-1]))
    add("ec-point-long", ec(D.der_oid(P256), point + b"\x00"))
    add("ec-point-not-on-curve", ec(D.der_oid(P256), b"\x04" + b"\x12" * 64))
    add("ec-point-zero", ec(D.der_oid(P256), b"\x04" + b"\x00" * 64))
    add("ec-point-compressed", ec(D.der_oid(P256), b"\x02" + point[1:33]))
    add("ec-point-hybrid", ec(D.der_oid(P256), b"\x06" + point[1:]))
    add("ec-point-unused-bits-3", ec(D.der_oid(P256), point, unused=3))
    add("ec-bitstring-empty", D.der_seq(D.der_seq(D.der_oid(OID_EC), D.der_oid(P256)), D.der_enc(0x03, b"")))
    # --- DSA
    dsa_p, dsa_q, dsa_g = (1 << 1023) | 1, (1 << 159) | 1, 2

    def dsa(params, y):
        return D.der_seq(D.der_seq(D.der_oid(OID_DSA)) if params is None else D.der_seq(D.der_oid(OID_DSA), params),
                         D.der_bits(y))
    add("dsa-params-missing", dsa(None, D.der_int(12345)))
    add("dsa-params-null", dsa(D.DER_NULL, D.der_int(12345)))
    add("dsa-params-two-integers", dsa(D.der_seq(D.der_int(dsa_p), D.der_int(dsa_q)), D.der_int(12345)))
    add("dsa-p-0", dsa(D.der_seq(D.der_int(0), D.der_int(dsa_q), D.der_int(dsa_g)), D.der_int(12345)))
    add("dsa-y-0", dsa(D.der_seq(D.der_int(dsa_p), D.der_int(dsa_q), D.der_int(dsa_g)), D.der_int(0)))
    add("dsa-y-not-integer", dsa(D.der_seq(D.der_int(dsa_p), D.der_int(dsa_q), D.der_int(dsa_g)), D.der_enc(0x04, b"\x01")))
    add("dsa-bitstring-empty", D.der_seq(D.der_seq(D.der_oid(OID_DSA), D.der_seq(D.der_int(dsa_p), D.der_int(dsa_q), D.der_int(dsa_g))),
                                         D.der_enc(0x03, b"")))
    add("dsa-bitstring-unused-1", D.der_seq(D.der_seq(D.der_oid(OID_DSA), D.der_seq(D.der_int(dsa_p), D.der_int(dsa_q), D.der_int(dsa_g))),
                                            D.der_bits(D.der_int(12345), 1)))
    add("dsa-y-empty", dsa(D.der_seq(D.der_int(dsa_p), D.der_int(dsa_q), D.der_int(dsa_g)), b""))
    # --- EdDSA
    for nm, oid_, good in (("ed25519", OID_ED25519, 32), ("ed448", OID_ED448, 57)):
        for ln in (0, 1, good - 1, good + 1, 2 * good):
            add("%s-key-%d-bytes" % (nm, ln), D.der_seq(D.der_seq(D.der_oid(oid_)), D.der_bits(b"\x11" * ln)))
        add("%s-with-null-params" % nm, D.der_seq(D.der_seq(D.der_oid(oid_), D.DER_NULL), D.der_bits(b"\x11" * good)))
        add("%s-unused-bits-7" % nm, D.der_seq(D.der_seq(D.der_oid(oid_)), D.der_bits(b"\x11" * good, 7)))
        add("%s-all-ff" % nm, D.der_seq(D.der_seq(D.der_oid(oid_)), D.der_bits(b"\xff" * good)))
    return out


CERT_TARGETS = [
    # scenario, sender of the certificate, message name
    ("tls12-ecdhe-rsa", "server", "handshake:certificate"),
    ("tls13-nocompress", "server", "handshake:certificate"),
    ("tls13-x25519", "server", "handshake:compressed_certificate"),
    ("tls12-clientauth", "client", "handshake:certificate"),
    ("tls13-clientauth-nocompress", "client", "handshake:certificate"),
    ("tls13-clientauth", "client", "handshake:compressed_certificate"),
    ("tls11-rsa-3des", "server", "handshake:certificate"),      # RSA key exchange: the client encrypts to the key
    ("tls12-ecdsa", "server", "handshake:certificate"),
    ("tls10-clientauth", "client", "handshake:certificate"),
]


def pem_der(path):
    import base64
    import re
    txt = open(path).read()
    return base64.b64decode("".join(re.findall(r"-----BEGIN CERTIFICATE-----(.*?)-----END", txt, re.S)[0].split()))


def certificate_stream(ctx, J, bases, thorough, only=None):
    from . import c08
    rsa_spki = M.cert_get_spki(pem_der(os.path.join(ctx.repo, "tests", "serverX509Cert.pem")))
    ec_spki = M.cert_get_spki(pem_der(os.path.join(ctx.repo, "tests", "serverECCert.pem")))
    variants = spki_variants(rsa_spki, ec_spki)
    targets = CERT_TARGETS if thorough else CERT_TARGETS[:7]
    if only is not None:
        targets = [t for t in CERT_TARGETS if t[0] == only[0] and t[1] == only[1]]
        variants = [v for v in variants if v[0] == only[2]]
    scns = {s.name: s for s in c08.all_scenarios()}
    k = 0
    for sname, side, msgname in targets:
        base = bases.get(sname) if bases else None
        if base is None:
            base = c08.Baseline(scns[sname])
        if not base.ok:
            ctx.count("cert-skipped:" + sname)
            continue
        idx = [i for i, (n, ct, data, _) in enumerate(base.msgs[side]) if n == msgname]
        if not idx:
            ctx.count("cert-skipped-nomsg:" + sname)
            continue
        victim = "server" if side == "client" else "client"
        for vi, (vname, spki) in enumerate(variants):
            close_socket = zlib.crc32((sname + vname).encode()) % 2 == 0
            d = {"op": "cert_spki", "spki": spki.hex(), "label": "certificate", "cls": "cert-spki-" + vname,
                 "pver": list(base.ctxm["version"])}
            L, peak, applied = c08.with_mem_confirm(ctx, victim, lambda: (lambda r: (r[0], r[2], r[1]))(
                c08.run_handshake_case(base.scn, side, idx[0], d, base.ctxm, close_socket=close_socket)))
            if L is None or applied.get("inapplicable"):
                ctx.count("cert-inapplicable:" + sname)
                continue
            replay = {"stage": "cert-spki", "scn": sname, "side": side, "variant": vname, "msg": msgname.split(":")[-1],
                      "cls": "cert-spki-" + vname}
            out = c08.judge(J, L, victim, "certificate with public key %s in %s" % (vname, msgname.split(":")[-1]), replay, peak=peak)
            ctx.case(key=("cert", sname, side, vname), nontrivial=True,
                     sample={"scenario": sname, "victim": victim, "public_key": vname, "outcome": out["cls"]}
                     if vname in ("ec-curve-prime239v1", "rsa-e-0") and sname == "tls12-ecdhe-rsa" else None)
            ctx.count("cert:" + out["cls"].split(":")[0])
        k += 1
