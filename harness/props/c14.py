"""C14 — results do not depend on how the transport chunks, delays or blocks; sync == async.

Theorems: lean/Props/C14.lean over lean/TlsModel/IO.lean (socket = event list; _sockRecvAll,
_sockSendAll, _recvHeader, RecordSocket.recv/send, BufferedSocket, Defragmenter, _getNextRecord,
AsyncStateMachine) + generated TlsModel/Gen/Wrappers.lean (blocking wrappers drive their generator to
exhaustion).

(a) correspondence: the model and the real classes run under the SAME scripted schedule
    (ScriptSock below has exactly the semantics of Tls.IO.Sock); yields, results, residual streams,
    bytes accepted by the socket and buffer states are compared.
(b) direct oracle: whole handshakes + data exchange + close between two live TLSConnections under
    seeded transport schedules vs the unconstrained run with the same (pinned) randomness;
    generators vs blocking API in threads vs AsyncStateMachine.
(c) direct oracle: a record-level on-path re-framer re-cuts / coalesces the plaintext handshake
    flights; the outcome must equal the unmodified run.
"""
import errno
import itertools
import socket

from ..leanclient import hx

TRANSLATORS = ["wrappers"]

MANIFEST = {
    "text": "Proof: in the Lean model of RecordSocket/BufferedSocket/Defragmenter/_getNextRecord/AsyncStateMachine (socket = "
            "arbitrary event list of partial deliveries, would-blocks, EOFs; partial accepts) it is proved for EVERY schedule that "
            "_sockRecvAll returns exactly the next n bytes of the stream and leaves the rest, record reads equal a pure parser of "
            "the byte stream, _sockSendAll hands the socket exactly the data in order, BufferedSocket is transparent in both "
            "directions, the defragmenter delivers the message sequence of the concatenated stream for every re-fragmentation / "
            "coalescing, only 0 is yielded on read waits and only 1 on write waits, and AsyncStateMachine keeps at most one "
            "operation active. Tie: the blocking API bodies are checked (AST -> generated Lean Bool facts, `decide`) to drive "
            "their generator to exhaustion; the hand-written model is checked against the real classes under identical scripted "
            "schedules; whole live handshakes/data/close under seeded schedules, blocking-vs-generator-vs-AsyncStateMachine runs "
            "and record re-framing MITM runs are compared with the unconstrained run under pinned randomness.",
    "note": "Trusted: Lean kernel, the correspondence harness, the in-memory lab. socket.sendall (BufferedSocket.flush) has "
            "blocking semantics: partial-accept schedules apply to send() only (DESIGN 7.8). Record protection is outside this "
            "model (plaintext records at the model level; real ciphers in the live runs). Thread interleavings are those the "
            "OS produces; generator interleavings are seeded.",
    "technique": "Lean 4 proofs over an event-list socket model; generated shape facts; differential correspondence; "
                 "live differential runs under scripted transport schedules",
}

WB = (errno.EWOULDBLOCK, errno.EAGAIN)


# =============================================================================================
# scripted socket with exactly the semantics of Tls.IO.Sock
class ScriptSock(object):
    def __init__(self, stream=b"", rsched=(), ssched=()):
        self.stream = bytearray(stream)
        self.rsched = list(rsched)
        self.ssched = list(ssched)
        self.sent = bytearray()
        self.exhausted = False
        self._flip = 0

    def _wb(self):
        self._flip ^= 1
        return socket.error(WB[self._flip], "would block")

    def recv(self, n):
        if not self.rsched:
            self.exhausted = True
            raise self._wb()
        ev = self.rsched.pop(0)
        if ev == "wb":
            raise self._wb()
        if ev == "err":
            raise socket.error(errno.ECONNRESET, "reset")
        if ev == "eof":
            return b""
        if not self.stream:
            raise self._wb()
        m = min(ev, n)
        out = bytes(self.stream[:m])
        del self.stream[:m]
        return out

    def send(self, data):
        if not self.ssched:
            self.exhausted = True
            raise self._wb()
        ev = self.ssched.pop(0)
        if ev == "wb":
            raise self._wb()
        if ev == "err":
            raise socket.error(errno.EPIPE, "pipe")
        m = min(ev, len(data))
        self.sent += bytes(data[:m])
        return m

    def sendall(self, data):
        self.sent += bytes(data)

    def close(self):
        pass

    def shutdown(self, how):
        pass


def sched_str(evs, prefix):
    if not evs:
        return "-"
    return ",".join(e if isinstance(e, str) else "%s%d" % (prefix, e) for e in evs)


def exc_name(e):
    from tlslite import errors
    if isinstance(e, errors.TLSAbruptCloseError):
        return "abruptClose"
    if isinstance(e, errors.TLSIllegalParameterException):
        return "illegalParameter"
    if isinstance(e, errors.TLSRecordOverflow):
        return "recordOverflow"
    if isinstance(e, errors.TLSLocalAlert):
        return {10: "unexpectedMessage"}.get(e.description, "localAlert%d" % e.description)
    if isinstance(e, socket.error):
        return "socketError"
    if isinstance(e, SyntaxError):
        return "syntaxError"
    if isinstance(e, IndexError):
        return "indexError"
    if isinstance(e, ValueError):
        return "valueError"
    if isinstance(e, KeyError):
        return "keyError"
    if isinstance(e, AssertionError):
        return "AssertionError"
    return "python:" + type(e).__name__


def drive(gen, sock, fmt):
    """run a generator the way its callers do: collect 0/1 yields, stop at the first other value.
    Returns (yields string, result string)."""
    ys = []
    try:
        for r in gen:
            if isinstance(r, int) and r in (0, 1):
                if sock.exhausted:
                    return ys, "pending"
                ys.append(r)
            else:
                return ys, "ok:" + fmt(r)
        return ys, "ok:-"
    except Exception as e:  # noqa: BLE001 - classified
        return ys, "exc:" + exc_name(e)


def ystr(ys):
    return "".join(str(y) for y in ys) if ys else "-"


def hdr_str(h):
    return "%d,%d,%d,%d,%s,%d,%s" % (h.type, h.version[0], h.version[1], h.length,
                                     "true" if h.ssl2 else "false", getattr(h, "padding", 0),
                                     "true" if getattr(h, "securityEscape", False) else "false")


class Pending(object):
    """collect driver lines with the implementation's answer; flush in one batch"""

    def __init__(self, ctx):
        self.ctx = ctx
        self.lines = []
        self.expect = []     # (line index, stream name, case, impl string)

    def add(self, line, stream=None, case=None, impl=None):
        self.lines.append(line)
        if stream is not None:
            self.expect.append((len(self.lines) - 1, stream, case, impl))

    def flush(self):
        lc = self.ctx.lean()
        if lc is None or not self.lines:
            self.lines, self.expect = [], []
            return
        out = lc.batch(self.lines)
        for idx, stream, case, impl in self.expect:
            self.ctx.compared()
            if out[idx] != impl:
                self.ctx.disagree(stream, case, out[idx], impl)
        self.lines, self.expect = [], []


# =============================================================================================
# (a) model vs real RecordSocket / BufferedSocket / Defragmenter / _getNextRecord / AsyncStateMachine
def rand_rsched(rng, total, style=None, faults=True):
    """a receive schedule that (unless cut by a fault) delivers at least `total` bytes"""
    style = style or rng.choice(["all", "one", "rand", "rand", "wbheavy", "two"])
    evs = []
    left = total + rng.choice([0, 0, 1, 5])
    if style == "all":
        evs = [max(1, left)]
    elif style == "one":
        evs = [1] * max(1, left)
    elif style == "two":
        p = rng.randrange(0, left + 1)
        evs = [max(1, p), max(1, left - p)]
    else:
        while left > 0:
            k = rng.choice([1, 1, 2, 3, 4, 5, 7, 16, rng.randrange(1, max(2, left + 2))])
            evs.append(k)
            left -= k
    out = []
    for k in evs:
        nwb = 0
        if style == "wbheavy":
            nwb = rng.randrange(0, 4)
        elif rng.random() < 0.3:
            nwb = rng.randrange(1, 3)
        out.extend(["wb"] * nwb)
        out.append(k)
    if faults and rng.random() < 0.25:
        pos = rng.randrange(0, len(out) + 1)
        out.insert(pos, rng.choice(["eof", "eof", "err", 0]))
    if rng.random() < 0.5:
        out.extend([rng.choice([1, 3, 4096])] * rng.randrange(1, 4))
    return out


def rand_ssched(rng, total, faults=True):
    out = []
    left = total
    style = rng.choice(["all", "one", "rand", "rand"])
    while left > 0:
        if style == "all":
            k = left + rng.choice([0, 3])
        elif style == "one":
            k = 1
        else:
            k = rng.choice([0, 1, 1, 2, 3, 5, rng.randrange(1, left + 2)])
        if rng.random() < 0.3:
            out.extend(["wb"] * rng.randrange(1, 3))
        out.append(k)
        left -= min(k, left)
    out.append(rng.choice([1, 100]))
    if total == 0 and rng.random() < 0.5:
        out = ["wb"] + out
    if faults and rng.random() < 0.15:
        out.insert(rng.randrange(0, len(out) + 1), "err")
    if rng.random() < 0.1:
        out = out[:rng.randrange(0, len(out) + 1)]
    return out


def mk_socks(stream, rs, ss, buffered):
    from tlslite.bufferedsocket import BufferedSocket
    raw = ScriptSock(stream, rs, ss)
    if buffered:
        b = BufferedSocket(raw)
        return raw, b, b
    return raw, None, raw


def upstream(raw, bs):
    return (bytes(bs._read_buffer) if bs is not None else b"") + bytes(raw.stream)


def rb(rng, n):
    return bytes(rng.getrandbits(8) for _ in range(n))


def record3(rng, typ=None, ver=None, body=None, length=None):
    typ = rng.choice([20, 21, 22, 23, 24]) if typ is None else typ
    ver = rng.choice([(3, 0), (3, 1), (3, 3), (3, 4), (0, 0), (2, 0), (255, 255)]) if ver is None else ver
    body = rb(rng, rng.choice([0, 1, 2, 5, 17, 40])) if body is None else body
    length = len(body) if length is None else length
    return bytes([typ, ver[0], ver[1], length >> 8, length & 0xff]) + body


def record2(rng, body=None, padding=None, length=None, first=None):
    body = rb(rng, rng.choice([0, 1, 8, 16, 24, 33])) if body is None else body
    length = len(body) if length is None else length
    if padding is None:
        b0 = 0x80 | (length >> 8)
        if first is not None:
            b0 = first
        return bytes([b0, length & 0xff]) + body
    b0 = (length >> 8) & 0x3f
    if first is not None:
        b0 = first
    return bytes([b0, length & 0xff, padding]) + body


def corr_recordsocket(ctx, P):
    from tlslite.recordlayer import RecordSocket
    rng = ctx.rng
    n_rand = ctx.pick(1500, 8000)

    def run_case(kind, stream, rs, buffered, ops, lim=None, t13=False):
        """ops: list of ('recvall', n) | ('recvhdr',) | ('recordrecv',)"""
        raw, bs, top = mk_socks(stream, rs, [], buffered)
        rsock = RecordSocket(top)
        if lim is not None:
            rsock.recv_record_limit = lim
        rsock.tls13record = t13
        case = {"stage": "a:recordsocket", "kind": kind, "stream": stream.hex(), "rsched": sched_str(rs, "c"),
                "buffered": buffered, "ops": [list(o) for o in ops], "limit": lim, "tls13record": t13}
        P.add("sock %s %s - %d" % (hx(stream), sched_str(rs, "c"), 1 if buffered else 0))
        for op in ops:
            if raw.exhausted:
                break
            before = upstream(raw, bs)
            if op[0] == "recvall":
                ys, res = drive(rsock._sockRecvAll(op[1]), raw, lambda r: hx(bytes(r)))
                line = "recvall %d" % op[1]
            elif op[0] == "recvhdr":
                ys, res = drive(rsock._recvHeader(), raw, hdr_str)
                line = "recvhdr"
            else:
                ys, res = drive(rsock.recv(), raw, lambda r: hdr_str(r[0]) + "/" + hx(bytes(r[1])))
                line = "recordrecv %d %d" % (rsock.recv_record_limit, 1 if t13 else 0)
            after = upstream(raw, bs)
            impl = "y=%s r=%s up=%s" % (ystr(ys), res, hx(after))
            P.add(line, "recordsocket:" + op[0], dict(case, op=list(op)), impl)
            ctx.count("a:%s:%s" % (op[0], res.split(":")[0] if not res.startswith("exc") else res))
            # direct oracles on the real class (independent of the model)
            if any(y != 0 for y in ys):
                ctx.violation("c14:yield-protocol-read", "a read generator yielded something other than 0 while waiting",
                              dict(case, op=list(op), yields=ys))
            if op[0] == "recvall" and res.startswith("ok:"):
                if res != "ok:" + hx(before[:op[1]]) or after != before[op[1]:]:
                    ctx.violation("c14:recvall-wrong-bytes", "_sockRecvAll(%d) returned %s with %s left, stream was %s"
                                  % (op[1], res[3:], after.hex(), before.hex()), dict(case, op=list(op), got=res, left=after.hex()))
            if op[0] == "recordrecv" and res.startswith("ok:") and before[:1] and before[0] in (20, 21, 22, 23, 24):
                ln = (before[3] << 8) | before[4]
                want = "ok:%d,%d,%d,%d,false,0,false/%s" % (before[0], before[1], before[2], ln, hx(before[5:5 + ln]))
                if res != want or after != before[5 + ln:]:
                    ctx.violation("c14:record-wrong-bytes", "RecordSocket.recv returned %s, the stream holds %s" % (res, want),
                                  dict(case, op=list(op), got=res, want=want, left=after.hex()))
            if not res.startswith("ok"):
                break
        ctx.case(key=("a", kind, stream, tuple(rs), buffered, tuple(ops), lim, t13), sample=None)

    # _sockRecvAll on random streams
    for _ in range(n_rand):
        stream = rb(rng, rng.choice([0, 1, 2, 5, 9, 30]))
        ops = []
        tot = 0
        for _ in range(rng.randrange(1, 4)):
            n = rng.choice([0, 1, 2, 3, 5, 8, len(stream), len(stream) + 1])
            ops.append(("recvall", n))
            tot += n
        run_case("recvall-random", stream, rand_rsched(rng, tot), rng.random() < 0.5, ops)

    # exhaustive small: every two/three-chunk split with 0..2 would-blocks in between, every EOF position
    data = bytes(range(1, 8))
    for n in range(1, 8):
        for p in range(1, n):
            for nwb in (0, 1, 2):
                for buffered in (False, True):
                    run_case("recvall-split", data, [p] + ["wb"] * nwb + [n - p], buffered, [("recvall", n)])
        for p in range(0, n):
            for buffered in (False, True):
                run_case("recvall-eof", data, ([p] if p else []) + ["eof"], buffered, [("recvall", n)])

    # records: good SSLv3 / SSLv2, malformed headers, oversized lengths, successive reads
    def some_stream():
        recs = []
        for _ in range(rng.randrange(1, 4)):
            c = rng.random()
            if c < 0.55:
                recs.append(record3(rng))
            elif c < 0.7:
                recs.append(record2(rng))
            elif c < 0.8:
                body = rb(rng, rng.choice([8, 16, 24]))
                recs.append(record2(rng, body=body, padding=rng.choice([0, 1, 7, 8, len(body), len(body) + 1, 255])))
            elif c < 0.9:
                body = rb(rng, rng.choice([3, 9, 12]))
                recs.append(record2(rng, body=body, padding=rng.choice([1, 3, 200]), first=rng.choice([0x00, 0x40, 0x3f])))
            else:
                recs.append(rb(rng, rng.randrange(1, 9)))
        return b"".join(recs), len(recs)

    for _ in range(n_rand):
        stream, nrec = some_stream()
        ops = [("recordrecv",)] * (nrec + 1) if rng.random() < 0.8 else [("recvhdr",)]
        run_case("records-random", stream, rand_rsched(rng, len(stream)), rng.random() < 0.5, ops)

    # header split at every position x EOF at every byte position, both header kinds
    samples = [record3(rng, typ=22, ver=(3, 3), body=b"\x01\x02\x03"), record2(rng, body=b"\xaa\xbb"),
               record2(rng, body=b"\x01" * 8, padding=8)]
    for s in samples:
        L = len(s)
        for p in range(1, L):
            for nwb in (0, 1):
                for buffered in (False, True):
                    run_case("record-split", s, [p] + ["wb"] * nwb + [L - p], buffered, [("recordrecv",)])
                    run_case("record-split-1+4", s, [1] + ["wb"] * nwb + [4] + [L], buffered, [("recordrecv",)])
        for p in range(0, L + 1):
            for style in ("all", "one"):
                for buffered in (False, True):
                    pre = ([p] if style == "all" else [1] * p) if p else []
                    run_case("record-eof", s, pre + ["eof"], buffered, [("recordrecv",)])
                    run_case("record-err", s, pre + ["err"], buffered, [("recordrecv",)])

    # length caps (small limit so that the bodies stay small)
    for lim in (0, 16, 64):
        for t13 in (False, True):
            for ln in sorted(set([0, 1, lim, lim + 255, lim + 256, lim + 257, lim + 2047, lim + 2048, lim + 2049, 65535])):
                body = rb(rng, min(ln, lim + 2049))
                s = record3(rng, typ=23, ver=(3, 3), body=body, length=ln)
                for buffered in (False, True):
                    run_case("record-cap", s, rand_rsched(rng, len(s), faults=False), buffered, [("recordrecv",)], lim, t13)
    # default limit boundary
    for ln in (16384 + 2048, 16384 + 2049, 16384 + 256, 16384 + 257):
        for t13 in (False, True):
            s = record3(rng, typ=23, ver=(3, 3), body=b"", length=ln)
            run_case("record-cap-default", s, [5, 100], False, [("recvhdr",), ("recvall", 0)])
            run_case("record-cap-default", s, [3, 2, 1], True, [("recordrecv",)], None, t13)
    P.flush()


def corr_send(ctx, P):
    from tlslite.recordlayer import RecordSocket
    from tlslite.messages import Message
    rng = ctx.rng
    for _ in range(ctx.pick(1000, 6000)):
        buffered = rng.random() < 0.5
        ops = []
        for _ in range(rng.randrange(1, 5)):
            c = rng.random()
            if c < 0.45:
                ops.append(("sendall", rb(rng, rng.choice([0, 1, 2, 5, 12, 30]))))
            elif c < 0.75:
                ver = rng.choice([(3, 3), (3, 1), (3, 4), (2, 0), (0, 2)])
                ln = rng.choice([0, 1, 7, 20])
                ops.append(("recordsend", ver, rng.choice([20, 21, 22, 23, 24, 255, 256]), rb(rng, ln), rng.choice([0, 0, 3, 255])))
            elif buffered and c < 0.85:
                ops.append(("bufw", rng.random() < 0.6))
            elif buffered:
                ops.append(("bflush",))
        total = sum(len(o[1]) if o[0] == "sendall" else (len(o[3]) + 5 if o[0] == "recordsend" else 0) for o in ops)
        ss = rand_ssched(rng, total)
        raw, bs, top = mk_socks(b"", [], ss, buffered)
        rsock = RecordSocket(top)
        case = {"stage": "a:send", "ssched": sched_str(ss, "a"), "buffered": buffered,
                "ops": [[o[0]] + [x.hex() if isinstance(x, bytes) else x for x in o[1:]] for o in ops]}
        P.add("sock - - %s %d" % (sched_str(ss, "a"), 1 if buffered else 0))
        for op in ops:
            if raw.exhausted:
                break
            if op[0] == "sendall":
                sent0 = bytes(raw.sent)
                q0 = b"".join(bytes(x) for x in bs._write_queue) if bs is not None else b""
                ys, res = drive(rsock._sockSendAll(bytearray(op[1])), raw, lambda r: "-")
                P.add("sendall %s" % hx(op[1]), "send:sockSendAll", dict(case, op=op[0]),
                      "y=%s r=%s sent=%s" % (ystr(ys), res, hx(raw.sent)))
                q1 = b"".join(bytes(x) for x in bs._write_queue) if bs is not None else b""
                acc = bytes(raw.sent)[len(sent0):] + q1[len(q0):]
                if any(y != 1 for y in ys):
                    ctx.violation("c14:yield-protocol-write", "_sockSendAll yielded something other than 1 while waiting",
                                  dict(case, op=op[0], yields=ys))
                if (res.startswith("ok") and acc != op[1]) or not op[1].startswith(acc) or bytes(raw.sent)[:len(sent0)] != sent0:
                    ctx.violation("c14:sendall-wrong-bytes", "_sockSendAll(%s): the socket accepted %s (result %s)"
                                  % (op[1].hex(), acc.hex(), res), dict(case, op=op[0], data=op[1].hex(), accepted=acc.hex(), result=res))
            elif op[0] == "recordsend":
                rsock.version = op[1]
                ys, res = drive(rsock.send(Message(op[2], bytearray(op[3])), op[4]), raw, lambda r: "-")
                P.add("recordsend %d %d %d %s %d" % (op[1][0], op[1][1], op[2], hx(op[3]), op[4]),
                      "send:RecordSocket.send", dict(case, op=op[0]),
                      "y=%s r=%s sent=%s" % (ystr(ys), res, hx(raw.sent)))
            elif op[0] == "bufw":
                bs.buffer_writes = op[1]
                P.add("bufw %d" % (1 if op[1] else 0))
                continue
            else:
                bs.flush()
                P.add("bflush")
                continue
            ctx.count("a:send:" + res)
            if not res.startswith("ok"):
                break
        q = ",".join(hx(bytes(x)) for x in bs._write_queue) if bs is not None else ""
        P.add("sent", "send:final", case, "sent=%s queue=%s" % (hx(raw.sent), q))
        ctx.case(key=("send", tuple(map(str, ops)), tuple(ss), buffered), sample=None)
    P.flush()


def corr_bufferedsocket(ctx, P):
    from tlslite.bufferedsocket import BufferedSocket
    rng = ctx.rng
    for _ in range(ctx.pick(800, 5000)):
        stream = rb(rng, rng.choice([0, 3, 10, 50, 5000]))
        rs = rand_rsched(rng, len(stream))
        if len(stream) > 100:
            rs = [rng.choice([1, 100, 4095, 4096, 4097, 5000]) for _ in range(rng.randrange(1, 5))] + rs
        ss = rand_ssched(rng, 40)
        raw = ScriptSock(stream, rs, ss)
        bs = BufferedSocket(raw)
        case = {"stage": "a:bufferedsocket", "stream": stream.hex() if len(stream) < 100 else "len%d" % len(stream),
                "rsched": sched_str(rs, "c"), "ssched": sched_str(ss, "a"), "ops": []}
        P.add("sock %s %s %s 1" % (hx(stream), sched_str(rs, "c"), sched_str(ss, "a")))
        got = bytearray()
        spec_sent, spec_queue, spec_buf = bytearray(), [], False      # plain reading of the class contract
        for _ in range(rng.randrange(1, 12)):
            if raw.exhausted:
                break
            c = rng.random()
            if c < 0.5:
                n = rng.choice([1, 2, 3, 5, 64, 4096, 5000, 10000])
                case["ops"].append(["brecv", n])
                try:
                    r = bs.recv(n)
                    got += r
                    impl = "data:" + hx(bytes(r))
                except socket.error as e:
                    impl = "exhausted" if raw.exhausted else ("wouldblock" if e.args[0] in WB else "error")
                impl += " buf=%s up=%s" % (hx(bytes(bs._read_buffer)), hx(upstream(raw, bs)))
                P.add("brecv %d" % n, "bufferedsocket:recv", dict(case), impl)
            elif c < 0.7:
                d = rb(rng, rng.choice([0, 1, 4, 9]))
                case["ops"].append(["bsend", d.hex()])
                try:
                    k = bs.send(bytearray(d))
                    impl = "sent:%d" % k
                    if spec_buf:
                        spec_queue.append(d)
                    else:
                        spec_sent += d[:k]
                except socket.error as e:
                    impl = "exhausted" if raw.exhausted else ("wouldblock" if e.args[0] in WB else "error")
                P.add("bsend %s" % hx(d), "bufferedsocket:send", dict(case), impl)
            elif c < 0.8:
                d = rb(rng, rng.choice([0, 1, 4, 9]))
                case["ops"].append(["bsendall", d.hex()])
                bs.sendall(bytearray(d))
                P.add("bsendall %s" % hx(d))
                if spec_buf:
                    spec_queue.append(d)
                else:
                    spec_sent += d
            elif c < 0.9:
                v = rng.random() < 0.6
                case["ops"].append(["bufw", v])
                bs.buffer_writes = v
                spec_buf = v
                P.add("bufw %d" % (1 if v else 0))
            else:
                case["ops"].append(["bflush"])
                bs.flush()
                spec_sent += b"".join(spec_queue)
                spec_queue = []
                P.add("bflush")
        q = ",".join(hx(bytes(x)) for x in bs._write_queue)
        P.add("sent", "bufferedsocket:final", dict(case), "sent=%s queue=%s" % (hx(raw.sent), q))
        if bytes(raw.sent) != bytes(spec_sent) or [bytes(x) for x in bs._write_queue] != spec_queue:
            ctx.violation("c14:bufferedsocket-write-order",
                          "BufferedSocket handed the socket %s (queue %s); the writes were %s (held: %s)"
                          % (bytes(raw.sent).hex(), q, bytes(spec_sent).hex(), ",".join(x.hex() for x in spec_queue)),
                          dict(case, stage="a:bufferedsocket", sent=bytes(raw.sent).hex(), want=bytes(spec_sent).hex()))
        # direct oracle: what came out above ++ what is still below/buffered == the stream
        if bytes(got) + upstream(raw, bs) != stream:
            ctx.violation("c14:bufferedsocket-read-stream", "BufferedSocket.recv lost, duplicated or reordered bytes",
                          dict(case, stage="a:bufferedsocket", stream=stream.hex(), got=bytes(got).hex(), rest=upstream(raw, bs).hex()))
        ctx.case(key=("bs", stream[:64], tuple(rs), tuple(map(str, case["ops"]))), sample=None)
    P.flush()


def hs_msg(rng, typ=None, n=None):
    typ = rng.choice([0, 1, 2, 11, 12, 14, 16, 20]) if typ is None else typ
    n = rng.choice([0, 0, 1, 3, 10, 40]) if n is None else n
    return bytes([typ, (n >> 16) & 0xff, (n >> 8) & 0xff, n & 0xff]) + rb(rng, n)


def cut(rng, data, style=None):
    """cut a byte string into non-empty pieces"""
    if not data:
        return []
    style = style or rng.choice(["one", "whole", "rand", "rand", "two"])
    if style == "whole":
        return [data]
    if style == "one":
        return [data[i:i + 1] for i in range(len(data))]
    if style == "two":
        p = rng.randrange(1, len(data)) if len(data) > 1 else 1
        return [x for x in (data[:p], data[p:]) if x]
    out = []
    i = 0
    while i < len(data):
        k = rng.choice([1, 1, 2, 3, 4, 5, 8, rng.randrange(1, len(data) + 1)])
        out.append(data[i:i + k])
        i += k
    return out


def corr_defragmenter(ctx, P):
    from tlslite.defragmenter import Defragmenter
    rng = ctx.rng

    def bufs(d):
        return ",".join("%d=%s" % (k, hx(bytes(v))) for k, v in d.buffers.items())

    # random configurations and op sequences
    for _ in range(ctx.pick(600, 4000)):
        d = Defragmenter()
        P.add("dnew")
        case = {"stage": "a:defragmenter", "ops": []}
        types = []
        for _ in range(rng.randrange(1, 5)):
            t = rng.choice([20, 21, 22, 23, 5])
            if rng.random() < 0.5:
                a = ("dstatic", t, rng.choice([0, 1, 2, 3, 5]))
                f = lambda: d.add_static_size(a[1], a[2])   # noqa: E731
            else:
                a = ("ddynamic", t, rng.choice([0, 1, 2]), rng.choice([0, 1, 2, 3]))
                f = lambda: d.add_dynamic_size(a[1], a[2], a[3])   # noqa: E731
            try:
                f()
                impl = "ok"
                types.append(t)
            except Exception as e:  # noqa: BLE001
                impl = "exc:" + exc_name(e)
            case["ops"].append(list(a))
            P.add(" ".join(str(x) for x in a), "defragmenter:define", dict(case), impl)
        for _ in range(rng.randrange(1, 25)):
            c = rng.random()
            if c < 0.45:
                t = rng.choice(types + [99]) if types else 99
                data = rb(rng, rng.choice([0, 1, 1, 2, 3, 4, 7]))
                if rng.random() < 0.5:
                    data = bytes(b & 0x03 for b in data)     # small length fields
                case["ops"].append(["dadd", t, data.hex()])
                try:
                    d.add_data(t, bytearray(data))
                    impl = "ok"
                except Exception as e:  # noqa: BLE001
                    impl = "exc:" + exc_name(e)
                P.add("dadd %d %s" % (t, hx(data)), "defragmenter:add_data", dict(case), impl)
            elif c < 0.85:
                case["ops"].append(["dget"])
                try:
                    r = d.get_message()
                    impl = ("none" if r is None else "msg:%d:%s" % (r[0], hx(bytes(r[1])))) + " bufs=" + bufs(d)
                except Exception as e:  # noqa: BLE001
                    impl = "exc:" + exc_name(e)
                P.add("dget", "defragmenter:get_message", dict(case), impl)
            elif c < 0.95:
                case["ops"].append(["dempty"])
                P.add("dempty", "defragmenter:is_empty", dict(case), "true" if d.is_empty() else "false")
            else:
                case["ops"].append(["dclear"])
                d.clear_buffers()
                P.add("dclear")
        ctx.case(key=("defrag", str(case["ops"])), sample=None)
    P.flush()


def corr_getnextrecord(ctx, P):
    """fresh TLSConnection (null cipher) reading plaintext records through BufferedSocket ->
    RecordSocket -> RecordLayer -> _getNextRecordFromSocket -> Defragmenter, under a schedule"""
    from tlslite.tlsconnection import TLSConnection
    rng = ctx.rng
    for it in range(ctx.pick(1000, 6000)):
        tls13 = rng.random() < 0.3
        # message streams per content type, cut into records, interleaved at record granularity
        hs = b"".join(hs_msg(rng) for _ in range(rng.randrange(0, 5)))
        if rng.random() < 0.3:
            hs += hs_msg(rng)[:rng.randrange(1, 4)]          # incomplete tail
        pieces = [(22, p) for p in cut(rng, hs)]
        extra = []
        for _ in range(rng.randrange(0, 3)):
            t = rng.choice([20, 21, 23, 23, 24])
            if t == 21:
                extra.append([(21, p) for p in cut(rng, rb(rng, 2), rng.choice(["whole", "one"]))])
            elif t == 20:
                extra.append([(20, b"\x01")])
            else:
                extra.append([(t, rb(rng, rng.choice([0, 1, 5])) if t == 23 else rb(rng, rng.choice([1, 5])))])
        recs = list(pieces)
        for group in extra:
            pos = rng.randrange(0, len(recs) + 1)
            for g in group:
                recs.insert(pos, g)
                pos = rng.randrange(pos + 1, len(recs) + 1)
        if rng.random() < 0.08:
            recs.insert(rng.randrange(0, len(recs) + 1), (rng.choice([20, 21, 22, 24]), b""))   # zero-length
        if not recs:
            hs = hs_msg(rng)
            recs = [(22, hs)]
        stream = b"".join(bytes([t, 3, 3, len(b) >> 8, len(b) & 0xff]) + b for t, b in recs)
        rs = rand_rsched(rng, len(stream), faults=False)
        raw = ScriptSock(stream, rs, [100000] * 4)
        conn = TLSConnection(raw)
        if tls13:
            conn.version = (3, 4)
        outs = []
        exc = "none"
        while not raw.exhausted:
            if len(outs) > len(stream) + 8:
                exc = "endless"           # the same message is handed out again and again
                break
            ys, res = drive(conn._getNextRecord(), raw,
                            lambda r: "%s%d:%s" % ("r" if r[0].type in (23, 24) or r[0].ssl2 or (tls13 and r[0].type == 20) else "m",
                                                   r[0].type, ("%d:" % (1 if r[0].ssl2 else 0) if (r[0].type in (23, 24) or r[0].ssl2 or (tls13 and r[0].type == 20)) else "") + hx(bytes(r[1].bytes))))
            if res.startswith("ok:"):
                outs.append(res[3:])
            elif res.startswith("exc:"):
                exc = res[4:]
                break
            else:
                break
        bufs = ",".join("%d=%s" % (k, hx(bytes(v))) for k, v in conn._defragmenter.buffers.items())
        impl = "out=%s exc=%s bufs=%s" % (";".join(outs) if outs else "-", exc, bufs if exc == "none" else "?")
        case = {"stage": "a:getnextrecord", "tls13": tls13, "records": [[t, b.hex()] for t, b in recs],
                "rsched": sched_str(rs, "c")}
        # the model reads the records that were completely delivered before the schedule ran out
        delivered = len(stream) - len(upstream(raw, conn.sock))
        nrec, acc = 0, 0
        for t, b in recs:
            if acc + 5 + len(b) <= delivered:
                acc += 5 + len(b)
                nrec += 1
        mrecs = recs[:nrec]
        P.add("dtls")
        P.add("getall %d %s" % (1 if tls13 else 0, ";".join("%d:0:%s" % (t, hx(b)) for t, b in mrecs) if mrecs else "-"),
              "getnextrecord", case, impl)
        ctx.count("a:getnextrecord:" + exc)
        ctx.case(key=("gnr", stream, tuple(rs), tls13), sample=case if it == 3 else None)
        # direct oracle (independent of the model): per content type, the messages delivered are the
        # messages of that type's byte stream (handshake: type+24-bit length framing, alert: 2 bytes,
        # ChangeCipherSpec: 1 byte), however the stream was cut into records
        if exc == "endless":
            ctx.violation("c14:defrag-endless", "_getNextRecord hands out the same message again and again",
                          dict(case, got=outs[:6]))
        if exc == "none" and nrec == len(recs):
            want = {20: [], 21: [], 22: []}
            i = 0
            while i + 4 <= len(hs):
                n = int.from_bytes(hs[i + 1:i + 4], "big")
                if i + 4 + n > len(hs):
                    break
                want[22].append("m22:" + hx(hs[i:i + 4 + n]))
                i += 4 + n
            al = b"".join(b for t, b in recs if t == 21)
            want[21] = ["m21:" + hx(al[j:j + 2]) for j in range(0, len(al) - 1, 2)]
            cc = b"".join(b for t, b in recs if t == 20)
            want[20] = ["m20:" + hx(cc[j:j + 1]) for j in range(len(cc))]
            for t in (22, 21) + (() if tls13 else (20,)):
                got_t = [o for o in outs if o.startswith("m%d:" % t)]
                if got_t != want[t]:
                    ctx.violation("c14:defrag-message-sequence",
                                  "messages of content type %d delivered by _getNextRecord differ from the messages of the "
                                  "byte stream" % t, dict(case, content_type=t, got=got_t, want=want[t]))
    P.flush()


def corr_asm(ctx, P):
    from tlslite.integration.asyncstatemachine import AsyncStateMachine
    rng = ctx.rng

    class FakeSock(object):
        def __init__(self, conn):
            self.conn = conn

        @property
        def _read_buffer(self):
            # "something was read ahead" while scripted extra reads remain
            return b"x" if self.conn.pending else b""

    class FakeConn(object):
        closed = False

        def __init__(self, script):
            self.script = script
            self.pending = []          # what the extra reads of the read-ahead drain loop will do
            self.sock = FakeSock(self)

        def _next(self):
            if self.script:
                return self.script.pop(0)
            return self.pending.pop(0)

        def _gen(self):
            while True:
                g = self._next()
                if g == "stop":
                    return
                if g == "raise":
                    raise RuntimeError("scripted")
                yield g

        def readAsync(self, n=None):
            return self._gen()

        def closeAsync(self):
            return self._gen()

        def writeAsync(self, b):
            return self._gen()

    class M(AsyncStateMachine):
        def __init__(self, script):
            AsyncStateMachine.__init__(self)
            self.tlsConnection = FakeConn(script)
            self.evs = []
            self.cb_states = []
            self.reenter = None
            self.nested = None

        def _cb(self, name):
            self.evs.append(name)
            self.cb_states.append(st(self))
            if self.reenter is not None:
                op2, g2 = self.reenter
                self.reenter = None
                del self.tlsConnection.script[:]
                self.tlsConnection.script.append(g2)
                outer, self.evs, self.cb_states = (self.evs, self.cb_states), [], []
                try:
                    if op2 == "setWrite":
                        self.setWriteOp(b"x")
                    elif op2 == "setClose":
                        self.setCloseOp()
                    else:
                        self.setHandshakeOp(self.tlsConnection._gen())
                    res2 = "ok" + "".join(self.evs)
                except AssertionError:
                    res2 = "AssertionError"
                    raise
                except (RuntimeError, StopIteration):
                    res2 = "raised"
                    raise
                finally:
                    self.nested = (res2, list(self.cb_states))
                    self.evs, self.cb_states = outer

        def outConnectEvent(self):
            self._cb("+connect")

        def outCloseEvent(self):
            self._cb("+close")

        def outReadEvent(self, b):
            self._cb("+read")

        def outWriteEvent(self):
            self._cb("+write")

    def st(m):
        r = m.result
        return "%d%d%d%d/%s" % (bool(m.handshaker), bool(m.closer), bool(m.reader), bool(m.writer),
                                "N" if r is None else str(r))

    def optb(v):
        return "none" if v is None else ("some true" if v else "some false")

    ops = ["inRead", "inWrite", "setHandshake", "setClose", "setWrite"]
    gens = [0, 0, 1, 1, 5, "stop", "raise"]
    seqs = []
    # exhaustive: every (state reachable by one op) x op x gen, plus random walks
    for o1 in ops:
        for g1 in [0, 1, 5, "stop", "raise"]:
            for o2 in ops:
                for g2 in [0, 1, 5, "stop", "raise"]:
                    seqs.append([(o1, g1), (o2, g2), ("inRead", 0), ("setWrite", 1)])
    for _ in range(ctx.pick(500, 4000)):
        seqs.append([(rng.choice(ops), rng.choice(gens)) for _ in range(rng.randrange(1, 12))])
    for seq in seqs:
        script = []
        m = M(script)
        P.add("asmnew")
        case = {"stage": "a:asm", "seq": [[o, str(g)] for o, g in seq]}
        for (op, g) in seq:
            del script[:]
            script.append(g)
            m.evs = []
            m.cb_states = []
            m.nested = None
            nest = None
            if rng.random() < 0.35:
                nest = (rng.choice(["setWrite", "setWrite", "setClose", "setHandshake"]), rng.choice([0, 1, 1, 5, "stop", "raise"]))
            m.reenter = nest
            pend = []
            if op in ("inRead", "inWrite") and nest is None and rng.random() < 0.4:
                pend = [rng.choice([5, 5, 6, 0, 1, "stop", "raise"]) for _ in range(rng.randrange(1, 4))]
            m.tlsConnection.pending = list(pend)
            prev_active = any((m.handshaker, m.closer, m.reader, m.writer))
            try:
                if op == "inRead":
                    m.inReadEvent()
                elif op == "inWrite":
                    m.inWriteEvent()
                elif op == "setHandshake":
                    m.setHandshakeOp(m.tlsConnection._gen())
                elif op == "setClose":
                    m.setCloseOp()
                else:
                    m.setWriteOp(b"x")
                res = "ok" + "".join(m.evs)
            except AssertionError:
                res = "AssertionError"
            except (RuntimeError, StopIteration):
                res = "raised"
            gs = g if isinstance(g, str) else "y%d" % g
            # direct oracle: a callback is entered with no operation active (so that it can start the next one)
            for cs in m.cb_states + (m.nested[1] if m.nested else []):
                if cs != "0000/N":
                    ctx.violation("c14:asm-callback-entered-with-active-op",
                                  "AsyncStateMachine.%s with generator step %s: a callback ran while the machine was in state %s"
                                  % (op, gs, cs), dict(case, at=[op, gs], callback_state=cs))
            if m.nested is None and pend:
                impl = "%s %s wr=%s ww=%s" % (st(m), res, optb(m.wantsReadEvent()), optb(m.wantsWriteEvent()))
                ps = ",".join(x if isinstance(x, str) else "y%d" % x for x in pend)
                P.add("asmdrain %s %s %s" % (op, gs, ps), "asyncstatemachine:read-ahead-drain", dict(case, at=[op, gs], pending=ps), impl)
                m.tlsConnection.pending = []
            elif m.nested is None:
                impl = "%s %s wr=%s ww=%s%s" % (st(m), res, optb(m.wantsReadEvent()), optb(m.wantsWriteEvent()),
                                              (" cb=" + m.cb_states[-1]) if m.cb_states else "")
                P.add("asm %s %s" % (op, gs), "asyncstatemachine", dict(case, at=[op, gs]), impl)
            else:
                # the callback started the next operation: in the model that is the next transition
                res2, cbs2 = m.nested
                op2, g2 = nest
                gs2 = g2 if isinstance(g2, str) else "y%d" % g2
                P.add("asm %s %s" % (op, gs))
                impl = "%s %s wr=%s ww=%s%s" % (st(m), res2, optb(m.wantsReadEvent()), optb(m.wantsWriteEvent()),
                                              (" cb=" + cbs2[-1]) if cbs2 else "")
                P.add("asm %s %s" % (op2, gs2), "asyncstatemachine:reentrant", dict(case, at=[op, gs], nested=[op2, gs2]), impl)
                if res2 == "AssertionError":
                    ctx.violation("c14:asm-reentrant-op-refused",
                                  "%s started from inside the callback of %s (generator step %s) raised AssertionError; "
                                  "the same two operations issued one after the other are accepted"
                                  % (op2, op, gs), dict(case, at=[op, gs], nested=[op2, gs2]))
            ctx.count("a:asm:" + res.split("+")[0])
            # direct oracle: an operation that yielded 0/1 is still the active operation, waiting for that event
            if res.startswith("ok") and g in (0, 1) and (op in ("setHandshake", "setClose", "setWrite") or prev_active or op == "inRead"):
                act = sum(bool(x) for x in (m.handshaker, m.closer, m.reader, m.writer))
                if act != 1 or m.result != g:
                    ctx.violation("c14:asm-drops-unfinished-op",
                                  "AsyncStateMachine.%s: the generator yielded %d (still waiting) but the machine shows state %s"
                                  % (op, g, st(m)), dict(case, at=[op, gs], state=st(m)))
            # direct oracle: never more than one operation slot occupied
            if sum(bool(x) for x in (m.handshaker, m.closer, m.reader, m.writer)) > 1:
                ctx.violation("c14:asm-two-active-ops", "AsyncStateMachine holds two active operations after " + op,
                              dict(case, at=[op, gs], state=st(m)))
        ctx.case(key=("asm", str(seq)), sample=None)
    P.flush()


def check_wrappers(ctx):
    """the generated facts as seen by the driver (the `decide` obligation is in Props/C14.lean)"""
    lc = ctx.lean()
    if lc is None:
        return
    r = lc.batch(["wrappers"])[0]
    ctx.extra["blocking_wrapper_shapes"] = r
    bad = [x for x in r.split(",") if not x.endswith("=true")]
    for b in bad:
        ctx.count("wrapper-shape-false:" + b)


# =============================================================================================
# (b)/(c) live differential runs
class Pin(object):
    """deterministic per-endpoint os.urandom (python-ecdsa and tlslite both call os.urandom at use
    time) and a frozen clock inside tlslite, so that two runs of the same scenario are comparable
    byte for byte.  The endpoint is the one being stepped (generator runs) or the thread name."""
    FIXED_TIME = 1790000000.0

    def __init__(self, seed):
        self.seed = seed
        self.cur = None
        self.ctr = {}
        self._saved = []

    def reset(self):
        self.ctr = {}
        self.cur = None
        # cached private keys carry RSA blinding state from earlier conversations (the first private
        # operation draws the blinding factor); start every conversation from the same key state
        from harness import lab
        for chain, key in lab._CREDS.values():
            if hasattr(key, "blinder"):
                key.blinder = 0
                key.unblinder = 0

    def urandom(self, n):
        import hashlib
        import threading
        name = threading.current_thread().name
        who = name[4:] if name.startswith("c14-") else self.cur
        if who is None:
            return self._real(n)
        c = self.ctr.get(who, 0)
        self.ctr[who] = c + 1
        return hashlib.shake_256(("%d|%s|%d" % (self.seed, who, c)).encode()).digest(n)

    def __enter__(self):
        import os
        import types
        import time as _time
        self._real = os.urandom
        os.urandom = self.urandom
        fake = types.SimpleNamespace(**{k: getattr(_time, k) for k in dir(_time) if not k.startswith("__")})
        fake.time = lambda: Pin.FIXED_TIME
        import tlslite.tlsconnection as m1
        import tlslite.tlsrecordlayer as m2
        import tlslite.session as m3
        import tlslite.sessioncache as m4
        for m in (m1, m2, m3, m4):
            if hasattr(m, "time"):
                self._saved.append((m, m.time))
                m.time = fake
        return self

    def __exit__(self, *a):
        import os
        os.urandom = self._real
        for m, t in self._saved:
            m.time = t
        self._saved = []


def sched_iter(style, seed, kind):
    """infinite transport schedule for MemSock (ints = max bytes of this call, 'wb' = one EWOULDBLOCK)"""
    import random
    rng = random.Random("%s|%s|%s" % (style, seed, kind))
    if style == "none":
        return None

    def gen():
        while True:
            if style == "one":
                yield 1
            elif style == "rand":
                yield rng.choice([1, 1, 2, 3, 5, 8, 13, 64, 200, 1000, 5000])
            elif style == "wb1":
                yield "wb"
                yield rng.choice([1, 4, 16, 100, 100000])
            elif style == "wbk":
                for _ in range(rng.randrange(0, 4)):
                    yield "wb"
                yield rng.choice([1, 2, 3, 7, 50, 100000])
            elif style == "mid":
                yield rng.choice([5, 16, 100, 4096, 100000])
            else:
                raise ValueError(style)
    return gen()


SCHED_STYLES = ["one", "rand", "wb1", "wbk", "mid"]


def apply_schedule(L, spec):
    """spec: {'client': (recv_style, send_style), 'server': (...), 'seed': n}"""
    for who in ("client", "server"):
        rs, ss = spec.get(who, ("none", "none"))
        sock = L.end(who).sock
        sock.recv_schedule = sched_iter(rs, spec["seed"], who + "r")
        sock.send_schedule = sched_iter(ss, spec["seed"], who + "s")


MAX_WIRE = 4 << 20     # a conversation never needs more; a resend loop is cut here


def run_gens(L, pin, rng=None, only=None, max_steps=600000):
    """like Lab.run, with the stepping order / burst length drawn from rng (generator interleaving)"""
    ends = [e for e in (L.client, L.server) if only is None or e.name in only]
    idle = 0
    total = 0
    while True:
        running = [e for e in ends if e.state == "running"]
        if not running:
            pin.cur = None
            return
        if rng is not None and len(running) == 2 and rng.random() < 0.5:
            running.reverse()
        before = L.link.activity
        alive = False
        for e in running:
            reps = 1 if rng is None else rng.choice([1, 1, 1, 2, 3, 7])
            for _ in range(reps):
                pin.cur = e.name
                total += 1
                if e.step():
                    alive = True
                else:
                    break
        pin.cur = None
        if total > max_steps or len(L.link.delivered["c2s"]) + len(L.link.delivered["s2c"]) > MAX_WIRE:
            for e in running:
                if e.state == "running":
                    e.state = "stall"
            return
        if L.link.activity == before and alive:
            idle += 1
            if idle >= 3:
                for e in running:
                    if e.state == "running":
                        e.state = "stall"
                return
        else:
            idle = 0


def ku_then_write(conn, data):
    """server side of the KeyUpdate scenarios: ask the peer to update its keys, then send data"""
    from tlslite.constants import KeyUpdateMessageType
    for r in conn.send_keyupdate_request(KeyUpdateMessageType.update_requested):
        yield r
    for r in conn.writeAsync(data):
        yield r


def read_until(conn, n, out, seed=None):
    """generator: readAsync repeatedly until n bytes arrived or the peer closed; the max/min
    arguments vary with `seed` (the concatenated data must not depend on them)"""
    import random
    rng = random.Random(seed) if seed is not None else None
    while len(out) < n:
        mx, mn = None, 1
        if rng is not None:
            mx = rng.choice([None, None, 1, 7, 100, 16384, 20000])
            mn = min(rng.choice([1, 1, 1, 2, 50, 600]), n - len(out))
            if mx is not None:
                mn = min(mn, mx)
        r = None
        for r in conn.readAsync(max=mx, min=mn):
            if isinstance(r, int) and r in (0, 1):
                yield r
        if not r:
            return
        out += r


def hb_then_write(conn, data):
    """client side of the heartbeat scenarios: a heartbeat request, then data; the peer's READ
    operation has to answer the request (a read that writes)"""
    for r in conn.write_heartbeat(b"c14-ping", 16):
        yield r
    for r in conn.writeAsync(data):
        yield r


_SRP_DB = {}


def srp_db():
    if "db" not in _SRP_DB:
        from tlslite.api import VerifierDB
        db = VerifierDB()
        db.create()
        db[b"user"] = VerifierDB.makeVerifier(b"user", b"password", 1024)
        _SRP_DB["db"] = db
    return _SRP_DB["db"]


def scenario_list(thorough):
    S = []

    def add(name, **kw):
        kw["name"] = name
        S.append(kw)
    for ver in [(3, 0), (3, 1), (3, 2), (3, 3)]:
        v = "%d.%d" % ver
        add("rsa-" + v, ver=ver, kx=["rsa"], ciphers=["aes128"] if ver < (3, 3) else ["aes128gcm"])
        add("dhe-" + v, ver=ver, kx=["dhe_rsa"], ciphers=["aes256"] if ver < (3, 3) else ["chacha20-poly1305"])
        add("ecdhe-" + v, ver=ver, kx=["ecdhe_rsa"], ciphers=["aes128"] if ver != (3, 3) else ["aes128gcm"])
    add("ecdhe-ecdsa-3.3", ver=(3, 3), kx=["ecdhe_ecdsa"], cred="ecdsa")
    add("cbc-etm-3.3", ver=(3, 3), kx=["ecdhe_rsa"], ciphers=["aes256"])
    add("rc4-3.1", ver=(3, 1), kx=["rsa"], ciphers=["rc4"])
    add("3des-3.0", ver=(3, 0), kx=["rsa"], ciphers=["3des"])
    add("tls13-x25519", ver=(3, 4), groups=["x25519"])
    add("tls13-p256-ecdsa", ver=(3, 4), groups=["secp256r1"], cred="ecdsa")
    add("tls13-ffdhe", ver=(3, 4), groups=["ffdhe2048"])
    add("tls13-hrr", ver=(3, 4), hrr=True)
    add("tls13-chacha", ver=(3, 4), ciphers=["chacha20-poly1305"])
    add("heartbeat-3.3", ver=(3, 3), kx=["ecdhe_rsa"], hb=True)
    add("heartbeat-tls13", ver=(3, 4), hb=True)
    add("closewait-3.3", ver=(3, 3), kx=["rsa"], close_wait=True)
    add("closewait-tls13", ver=(3, 4), close_wait=True, ticket_keys=True)
    add("smallrecords-tls13", ver=(3, 4), rsl=64, d1=2000, d2=1500)
    add("smallrecords-3.3", ver=(3, 3), kx=["ecdhe_rsa"], rsl=70, d1=2000, d2=1500)
    add("tls13-keyupdate", ver=(3, 4), ku=True)
    add("tls13-keyupdate-aes256", ver=(3, 4), ku=True, ciphers=["aes256gcm"], d1=3000, d2=2000)
    add("clientauth-3.1", ver=(3, 1), kx=["rsa"], client_cert="client_rsa")
    add("clientauth-3.3", ver=(3, 3), kx=["ecdhe_rsa"], client_cert="client_rsa")
    add("clientauth-tls13", ver=(3, 4), client_cert="client_rsa")
    add("clientauth-missing-3.3", ver=(3, 3), kx=["ecdhe_rsa"], req_cert_only=True)
    add("resume-3.3", ver=(3, 3), kx=["ecdhe_rsa"], resume=True)
    add("resume-3.1", ver=(3, 1), kx=["rsa"], resume=True)
    add("resume-tls13", ver=(3, 4), resume=True, ticket_keys=True)
    add("resume-ticket-3.3", ver=(3, 3), kx=["ecdhe_rsa"], resume=True, ticket_keys=True, no_cache=True)
    add("srp-3.3", ver=(3, 3), flavour="srp")
    add("anon-3.3", ver=(3, 3), flavour="anon")
    add("version-negotiation", ver=None, cmax=(3, 4), smax=(3, 2))
    add("no-common-cipher", ver=(3, 3), kx=["rsa"], s_kx=["ecdhe_rsa"], expect_fail=True)
    add("bigdata-3.3", ver=(3, 3), kx=["ecdhe_rsa"], ciphers=["aes128gcm"], d1=40000, d2=20000)
    add("bigdata-tls13", ver=(3, 4), d1=40000, d2=20000)
    add("bigdata-3.0", ver=(3, 0), kx=["rsa"], ciphers=["aes128"], d1=33000, d2=100)
    return S


_HB = []      # heartbeat responses seen by the client of the conversation being played


def mk_settings(scn, role):
    from harness import lab
    kw = {}
    ver = scn.get("ver")
    if ver is not None:
        kw["minv"] = ver
        kw["maxv"] = ver
    else:
        kw["minv"] = (3, 0)
        kw["maxv"] = scn["cmax"] if role == "client" else scn["smax"]
    s = lab.settings(**kw)
    kx = scn.get("s_kx") if (role == "server" and scn.get("s_kx")) else scn.get("kx")
    if kx:
        s.keyExchangeNames = list(kx)
    if scn.get("ciphers"):
        s.cipherNames = list(scn["ciphers"])
    if scn.get("groups"):
        g = scn["groups"]
        if g[0].startswith("ffdhe"):
            s.dhGroups = list(g)
            s.eccCurves = []
            s.keyShares = list(g)
        else:
            s.eccCurves = list(g)
            s.dhGroups = []
            s.keyShares = list(g)
    elif ver == (3, 4) or ver is None:
        s.eccCurves = [c for c in s.eccCurves if not c.startswith("brainpool")]
    if scn.get("hrr") and role == "client":
        s.keyShares = []
    if scn.get("ticket_keys") and role == "server":
        s.ticketKeys = [bytearray(range(32))]
    if scn.get("rsl"):
        s.record_size_limit = scn["rsl"]
    if scn.get("hb") and role == "client":
        s.heartbeat_response_callback = lambda msg: _HB.append(bytes(msg.payload))
    return s


def start_handshake(L, scn, session=None, cache=None, blocking=False):
    """returns (client_call, server_call): callables conn -> generator (or, blocking, conn -> None)"""
    from harness import lab
    cs = mk_settings(scn, "client")
    ss = mk_settings(scn, "server")
    flavour = scn.get("flavour", "cert")
    if flavour == "srp":
        def c(conn):
            return conn.handshakeClientSRP("user", "password", settings=cs, session=session, async_=not blocking)

        def sv(conn):
            if blocking:
                return conn.handshakeServer(verifierDB=srp_db(), settings=ss, sessionCache=cache)
            return conn.handshakeServerAsync(verifierDB=srp_db(), settings=ss, sessionCache=cache)
        return c, sv
    if flavour == "anon":
        def c(conn):
            return conn.handshakeClientAnonymous(settings=cs, session=session, async_=not blocking)

        def sv(conn):
            if blocking:
                return conn.handshakeServer(anon=True, settings=ss, sessionCache=cache)
            return conn.handshakeServerAsync(anon=True, settings=ss, sessionCache=cache)
        return c, sv
    chain, key = lab.creds(scn.get("cred", "rsa"))
    ckw = {}
    if scn.get("client_cert"):
        cc, ck = lab.creds(scn["client_cert"])
        ckw = {"certChain": cc, "privateKey": ck}
    req = bool(scn.get("client_cert") or scn.get("req_cert_only"))

    def c(conn):
        return conn.handshakeClientCert(settings=cs, session=session, async_=not blocking, **ckw)

    def sv(conn):
        if blocking:
            return conn.handshakeServer(certChain=chain, privateKey=key, reqCert=req, settings=ss, sessionCache=cache)
        return conn.handshakeServerAsync(certChain=chain, privateKey=key, reqCert=req, settings=ss, sessionCache=cache)
    return c, sv


def payload(n, tag):
    import hashlib
    out = b""
    i = 0
    while len(out) < n:
        out += hashlib.sha256(("%s|%d" % (tag, i)).encode()).digest()
        i += 1
    return out[:n]


def observe_end(conn):
    from harness import lab
    import hashlib
    o = lab.observe(conn)
    o["tickets"] = len(getattr(conn, "tickets", []) or [])
    o["tls_1_0_tickets"] = len(getattr(conn, "tls_1_0_tickets", []) or [])
    for k, v in list(o.items()):
        if isinstance(v, (bytes, bytearray)):
            o[k] = bytes(v).hex()
        elif isinstance(v, list):
            o[k] = [hashlib.sha256(bytes(x)).hexdigest()[:16] if isinstance(x, (bytes, bytearray)) else x for x in v]
        elif isinstance(v, tuple):
            o[k] = list(v)
    return o


def end_state(e):
    from harness import lab
    return [e.state, lab.exc_class(e.exc)]


def play_generators(scn, spec, pin, order_seed=None, refilter=None, record_size=None, sent_log=None):
    """one complete conversation (twice for resumption scenarios) driven as generators over MemSock"""
    import hashlib
    import random
    from harness import lab
    from tlslite.sessioncache import SessionCache
    pin.reset()
    rng = random.Random(order_seed) if order_seed is not None else None
    d1 = payload(scn.get("d1", 700), "c2s")
    d2 = payload(scn.get("d2", 300), "s2c")
    d3 = payload(500, "c2s-after-keyupdate")
    cache = SessionCache() if (scn.get("resume") and not scn.get("no_cache")) else None
    session = None
    out = {"conns": []}
    for round_no in range(2 if scn.get("resume") else 1):
        L = lab.Lab()
        apply_schedule(L, spec)
        if refilter is not None:
            L.link.filter = refilter(L)
        c, sv = start_handshake(L, scn, session=session, cache=cache)
        for who, k in (record_size or {}).items():
            L.end(who).conn.recordSize = k                # the sender-side chunking knob
        if sent_log is not None:
            for who in ("client", "server"):
                lab.trace_messages(L.end(who).conn, sent_log.setdefault(who, []))
        L.start_client(c)
        L.start_server(sv)
        run_gens(L, pin, rng)
        o = {"hs_client": end_state(L.client), "hs_server": end_state(L.server)}
        if L.client.state == "done" and L.server.state == "done":
            got1, got2 = bytearray(), bytearray()
            rs = None if order_seed is None else order_seed + 17 * round_no
            del _HB[:]
            if scn.get("close_wait"):
                L.client.conn.closeSocket = False
                L.server.conn.closeSocket = False
            L.client.start(hb_then_write(L.client.conn, d1) if scn.get("hb") else L.client.conn.writeAsync(d1))
            L.server.start(read_until(L.server.conn, len(d1), got1, rs))
            run_gens(L, pin, rng)
            o["w1"] = end_state(L.client)
            o["r1"] = end_state(L.server)
            L.server.start(ku_then_write(L.server.conn, d2) if scn.get("ku") else L.server.conn.writeAsync(d2))
            L.client.start(read_until(L.client.conn, len(d2), got2, None if rs is None else rs + 1))
            run_gens(L, pin, rng)
            o["w2"] = end_state(L.server)
            o["r2"] = end_state(L.client)
            if scn.get("hb"):
                o["heartbeat_responses"] = [x.hex() for x in _HB]
            if scn.get("ku"):
                got3 = bytearray()
                L.client.start(L.client.conn.writeAsync(d3))
                L.server.start(read_until(L.server.conn, len(d3), got3, None if rs is None else rs + 2))
                run_gens(L, pin, rng)
                o["w3"] = end_state(L.client)
                o["r3"] = end_state(L.server)
                o["data3"] = hashlib.sha256(bytes(got3)).hexdigest()[:16] + ":%d" % len(got3)
                o["data3_ok"] = bytes(got3) == d3
            o["data_c2s_ok"] = bytes(got1) == d1
            o["data_s2c_ok"] = bytes(got2) == d2
            o["data_c2s"] = hashlib.sha256(bytes(got1)).hexdigest()[:16] + ":%d" % len(got1)
            o["data_s2c"] = hashlib.sha256(bytes(got2)).hexdigest()[:16] + ":%d" % len(got2)
            o["client"] = observe_end(L.client.conn)
            o["server"] = observe_end(L.server.conn)
            session = L.client.conn.session
            tail = bytearray()
            L.client.start(L.client.conn.closeAsync())
            L.server.start(read_until(L.server.conn, 1 << 30, tail))
            run_gens(L, pin, rng)
            o["close_client"] = end_state(L.client)
            o["close_server_read"] = end_state(L.server) + [len(tail)]
            L.server.start(L.server.conn.closeAsync())
            run_gens(L, pin, rng, only=("server",))
            o["close_server"] = end_state(L.server)
            o["closed"] = [L.client.conn.closed, L.server.conn.closed]
            o["resumable"] = [bool(L.client.conn.session and L.client.conn.session.resumable),
                              bool(L.server.conn.session and L.server.conn.session.resumable)]
        if refilter is None:
            o["wire_c2s"] = hashlib.sha256(b"".join(L.link.wire_log["c2s"])).hexdigest()[:16]
            o["wire_s2c"] = hashlib.sha256(b"".join(L.link.wire_log["s2c"])).hexdigest()[:16]
        out["conns"].append(o)
    return out


def diff_outcomes(a, b, ignore=()):
    """list of (path, a, b) for differing leaves"""
    res = []

    def rec(path, x, y):
        if path and path[-1] in ignore:
            return
        if isinstance(x, dict) and isinstance(y, dict):
            for k in sorted(set(x) | set(y)):
                rec(path + [k], x.get(k, "<absent>"), y.get(k, "<absent>"))
        elif isinstance(x, list) and isinstance(y, list) and len(x) == len(y) and any(isinstance(i, dict) for i in x):
            for i, (p, q) in enumerate(zip(x, y)):
                rec(path + [i], p, q)
        elif x != y:
            res.append(("/".join(str(p) for p in path), x, y))
    rec([], a, b)
    return res


# ---- blocking API in threads over a real socket pair -------------------------------------------
class ChunkSock(object):
    """blocking socket whose recv()/send() transfer at most the scheduled number of bytes per call"""

    def __init__(self, s, rgen, sgen):
        self.s = s
        self.rgen = rgen
        self.sgen = sgen
        self.log = bytearray()

    def _k(self, g, n):
        if g is None:
            return n
        k = next(g)
        while k == "wb":
            k = next(g)
        return max(1, min(n, k))

    def recv(self, n):
        return self.s.recv(self._k(self.rgen, n))

    def send(self, data):
        data = bytes(data)
        k = self._k(self.sgen, len(data)) if data else 0
        m = self.s.send(data[:k]) if data else 0
        self.log += data[:m]
        return m

    def sendall(self, data):
        self.s.sendall(bytes(data))
        self.log += bytes(data)

    def close(self):
        try:
            self.s.shutdown(socket.SHUT_WR)
        except OSError:
            pass

    def shutdown(self, how):
        try:
            self.s.shutdown(how)
        except OSError:
            pass

    def settimeout(self, v):
        self.s.settimeout(v)

    def gettimeout(self):
        return self.s.gettimeout()

    def getsockname(self):
        return ("pair", 0)

    def getpeername(self):
        return ("pair", 1)


def play_blocking(scn, spec, pin, timeout=15.0):
    """the same conversation through the BLOCKING API, each endpoint in its own thread"""
    import hashlib
    import threading
    from harness import lab
    from tlslite.tlsconnection import TLSConnection
    from tlslite.sessioncache import SessionCache
    pin.reset()
    d1 = payload(scn.get("d1", 700), "c2s")
    d2 = payload(scn.get("d2", 300), "s2c")
    d3 = payload(500, "c2s-after-keyupdate")
    cache = SessionCache() if (scn.get("resume") and not scn.get("no_cache")) else None
    session = None
    out = {"conns": []}
    for round_no in range(2 if scn.get("resume") else 1):
        a, b = socket.socketpair()
        a.settimeout(timeout)
        b.settimeout(timeout)
        cs_ = ChunkSock(a, sched_iter(spec.get("client", ("none", "none"))[0], spec["seed"], "clientr"),
                        sched_iter(spec.get("client", ("none", "none"))[1], spec["seed"], "clients"))
        ss_ = ChunkSock(b, sched_iter(spec.get("server", ("none", "none"))[0], spec["seed"], "serverr"),
                        sched_iter(spec.get("server", ("none", "none"))[1], spec["seed"], "servers"))
        cconn, sconn = TLSConnection(cs_), TLSConnection(ss_)
        del _HB[:]
        if scn.get("close_wait"):
            cconn.closeSocket = False
            sconn.closeSocket = False
        c, sv = start_handshake(None, scn, session=session, cache=cache, blocking=True)
        res = {"client": {}, "server": {}}

        def stage(r, name, f):
            try:
                f()
                r[name] = ["done", "none"]
                return True
            except BaseException as e:  # noqa: BLE001 - classified
                r[name] = ["error", lab.exc_class(e)]
                return False

        def read_n(conn, n, buf):
            while len(buf) < n:
                x = conn.read()
                if not x:
                    return
                buf += x

        got1, got2, got3, tail = bytearray(), bytearray(), bytearray(), bytearray()

        def client():
            r = res["client"]
            if not stage(r, "hs", lambda: c(cconn)):
                cs_.close()
                return
            def w1():
                if scn.get("hb"):
                    cconn.send_heartbeat_request(b"c14-ping", 16)
                cconn.write(d1)
            if not stage(r, "w1", w1):
                return
            if not stage(r, "r2", lambda: read_n(cconn, len(d2), got2)):
                return
            if scn.get("ku") and not stage(r, "w3", lambda: cconn.write(d3)):
                return
            r["obs"] = observe_end(cconn)
            stage(r, "close", cconn.close)

        def server():
            r = res["server"]
            if not stage(r, "hs", lambda: sv(sconn)):
                ss_.close()
                return
            if not stage(r, "r1", lambda: read_n(sconn, len(d1), got1)):
                return
            def w2():
                if scn.get("ku"):
                    for _ in ku_then_write(sconn, d2):
                        pass
                else:
                    sconn.write(d2)
            if not stage(r, "w2", w2):
                return
            if scn.get("ku") and not stage(r, "r3", lambda: read_n(sconn, len(d3), got3)):
                return
            r["obs"] = observe_end(sconn)
            if not stage(r, "tail", lambda: read_n(sconn, 1 << 30, tail)):
                return
            stage(r, "close", sconn.close)

        tc = threading.Thread(target=client, name="c14-client")
        ts = threading.Thread(target=server, name="c14-server")
        tc.start()
        ts.start()
        tc.join(timeout + 5)
        ts.join(timeout + 5)
        hung = tc.is_alive() or ts.is_alive()
        for s_ in (a, b):
            try:
                s_.close()
            except OSError:
                pass
        o = {"hs_client": res["client"].get("hs", ["stall", "none"]), "hs_server": res["server"].get("hs", ["stall", "none"])}
        if hung:
            o["hung"] = True
        if o["hs_client"][0] == "done" and o["hs_server"][0] == "done":
            o["w1"] = res["client"].get("w1", ["stall", "none"])
            o["r1"] = res["server"].get("r1", ["stall", "none"])
            o["w2"] = res["server"].get("w2", ["stall", "none"])
            o["r2"] = res["client"].get("r2", ["stall", "none"])
            o["data_c2s_ok"] = bytes(got1) == d1
            o["data_s2c_ok"] = bytes(got2) == d2
            o["data_c2s"] = hashlib.sha256(bytes(got1)).hexdigest()[:16] + ":%d" % len(got1)
            o["data_s2c"] = hashlib.sha256(bytes(got2)).hexdigest()[:16] + ":%d" % len(got2)
            if scn.get("hb"):
                o["heartbeat_responses"] = [x.hex() for x in _HB]
            if scn.get("ku"):
                o["w3"] = res["client"].get("w3", ["stall", "none"])
                o["r3"] = res["server"].get("r3", ["stall", "none"])
                o["data3"] = hashlib.sha256(bytes(got3)).hexdigest()[:16] + ":%d" % len(got3)
                o["data3_ok"] = bytes(got3) == d3
            o["client"] = res["client"].get("obs", {})
            o["server"] = res["server"].get("obs", {})
            o["close_client"] = res["client"].get("close", ["stall", "none"])
            o["close_server_read"] = res["server"].get("tail", ["stall", "none"]) + [len(tail)]
            o["close_server"] = res["server"].get("close", ["stall", "none"])
            session = cconn.session
        o["wire_c2s"] = hashlib.sha256(bytes(cs_.log)).hexdigest()[:16]
        o["wire_s2c"] = hashlib.sha256(bytes(ss_.log)).hexdigest()[:16]
        out["conns"].append(o)
    return out


# ---- AsyncStateMachine driven by events ---------------------------------------------------------
def play_asm(scn, spec, pin, order_seed=None):
    import hashlib
    import random
    from harness import lab
    from tlslite.integration.asyncstatemachine import AsyncStateMachine
    from tlslite.sessioncache import SessionCache
    pin.reset()
    rng = random.Random(order_seed) if order_seed is not None else None
    d1 = payload(scn.get("d1", 700), "c2s")
    d2 = payload(scn.get("d2", 300), "s2c")
    d3 = payload(500, "c2s-after-keyupdate")
    cache = SessionCache() if (scn.get("resume") and not scn.get("no_cache")) else None
    session = None
    out = {"conns": []}

    class M(AsyncStateMachine):
        def __init__(self, conn, name):
            AsyncStateMachine.__init__(self)
            self.tlsConnection = conn
            self.name = name
            self.got = bytearray()
            self.connected = False
            self.peer_closed = False
            self.closed_done = False
            self.exc = None
            self.stage = {}
            self.snap_at = None

        def outConnectEvent(self):
            self.connected = True

        def outCloseEvent(self):
            self.closed_done = True

        def outReadEvent(self, b):
            if not b:
                self.peer_closed = True
            self.got += b
            # the last expected byte has arrived: observe NOW (the read-ahead drain may go on and
            # process the peer's close_notify before this event returns)
            if self.snap_at is not None and len(self.got) >= self.snap_at and "obs" not in self.stage and b:
                self.stage["obs"] = observe_end(self.tlsConnection)

    for round_no in range(2 if scn.get("resume") else 1):
        L = lab.Lab()
        apply_schedule(L, spec)
        c, sv = start_handshake(L, scn, session=session, cache=cache)
        cm, sm = M(L.client.conn, "client"), M(L.server.conn, "server")
        cm.snap_at = len(d2)
        sm.snap_at = (len(d1) + len(d3)) if scn.get("ku") else None
        del _HB[:]
        if scn.get("close_wait"):
            L.client.conn.closeSocket = False
            L.server.conn.closeSocket = False

        def guarded(m, what, f):
            pin.cur = m.name
            try:
                f()
                return True
            except BaseException as e:  # noqa: BLE001 - classified
                m.exc = e
                m.stage[what] = ["error", lab.exc_class(e)]
                return False
            finally:
                pin.cur = None

        # scripts: what to start when the machine is idle
        def client_next(m):
            if "hs" not in m.stage:
                m.stage["hs"] = ["running", "none"]
                return guarded(m, "hs", lambda: m.setHandshakeOp(c(m.tlsConnection)))
            if m.stage["hs"][0] == "running" and m.connected:
                m.stage["hs"] = ["done", "none"]
            if m.stage["hs"][0] != "done":
                return False
            if scn.get("hb") and "hb" not in m.stage:
                m.stage["hb"] = ["running", "none"]

                def start_hb():
                    m._checkAssert(0)
                    m.writer = m.tlsConnection.write_heartbeat(b"c14-ping", 16)
                    m._doWriteOp()
                return guarded(m, "hb", start_hb)
            if scn.get("hb") and m.stage["hb"][0] == "running":
                m.stage["hb"] = ["done", "none"]
            if "w1" not in m.stage:
                m.stage["w1"] = ["running", "none"]
                return guarded(m, "w1", lambda: m.setWriteOp(d1))
            if m.stage["w1"][0] == "running":
                m.stage["w1"] = ["done", "none"]
            if len(m.got) < len(d2) and not m.peer_closed:
                return guarded(m, "r2", m.inReadEvent)
            m.stage.setdefault("r2", ["done", "none"])
            if scn.get("ku"):
                if "w3" not in m.stage:
                    m.stage["w3"] = ["running", "none"]
                    return guarded(m, "w3", lambda: m.setWriteOp(d3))
                if m.stage["w3"][0] == "running":
                    m.stage["w3"] = ["done", "none"]
            if "obs" not in m.stage:
                m.stage["obs"] = observe_end(m.tlsConnection)
            if "close" not in m.stage:
                m.stage["close"] = ["running", "none"]
                return guarded(m, "close", m.setCloseOp)
            if m.stage["close"][0] == "running":
                m.stage["close"] = ["done", "none"]
            return False

        def server_next(m):
            if "hs" not in m.stage:
                m.stage["hs"] = ["running", "none"]
                return guarded(m, "hs", lambda: m.setHandshakeOp(sv(m.tlsConnection)))
            if m.stage["hs"][0] == "running" and m.connected:
                m.stage["hs"] = ["done", "none"]
            if m.stage["hs"][0] != "done":
                return False
            if len(m.got) < len(d1) and not m.peer_closed:
                return guarded(m, "r1", m.inReadEvent)
            m.stage.setdefault("r1", ["done", "none"])
            if scn.get("ku") and "ku" not in m.stage:
                m.stage["ku"] = ["running", "none"]
                m.writer_is_ku = True
                from tlslite.constants import KeyUpdateMessageType

                def start_ku():
                    # no dedicated slot for this operation: it is a write-type generator
                    m._checkAssert(0)
                    m.writer = m.tlsConnection.send_keyupdate_request(KeyUpdateMessageType.update_requested)
                    m._doWriteOp()
                return guarded(m, "ku", start_ku)
            if scn.get("ku") and m.stage["ku"][0] == "running":
                m.stage["ku"] = ["done", "none"]
            if "w2" not in m.stage:
                m.stage["w2"] = ["running", "none"]
                return guarded(m, "w2", lambda: m.setWriteOp(d2))
            if m.stage["w2"][0] == "running":
                m.stage["w2"] = ["done", "none"]
            if scn.get("ku") and len(m.got) < len(d1) + len(d3) and not m.peer_closed:
                return guarded(m, "r3", m.inReadEvent)
            if scn.get("ku"):
                m.stage.setdefault("r3", ["done", "none"])
            if "obs" not in m.stage:
                m.stage["obs"] = observe_end(m.tlsConnection)
            if not m.peer_closed:
                return guarded(m, "tail", m.inReadEvent)
            m.stage.setdefault("tail", ["done", "none"])
            if "close" not in m.stage:
                m.stage["close"] = ["running", "none"]
                return guarded(m, "close", m.setCloseOp)
            if m.stage["close"][0] == "running":
                m.stage["close"] = ["done", "none"]
            return False

        idle = 0
        steps = 0
        def signature():
            return (L.link.activity, len(cm.got), len(sm.got), cm.connected, sm.connected, cm.peer_closed,
                    sm.peer_closed, cm.closed_done, sm.closed_done, len(cm.stage), len(sm.stage),
                    repr(sorted((k, v[0]) for k, v in cm.stage.items() if isinstance(v, list))),
                    repr(sorted((k, v[0]) for k, v in sm.stage.items() if isinstance(v, list))))

        while True:
            before = signature()
            progressed = False
            ms = [(cm, client_next), (sm, server_next)]
            if rng is not None and rng.random() < 0.5:
                ms.reverse()
            for m, nxt in ms:
                if m.exc is not None:
                    continue
                steps += 1
                if m.wantsReadEvent():
                    what = [k for k, v in m.stage.items() if isinstance(v, list) and v[0] == "running"]
                    guarded(m, what[0] if what else "io", m.inReadEvent)
                    progressed = True
                elif m.wantsWriteEvent():
                    what = [k for k, v in m.stage.items() if isinstance(v, list) and v[0] == "running"]
                    guarded(m, what[0] if what else "io", m.inWriteEvent)
                    progressed = True
                else:
                    if nxt(m):
                        progressed = True
            if not progressed:
                break
            if signature() == before:
                idle += 1
                if idle >= 6:
                    break
            else:
                idle = 0
            if steps > 600000 or len(L.link.delivered["c2s"]) + len(L.link.delivered["s2c"]) > MAX_WIRE:
                break

        def stg(m, k):
            v = m.stage.get(k)
            if v is None:
                return ["stall", "none"]
            if v[0] == "running":
                return ["stall", "none"]
            return v
        o = {"hs_client": stg(cm, "hs"), "hs_server": stg(sm, "hs")}
        if o["hs_client"][0] == "done" and o["hs_server"][0] == "done":
            o["w1"] = stg(cm, "w1")
            o["r1"] = stg(sm, "r1")
            o["w2"] = stg(sm, "w2")
            o["r2"] = stg(cm, "r2")
            got1, got2 = bytes(sm.got[:len(d1)]), bytes(cm.got)
            o["data_c2s_ok"] = got1 == d1
            o["data_s2c_ok"] = got2 == d2
            o["data_c2s"] = hashlib.sha256(got1).hexdigest()[:16] + ":%d" % len(got1)
            o["data_s2c"] = hashlib.sha256(got2).hexdigest()[:16] + ":%d" % len(got2)
            extra = 0
            if scn.get("hb"):
                o["heartbeat_responses"] = [x.hex() for x in _HB]
            if scn.get("ku"):
                got3 = bytes(sm.got[len(d1):len(d1) + len(d3)])
                extra = len(d3)
                o["w3"] = stg(cm, "w3")
                o["r3"] = stg(sm, "r3")
                o["data3"] = hashlib.sha256(got3).hexdigest()[:16] + ":%d" % len(got3)
                o["data3_ok"] = got3 == d3
            o["client"] = cm.stage.get("obs", {})
            o["server"] = sm.stage.get("obs", {})
            o["close_client"] = stg(cm, "close")
            o["close_server_read"] = stg(sm, "tail") + [max(0, len(sm.got) - len(d1) - extra)]
            o["close_server"] = stg(sm, "close")
            session = L.client.conn.session
        o["wire_c2s"] = hashlib.sha256(b"".join(L.link.wire_log["c2s"])).hexdigest()[:16]
        o["wire_s2c"] = hashlib.sha256(b"".join(L.link.wire_log["s2c"])).hexdigest()[:16]
        out["conns"].append(o)
    return out


def play_asm_cb(scn, spec, pin, order_seed=None):
    """the same conversation as a CALLBACK-DRIVEN application on AsyncStateMachine (what
    TLSAsyncDispatcherMixIn / the Twisted wrapper do): every next operation is started from inside
    a callback - client: write from outConnectEvent, close from outReadEvent; server: first half of
    the answer from outReadEvent, second half from outWriteEvent, close from outReadEvent(b"") -
    and each callback records how many operations the machine holds when it is entered."""
    import hashlib
    import random
    from harness import lab
    from tlslite.integration.asyncstatemachine import AsyncStateMachine
    from tlslite.sessioncache import SessionCache
    pin.reset()
    rng = random.Random(order_seed) if order_seed is not None else None
    d1 = payload(scn.get("d1", 700), "c2s")
    d2 = payload(scn.get("d2", 300), "s2c")
    half = len(d2) // 2
    cache = SessionCache() if (scn.get("resume") and not scn.get("no_cache")) else None
    session = None
    out = {"conns": [], "callback_entry_active": []}

    class App(AsyncStateMachine):
        def __init__(self, conn, name):
            AsyncStateMachine.__init__(self)
            self.tlsConnection = conn
            self.name = name
            self.got = bytearray()
            self.connected = False
            self.peer_closed = False
            self.closed_done = False
            self.close_started = False
            self.exc = None
            self.obs = None
            self.sent = 0            # server: how much of d2 has been handed to setWriteOp

        def entry(self, cb):
            n = sum(bool(x) for x in (self.handshaker, self.closer, self.reader, self.writer))
            if n or self.result is not None:
                out["callback_entry_active"].append([self.name, cb, n, repr(self.result)[:20]])

        def outConnectEvent(self):
            self.entry("outConnectEvent")
            self.connected = True
            if self.name == "client":
                self.setWriteOp(d1)                      # handshake, then immediately write

        def outCloseEvent(self):
            self.entry("outCloseEvent")
            self.closed_done = True

        def outWriteEvent(self):
            self.entry("outWriteEvent")
            if self.name == "server" and 0 < self.sent < len(d2):
                self.sent = len(d2)
                self.obs = observe_end(self.tlsConnection)
                self.setWriteOp(d2[half:])               # more to send: started from the writable callback

        def outReadEvent(self, b):
            self.entry("outReadEvent")
            if not b:
                self.peer_closed = True
                if not self.close_started and not self.tlsConnection.closed:
                    self.close_started = True
                    self.setCloseOp()
                return
            self.got += b
            if self.name == "server" and len(self.got) >= len(d1) and self.sent == 0:
                self.sent = max(1, half)
                self.setWriteOp(d2[:self.sent])          # the answer is started from inside the read callback
            elif self.name == "client" and len(self.got) >= len(d2) and not self.close_started:
                self.obs = observe_end(self.tlsConnection)
                self.close_started = True
                self.setCloseOp()                        # close from inside the read callback

    for round_no in range(2 if scn.get("resume") else 1):
        L = lab.Lab()
        apply_schedule(L, spec)
        c, sv = start_handshake(L, scn, session=session, cache=cache)
        cm, sm = App(L.client.conn, "client"), App(L.server.conn, "server")
        if scn.get("close_wait"):
            L.client.conn.closeSocket = False
            L.server.conn.closeSocket = False

        def guarded(m, f):
            pin.cur = m.name
            try:
                f()
            except BaseException as e:  # noqa: BLE001 - classified
                if isinstance(e, (KeyboardInterrupt, SystemExit, Hung)):
                    raise
                m.exc = e
            finally:
                pin.cur = None

        guarded(cm, lambda: cm.setHandshakeOp(c(cm.tlsConnection)))
        guarded(sm, lambda: sm.setHandshakeOp(sv(sm.tlsConnection)))

        def signature():
            return (L.link.activity, len(cm.got), len(sm.got), cm.connected, sm.connected, cm.peer_closed, sm.peer_closed,
                    cm.closed_done, sm.closed_done, sm.sent, cm.close_started, sm.close_started)
        idle = 0
        steps = 0
        while True:
            before = signature()
            ms = [cm, sm]
            if rng is not None and rng.random() < 0.5:
                ms.reverse()
            active = False
            for m in ms:
                if m.exc is not None or (m.tlsConnection.closed and m.connected and m.result is None):
                    continue
                active = True
                steps += 1
                if m.wantsReadEvent():
                    guarded(m, m.inReadEvent)
                elif m.wantsWriteEvent():
                    guarded(m, m.inWriteEvent)
                elif m.connected:
                    # idle, like a select loop: writable first (more to send?), then poll for input
                    guarded(m, m.inWriteEvent)
                    if m.exc is None and m.result is None and not m.tlsConnection.closed:
                        guarded(m, m.inReadEvent)
            if not active:
                break
            if signature() == before:
                idle += 1
                if idle >= 6:
                    break
            else:
                idle = 0
            if steps > 600000 or len(L.link.delivered["c2s"]) + len(L.link.delivered["s2c"]) > MAX_WIRE:
                break

        def stage(ok, m):
            if m.exc is not None and not ok:
                return ["error", lab.exc_class(m.exc)]
            return ["done", "none"] if ok else ["stall", "none"]
        hs_ok_c = cm.connected
        hs_ok_s = sm.connected
        o = {"hs_client": stage(hs_ok_c, cm) if not hs_ok_c else ["done", "none"],
             "hs_server": stage(hs_ok_s, sm) if not hs_ok_s else ["done", "none"]}
        if hs_ok_c and hs_ok_s:
            got1, got2 = bytes(sm.got[:len(d1)]), bytes(cm.got)
            o["w1"] = stage(got1 == d1, cm)
            o["r1"] = stage(got1 == d1, sm)
            o["w2"] = stage(got2 == d2, sm)
            o["r2"] = stage(got2 == d2, cm)
            o["data_c2s_ok"] = got1 == d1
            o["data_s2c_ok"] = got2 == d2
            o["data_c2s"] = hashlib.sha256(got1).hexdigest()[:16] + ":%d" % len(got1)
            o["data_s2c"] = hashlib.sha256(got2).hexdigest()[:16] + ":%d" % len(got2)
            o["client"] = cm.obs or {}
            o["server"] = sm.obs or {}
            o["close_client"] = stage(cm.closed_done, cm)
            o["close_server_read"] = stage(sm.peer_closed, sm) + [max(0, len(sm.got) - len(d1))]
            o["close_server"] = stage(sm.closed_done or L.server.conn.closed, sm)
            session = L.client.conn.session
        out["conns"].append(o)
    return out


# ---- (c) record re-framing on the path ------------------------------------------------------------
def make_reframer(style, seed):
    """returns refilter(L) -> Link.filter.  Plaintext handshake records (content type 22 before any
    ChangeCipherSpec in that direction) of one push are concatenated and re-cut:
      one      1-byte records
      rand     random sizes
      merge    one record per push (several messages packed together), max 16384
      msgsplit cut in the middle of every message header
    Never produced (the protocol forbids them): zero-length fragments, handshake data interleaved
    with other content types, fragments of a message after the key change."""
    import random

    def refilter(L):
        rng = random.Random("%s|%s" % (style, seed))
        buf = {"c2s": bytearray(), "s2c": bytearray()}
        ccs_seen = {"c2s": False, "s2c": False}

        def recut(body):
            if style == "one":
                return [body[i:i + 1] for i in range(len(body))]
            if style == "merge":
                return [body[i:i + 16384] for i in range(0, len(body), 16384)]
            if style == "msgsplit":
                out, i = [], 0
                while i < len(body):
                    k = rng.choice([1, 2, 3])
                    out.append(body[i:i + k])
                    i += k
                    k = rng.choice([1, 5, 40, 300, 16384])
                    out.append(body[i:i + k])
                    i += k
                return [x for x in out if x]
            out, i = [], 0
            while i < len(body):
                k = rng.choice([1, 1, 2, 3, 4, 7, 30, 100, 1000, 16384])
                out.append(body[i:i + k])
                i += k
            return out

        def filt(direction, data):
            b = buf[direction]
            b += data
            recs = []
            while len(b) >= 5:
                ln = (b[3] << 8) | b[4]
                if len(b) < 5 + ln:
                    break
                recs.append((b[0], bytes(b[1:3]), bytes(b[5:5 + ln])))
                del b[:5 + ln]
            out = bytearray()
            run = []

            def flush_run():
                if not run:
                    return
                ver = run[0][1]
                body = b"".join(r[2] for r in run)
                for piece in recut(body):
                    out.extend(bytes([22]) + ver + bytes([len(piece) >> 8, len(piece) & 0xff]) + piece)
                del run[:]
            for (t, ver, body) in recs:
                if t == 22 and not ccs_seen[direction] and len(body) > 0:
                    run.append((t, ver, body))
                    continue
                flush_run()
                if t == 20:
                    ccs_seen[direction] = True
                out.extend(bytes([t]) + ver + bytes([len(body) >> 8, len(body) & 0xff]) + body)
            flush_run()
            return bytes(out)
        return filt
    return refilter


IGNORE_REFRAME = ("wire_c2s", "wire_s2c")


class Hung(Exception):
    pass


class Watchdog(object):
    """raise Hung in the main thread if the block runs longer than `seconds` (an endpoint spinning
    without yielding cannot be stopped by the step counters)"""

    def __init__(self, seconds):
        self.seconds = seconds

    def _fire(self, signum, frame):
        raise Hung("conversation did not finish within %d s" % self.seconds)

    def __enter__(self):
        import signal
        self._old = signal.signal(signal.SIGALRM, self._fire)
        signal.setitimer(signal.ITIMER_REAL, self.seconds)
        return self

    def __exit__(self, *a):
        import signal
        signal.setitimer(signal.ITIMER_REAL, 0)
        signal.signal(signal.SIGALRM, self._old)
        return False


def live_compare(ctx, scn, kind, spec, ref, pin, order_seed=None, reframe=None):
    """run one variant, compare with the reference outcome; report differences as violations"""
    rep = {"stage": "live", "scenario": scn["name"], "kind": kind, "schedule": spec, "order_seed": order_seed,
           "reframe": list(reframe) if reframe else None, "pin_seed": pin.seed}
    try:
        with Watchdog(90 if scn.get("d1", 0) < 10000 else 240):
            if kind == "gen":
                got = play_generators(scn, spec, pin, order_seed=order_seed)
                ignore = ()
            elif kind == "blocking":
                import time as _t
                t0 = _t.time()
                got = play_blocking(scn, spec, pin)
                if _t.time() - t0 > 10:
                    ctx.extra["blocking_slow"] = ctx.extra.get("blocking_slow", 0) + 1
                ignore = ("closed", "resumable")
            elif kind == "asm":
                got = play_asm(scn, spec, pin, order_seed=order_seed)
                ignore = ("closed", "resumable")
            elif kind == "sendsize":
                got = play_generators(scn, spec, pin, order_seed=order_seed, record_size=spec.get("record_size"))
                ignore = ("wire_c2s", "wire_s2c", "send_limit", "recv_limit")
                if spec.get("rsl"):
                    # another record_size_limit value is another ClientHello: transcript-derived secrets differ
                    ignore += ("masterSecret", "cl_app_secret", "sr_app_secret", "exporterMasterSecret",
                               "resumptionMasterSecret", "sessionID")
            elif kind == "asmcb":
                got = play_asm_cb(scn, spec, pin, order_seed=order_seed)
                ignore = ("closed", "resumable", "wire_c2s", "wire_s2c")
                bad = got.pop("callback_entry_active")
                if bad:
                    ctx.violation("c14:asm-callback-entered-with-active-op",
                                  "scenario %s: AsyncStateMachine.%s ran while the machine still held %d operation(s) "
                                  "(result %s); a callback that starts the next operation then fails"
                                  % (scn["name"], bad[0][1], bad[0][2], bad[0][3]), dict(rep, callback_entries=bad[:6]))
            else:
                got = play_generators(scn, {"seed": 0}, pin, refilter=make_reframer(reframe[0], reframe[1]))
                ignore = IGNORE_REFRAME
    except Hung as e:
        pin.cur = None
        ctx.count("live:hung:" + kind)
        ctx.violation("c14:%s-hangs" % kind, "scenario %s, %s run: %s (the unconstrained run finishes)" % (scn["name"], kind, e), rep)
        return None
    d = diff_outcomes(ref, got, ignore=ignore)
    ok_ref = all(c["hs_client"][0] == "done" and c["hs_server"][0] == "done" for c in ref["conns"])
    ctx.case(key=("live", scn["name"], kind, str(spec), order_seed, str(reframe)), nontrivial=True,
             sample=dict(rep, reference_handshake_ok=ok_ref) if ctx.evaluations % 97 == 0 else None)
    ctx.count("live:%s" % kind)
    ctx.count("live:scenario:%s:%s" % (scn["name"], "ok" if ok_ref else "fails"))
    if kind == "blocking" and any(c.get("hung") for c in got["conns"]):
        ctx.extra["blocking_hung"] = True
    if d:
        def prio(x):
            leaf = x[0].split("/")[-1]
            order = ["hs_client", "hs_server", "w1", "r1", "w2", "r2", "w3", "r3", "data_c2s_ok", "data_s2c_ok", "data3_ok",
                     "close_client", "close_server_read", "close_server"]
            return (order.index(leaf) if leaf in order else len(order), x[0])
        d.sort(key=prio)
        first = d[0]
        first = (first[0], "<absent>" if first[1] == "<absent>" else repr(first[1])[:60],
                 "<absent>" if first[2] == "<absent>" else repr(first[2])[:60])
        cls = first[0].split("/")[-1]
        key = "c14:%s-differs:%s" % (kind if kind != "reframe" else "reframe-" + reframe[0], cls)
        ctx.violation(key, "scenario %s, %s run differs from the unconstrained run at %s: %s vs %s (%d differences)"
                      % (scn["name"], kind if kind != "reframe" else "re-framed (%s)" % reframe[0], first[0], first[1], first[2], len(d)),
                      dict(rep, differences=[list(x) for x in d[:12]]))
    return got


def corr_fragment(ctx, P):
    """sender side: TLSRecordLayer._sendMsg on a fresh connection (null cipher) with conn.recordSize = k;
    model `fragmentMsg` vs the record payload lengths on the wire.  Directed: every k around every
    divisor of the length (the exact-multiple boundary), not cut by any budget."""
    from tlslite.tlsconnection import TLSConnection
    from tlslite.messages import Message
    rng = ctx.rng
    cases = []
    for ln in list(range(0, 26)) + [30, 32, 48, 64, 100, 128]:
        ks = set(range(1, min(ln, 12) + 3))
        for d in range(1, ln + 1):
            if ln % d == 0:
                ks.update([d, d - 1, d + 1])
        for k in sorted(x for x in ks if x >= 1):
            cases.append((ln, k, rng.choice([20, 21, 22, 22, 23, 24])))
    for _ in range(ctx.pick(300, 3000)):
        ln = rng.choice([0, 1, 5, 17, 64, 300, 1000, 16384, 16385, 32768, 40000])
        cases.append((ln, rng.choice([1, 2, 7, 64, 100, 1000, 16383, 16384, 16385, max(1, ln), max(1, ln // 2), ln + 1]) if ln < 2000
                      else rng.choice([1000, 8192, 16384, 16385, ln, ln // 2, ln + 1]), rng.choice([22, 23])))
    for ln, k, ctype in cases:
        data = rb(rng, ln)
        raw = ScriptSock(b"", [], [1 << 30] * (ln // k + 4))
        conn = TLSConnection(raw)
        conn.version = (3, 3)
        conn.recordSize = k
        k = min(k, 16384)          # recordSize is capped by the (default) send record limit
        res = "ok"
        try:
            for _ in conn._sendMsg(Message(ctype, bytearray(data))):
                pass
        except Exception as e:  # noqa: BLE001
            res = "exc:" + exc_name(e)
        wire = bytes(raw.sent)
        lens, body, i = [], b"", 0
        while i + 5 <= len(wire):
            n = (wire[i + 3] << 8) | wire[i + 4]
            lens.append(n)
            body += wire[i + 5:i + 5 + n]
            i += 5 + n
        case = {"stage": "a:fragment", "length": ln, "recordSize": k, "type": ctype}
        if ln <= 4000:
            P.add("fragment %d %s" % (k, hx(data)), "sendMsg-fragmentation", case, ",".join(str(x) for x in lens))
        ctx.case(key=("fragment", ln, k, ctype), sample=dict(case, records=lens[:8]) if (ln, k) == (24, 8) else None)
        ctx.count("a:fragment:%s" % ("exact-multiple" if ln and ln % k == 0 else "other"))
        # direct oracle: the records carry the message, none longer than recordSize, and a non-empty
        # message never produces an empty record (the peer must refuse empty handshake/alert/CCS records)
        if res != "ok" or body != data or any(x > k for x in lens) or (ln > 0 and any(x == 0 for x in lens)) \
                or len(lens) != max(1, -(-ln // k)):
            ctx.violation("c14:sendmsg-fragmentation",
                          "_sendMsg of a %d-byte message (content type %d) with recordSize %d produced records of %s bytes (%s)"
                          % (ln, ctype, k, lens[:12], res), dict(case, data=data.hex() if ln <= 200 else "len%d" % ln, records=lens[:50]))
    P.flush()


def corr_alertpeek(ctx, P):
    """error path of _sendMsgThroughSocket: the first handshake send fails (EPIPE), the library
    reads on looking for the peer's alert.  Model `alertPeek` vs a real TLSConnection over ScriptSock."""
    from tlslite.tlsconnection import TLSConnection
    from tlslite import errors
    from harness import lab
    rng = ctx.rng
    st = lab.settings(minv=(3, 1), maxv=(3, 3))

    def alert(level, desc, ver=(3, 3)):
        return bytes([21, ver[0], ver[1], 0, 2, level, desc])
    bases = [alert(2, 40), alert(2, 70, (3, 1)), alert(1, 0) + alert(2, 20), bytes([21, 3, 3, 0, 1, 2, 21, 3, 3, 0, 1, 40]),
             bytes([22, 3, 3, 0, 4, 14, 0, 0, 0]) + alert(2, 40), bytes([22, 3, 3, 0, 2, 14, 0]) + alert(2, 40),
             bytes([23, 3, 3, 0, 3, 1, 2, 3]), bytes([23, 3, 3, 0, 0]) + alert(2, 40), bytes([21, 3, 3, 0, 0]) + alert(2, 40),
             bytes([20, 3, 3, 0, 1, 1]) + alert(2, 40), bytes([24, 3, 3, 0, 2, 1, 2]), bytes([0x80, 3, 1, 2, 3]),
             bytes([0x00, 0x08, 0x09]) + b"\x00" * 8, bytes([21, 3, 3, 0x48, 0x01]) + b"\x00" * 10, b""]
    for it in range(ctx.pick(700, 5000)):
        data = rng.choice(bases)
        if rng.random() < 0.2:
            data = data[:rng.randrange(0, len(data) + 1)]
        rs = rand_rsched(rng, len(data), faults=True)
        if rng.random() < 0.3:
            rs = rs + ["eof"]
        raw = ScriptSock(data, rs, ["err", 1 << 20, 1 << 20, 1 << 20])
        conn = TLSConnection(raw)
        ys = []
        try:
            res = "ok:finished?"
            for r in conn.handshakeClientCert(settings=st, async_=True):
                if raw.exhausted:
                    res = "pending"
                    break
                ys.append(r)
        except errors.TLSRemoteAlert as e:
            res = "ok:remoteAlert:%d:%d" % (e.level, e.description)
        except errors.TLSLocalAlert as e:
            res = "exc:" + {10: "unexpectedMessage", 22: "recordOverflow", 47: "illegalParameter"}.get(e.description, "localAlert%d" % e.description)
        except errors.TLSAbruptCloseError:
            res = "exc:abruptClose"
        except socket.error as e:
            res = "ok:originalError" if e.args[0] == errno.EPIPE else "exc:socketError"
        except Exception as e:  # noqa: BLE001
            res = "exc:" + exc_name(e)
        impl = "y=%s r=%s up=%s" % (ystr(ys), res, hx(upstream(raw, conn.sock)))
        case = {"stage": "a:alertpeek", "inflight": data.hex(), "rsched": sched_str(rs, "c")}
        P.add("sock %s %s - 1" % (hx(data), sched_str(rs, "c")))
        P.add("alertpeek 0 16384", "alertpeek", case, impl)
        ctx.count("a:alertpeek:" + res.split(":")[0] + ":" + (res.split(":")[1] if ":" in res else ""))
        ctx.case(key=("alertpeek", data, tuple(rs)), sample=None)
    P.flush()


# ---- send failure during the handshake with the peer's alert in flight ------------------------------
def senderr_outcome(role, inflight, eof, sched, driver, pin, client_hello=None, ver=(3, 3)):
    """One endpoint starts a handshake; its first send() fails with EPIPE while `inflight` (what the
    peer sent before closing) is waiting / still arriving under the recv schedule `sched`
    (list of ints / 'wb'; exhausted = deliver everything).  Returns the outcome class."""
    from harness import lab
    from tlslite.integration.asyncstatemachine import AsyncStateMachine
    pin.reset()
    L = lab.Lab()
    e = L.end(role)
    rx = "s2c" if role == "client" else "c2s"
    L.link.inject(rx, (client_hello or b"") + inflight)
    if eof:
        L.link.closed[rx] = True
    e.sock.faults[("send", 0)] = "pipe"
    e.sock.recv_schedule = iter(list(sched)) if sched is not None else None
    st = lab.settings(minv=(3, 1), maxv=ver)
    if role == "client":
        def mk(conn, blocking=False):
            return conn.handshakeClientCert(settings=st, async_=not blocking)
    else:
        chain, key = lab.creds("rsa")

        def mk(conn, blocking=False):
            if blocking:
                return conn.handshakeServer(certChain=chain, privateKey=key, settings=st)
            return conn.handshakeServerAsync(certChain=chain, privateKey=key, settings=st)
    exc = None
    state = "done"
    pin.cur = role
    try:
        if driver == "gen":
            n = 0
            for _ in mk(e.conn):
                n += 1
                if n > 20000:
                    state = "stall"
                    break
        elif driver == "blocking":
            mk(e.conn, blocking=True)
        else:
            m = AsyncStateMachine()
            m.tlsConnection = e.conn
            done = []
            m.outConnectEvent = lambda: done.append(1)
            m.setHandshakeOp(mk(e.conn))
            n = 0
            while not done:
                n += 1
                if n > 20000:
                    state = "stall"
                    break
                if m.wantsReadEvent():
                    m.inReadEvent()
                elif m.wantsWriteEvent():
                    m.inWriteEvent()
                else:
                    break
    except BaseException as x:  # noqa: BLE001 - classified
        if isinstance(x, (KeyboardInterrupt, SystemExit, Hung)):
            raise
        exc = x
        state = "error"
    finally:
        pin.cur = None
    cls = lab.exc_class(exc)
    if cls.startswith("remote_alert"):
        cls += "/level%d" % exc.level
    return [state, cls, bool(e.conn.closed)]


def senderr_runs(ctx):
    """family: a handshake send hits EPIPE while the peer's (fatal) alert is in flight; the exception
    raised must not depend on chunking / would-blocks of the alert's arrival, nor on the driver"""
    rng = ctx.rng
    with Pin(rng.randrange(1 << 30)) as pin:
        # a real ClientHello for the server-side variant
        from harness import lab
        L0 = lab.Lab()
        L0.start_client(lambda c: c.handshakeClientCert(settings=lab.settings(minv=(3, 1), maxv=(3, 3)), async_=True))
        pin.cur = "client"
        L0.run(only=("client",))
        pin.cur = None
        ch = b"".join(L0.link.wire_log["c2s"])

        def alert(level, desc, ver=(3, 3)):
            return bytes([21, ver[0], ver[1], 0, 2, level, desc])
        inflights = [
            ("alert-40", alert(2, 40), False), ("alert-70", alert(2, 70, (3, 1)), False), ("alert-80", alert(2, 80), True),
            ("alert-47+more", alert(2, 47) + alert(1, 0), True), ("close-notify", alert(1, 0), True),
            ("alert-2-records", bytes([21, 3, 3, 0, 1, 2]) + bytes([21, 3, 3, 0, 1, 40]), False),
            ("handshake-record", bytes([22, 3, 3, 0, 4, 14, 0, 0, 0]) + alert(2, 40), True),
            ("appdata-record", bytes([23, 3, 3, 0, 3, 1, 2, 3]), True),
            ("empty-alert-record", bytes([21, 3, 3, 0, 0]) + alert(2, 40), True),
            ("nothing+eof", b"", True),
        ]
        for k in range(1, 7):
            inflights.append(("alert-cut-%d+eof" % k, alert(2, 40)[:k], True))
        n_rand = ctx.pick(6, 40)
        for role in ("client", "server"):
            pre = ch if role == "server" else None
            for name, data, eof in inflights:
                if role == "server" and name not in ("alert-40", "alert-2-records", "nothing+eof", "alert-cut-3+eof", "handshake-record"):
                    continue
                ref = senderr_outcome(role, data, eof, None, "gen", pin, client_hello=pre)
                ctx.count("senderr:reference:%s:%s" % (role, ref[1]))
                total = len(data) + (len(pre) if pre else 0)
                base = len(pre) if pre else 0
                scheds = [("all", [total])]
                scheds.append(("one", [1] * total))
                scheds.append(("wb-first", ["wb", total]))
                scheds.append(("wb-every-byte", ["wb", 1] * total))
                for p in range(0, len(data) + 1):
                    for k in (1, 2):
                        scheds.append(("split%d-wb%d" % (p, k), ([base + p] if base + p else []) + ["wb"] * k + [total]))
                    if 0 < p < len(data):
                        scheds.append(("split%d" % p, [base + p, total]))
                for i in range(n_rand):
                    ev, left = [], total
                    while left > 0:
                        ev.extend(["wb"] * rng.choice([0, 0, 1, 2, 3]))
                        c = rng.choice([1, 1, 2, 3, 5, 7, 40, 1000])
                        ev.append(c)
                        left -= c
                    scheds.append(("rand%d" % i, ev))
                for sname, sched in scheds:
                    for driver in ("gen", "asm", "blocking"):
                        if driver == "blocking" and not eof and ref[0] != "error":
                            continue          # a blocking call would spin on a socket that never delivers
                        rep = {"stage": "senderr", "role": role, "inflight": data.hex(), "inflight_name": name, "eof": eof,
                               "schedule": sched, "driver": driver, "pin_seed": pin.seed, "with_client_hello": bool(pre)}
                        try:
                            with Watchdog(60):
                                got = senderr_outcome(role, data, eof, sched, driver, pin, client_hello=pre)
                        except Hung:
                            pin.cur = None
                            got = ["hung", "none", None]
                        ctx.case(key=("senderr", role, name, sname, tuple(sched), driver), nontrivial=True,
                                 sample=dict(rep, outcome=got) if (sname == "split5-wb1" and name == "alert-40" and driver == "gen") else None)
                        ctx.count("senderr:%s" % driver)
                        if got != ref:
                            ctx.violation("c14:senderr-differs:%s" % driver,
                                          "%s handshake whose send fails (EPIPE) with %s in flight: outcome %s under recv schedule %s "
                                          "(%s driver), %s when everything is delivered at once"
                                          % (role, name, got, sched_str(sched, "c")[:80], driver, ref),
                                          dict(rep, outcome=got, reference=ref))


def sender_chunking_runs(ctx, pin):
    """directed family (not cut by any budget): the SENDER's chunking knobs must not change the
    outcome either.  conn.recordSize is set before the handshake on one endpoint to L, L-1, L+1 and
    L/2 for every length L handed to _sendMsg in a traced reference run (every handshake message,
    every coalesced TLS 1.3 flight, the application data), plus a few small sizes on both endpoints;
    record_size_limit is negotiated to values derived from the same lengths.  Everything except the
    wire framing (and the negotiated limits themselves) must equal the unconstrained run."""
    names = ["rsa-3.1", "ecdhe-3.3", "clientauth-3.3", "tls13-x25519", "clientauth-tls13"] + \
        (["resume-3.3", "resume-tls13", "rsa-3.0", "dhe-3.2"] if ctx.thorough() else [])
    allscn = {x["name"]: x for x in scenario_list(True)}
    for name in names:
        scn = allscn[name]
        ref = play_generators(scn, {"seed": 0}, pin)
        log = {}
        traced = play_generators(scn, {"seed": 0}, pin, sent_log=log)
        if diff_outcomes(ref, traced):
            raise RuntimeError("tracing the sent messages changed the outcome of %s" % name)
        plans = []
        lens_all = set()
        for who in ("client", "server"):
            lens = sorted(set(len(b) for kind, nm, b in log.get(who, []) if kind == "send" and len(b) > 0))
            lens_all.update(lens)
            sizes = set()
            for ln in lens:
                sizes.update([ln, ln - 1, ln + 1])
                if ln % 2 == 0:
                    sizes.add(ln // 2)
                if ln % 3 == 0:
                    sizes.add(ln // 3)
            for k in sorted(x for x in sizes if 1 <= x <= 16384):
                plans.append(({who: k}, scn))
        for k in ([1, 2, 3, 4, 7, 16, 32, 64] if not ctx.thorough() else list(range(1, 41)) + [64, 100, 1000]):
            plans.append(({"client": k, "server": k}, scn))
        # record_size_limit negotiated small (>= 64); TLS 1.3 counts the content type byte
        rsls = set()
        for ln in lens_all:
            for v in (ln, ln + 1, ln // 2, ln // 2 + 1, ln // 3, ln // 3 + 1, ln // 4, ln // 4 + 1):
                if 64 <= v <= 16384:
                    rsls.add(v)
        for v in sorted(rsls)[:ctx.pick(12, 1000)]:
            plans.append(({}, dict(scn, rsl=v)))
        ctx.count("sendsize:plans:" + name, len(plans))
        for record_size, scn2 in plans:
            spec = {"seed": 0, "record_size": record_size, "rsl": scn2.get("rsl")}
            live_compare(ctx, scn2, "sendsize", spec, ref, pin)


def asm_readiness_runs(ctx, pin):
    """directed family (never cut by a budget): application payloads spanning the whole record-size
    range, in both directions, received through AsyncStateMachine driven ONLY by real readiness
    events - inReadEvent is delivered only while the in-memory socket holds bytes, exactly what a
    select() loop / TLSAsyncDispatcherMixIn.readable() does; no polling of an empty socket.  Once the
    socket is drained every byte the peer wrote must have been handed to outReadEvent (the bare
    generators and the blocking read() deliver all of it)."""
    from harness import lab
    from tlslite.integration.asyncstatemachine import AsyncStateMachine

    class Collector(AsyncStateMachine):
        def __init__(self, conn):
            AsyncStateMachine.__init__(self)
            self.tlsConnection = conn
            self.got = bytearray()
            self.entry_bad = []

        def outReadEvent(self, b):
            if any((self.handshaker, self.closer, self.reader, self.writer)) or self.result is not None:
                self.entry_bad.append(1)
            self.got += b

    singles = [1, 2, 100, 4095, 4096, 4097, 8192, 16383, 16384, 16385, 20000, 32768, 40000]
    multis = [[16384, 16384, 1], [8192, 4097], [4097, 16384], [5000, 5000], [16385, 16385], [4096, 4096, 4096, 4096, 4096],
              [100, 100], [1, 1, 1], [3000, 1], [16384, 5]]
    allscn = {x["name"]: x for x in scenario_list(True)}
    bases = ["ecdhe-3.3", "tls13-x25519", "rsa-3.1"] + (["cbc-etm-3.3", "rsa-3.0", "tls13-chacha", "dhe-3.2"] if ctx.thorough() else [])
    recv_styles = ["none", "one", "rand", "wbk", "mid"]
    for name in bases:
        scn = allscn[name]
        plans = [([n], d) for n in singles for d in ("c2s", "s2c")] + [(m, d) for m in multis for d in ("c2s", "s2c")]
        for idx, (sizes, direction) in enumerate(plans):
            style = recv_styles[idx % len(recv_styles)] if sum(sizes) <= 20000 else ["none", "rand", "mid"][idx % 3]
            pin.reset()
            L = lab.Lab()
            c, sv = start_handshake(L, scn)
            L.start_client(c)
            L.start_server(sv)
            run_gens(L, pin)
            if not (L.client.state == "done" and L.server.state == "done"):
                ctx.count("asm-readiness:handshake-failed:" + name)
                continue
            sender, receiver = ("client", "server") if direction == "c2s" else ("server", "client")
            rx = "c2s" if receiver == "server" else "s2c"
            data = [payload(n, "%s|%d|%d" % (direction, n, i)) for i, n in enumerate(sizes)]
            L.end(receiver).sock.recv_schedule = sched_iter(style, idx, receiver + "r")
            m = Collector(L.end(receiver).conn)
            exc = None
            events = 0
            for d in data:                               # all writes back to back, then the reader is woken
                L.end(sender).start(L.end(sender).conn.writeAsync(d))
                run_gens(L, pin, only=(sender,))
            pin.cur = receiver
            try:
                while (L.link.q[rx] or m.wantsWriteEvent()) and events < 400000:
                    events += 1
                    if m.wantsWriteEvent():
                        m.inWriteEvent()
                    else:
                        m.inReadEvent()                  # readable: the socket holds bytes
            except BaseException as e:  # noqa: BLE001 - classified
                if isinstance(e, (KeyboardInterrupt, SystemExit, Hung)):
                    raise
                exc = e
            finally:
                pin.cur = None
            want = b"".join(data)
            conn = L.end(receiver).conn
            in_plain = len(conn._readBuffer)
            in_sock = len(conn.sock._read_buffer)
            ctx.case(key=("asm-readiness", name, tuple(sizes), direction, style), nontrivial=True,
                     sample={"scenario": name, "sizes": sizes, "direction": direction, "recv": style, "events": events}
                     if (name, tuple(sizes), direction) == ("ecdhe-3.3", (16385,), "c2s") else None)
            ctx.count("asm-readiness:" + ("single" if len(sizes) == 1 else "back-to-back"))
            if exc is None and bytes(m.got) == want and not m.entry_bad:
                continue
            rep = {"stage": "asm-readiness", "scenario": name, "sizes": sizes, "direction": direction, "recv_style": style,
                   "recv_seed": idx, "pin_seed": pin.seed, "delivered": len(m.got), "written": len(want),
                   "left_in_plaintext_buffer": in_plain, "left_in_bufferedsocket": in_sock,
                   "exception": lab.exc_class(exc), "events": events}
            if exc is not None:
                key, why = "c14:asm-readiness-raises", "raised %s" % lab.exc_class(exc)
            elif bytes(m.got) != want[:len(m.got)]:
                key, why = "c14:asm-readiness-wrong-data", "delivered different bytes"
            elif in_plain and m.result is None:
                key, why = ("c14:asm-read-event-leaves-plaintext-buffered",
                            "%d decrypted bytes stay in the connection's read buffer" % in_plain)
            elif in_sock and m.result is None:
                key, why = ("c14:asm-readahead-strands-records",
                            "%d bytes (complete records) stay in BufferedSocket's read-ahead buffer" % in_sock)
            else:
                key, why = "c14:asm-readiness-incomplete", "state %r" % (m.result,)
            ctx.violation(key, "scenario %s, %s writes %s bytes %s; AsyncStateMachine driven by read-readiness events only "
                          "delivered %d of %d bytes with the socket drained: %s (blocking read()/readAsync deliver everything)"
                          % (name, sender, sizes, "back to back" if len(sizes) > 1 else "in one call", len(m.got), len(want), why), rep)


def live_runs(ctx):
    rng = ctx.rng
    pin_seed = rng.randrange(1 << 30)
    scns = scenario_list(ctx.thorough())
    t_live = ctx.elapsed()
    with Pin(pin_seed) as pin:
        refs = {}
        for scn in scns:
            refs[scn["name"]] = play_generators(scn, {"seed": 0}, pin)
            ok = all(c["hs_client"][0] == "done" and c["hs_server"][0] == "done" for c in refs[scn["name"]]["conns"])
            if ok != (not scn.get("expect_fail")):
                ctx.count("live:reference-unexpected:" + scn["name"])
            # determinism of the harness itself: the reference run repeated must be identical
            again = play_generators(scn, {"seed": 0}, pin)
            if diff_outcomes(refs[scn["name"]], again):
                raise RuntimeError("reference run of %s is not reproducible under pinned randomness: %r"
                                   % (scn["name"], diff_outcomes(refs[scn["name"]], again)[:3]))
        ctx.extra["live_scenarios"] = {n: [c["hs_client"], c["hs_server"]] for n, r in refs.items() for c in r["conns"][-1:]}
        # directed families first, outside the time budget
        sender_chunking_runs(ctx, pin)
        asm_readiness_runs(ctx, pin)
        # every scenario under a few schedules; more as time allows
        round_no = 0
        while True:
            for scn in scns:
                if round_no > 0 and ctx.out_of_time(0.92):      # round 0 is the directed one: never cut
                    ctx.count("cut-by-budget:live-random")
                    break
                big = scn.get("d1", 0) > 10000
                ref = refs[scn["name"]]
                # (b1) generators under a transport schedule (+ random generator interleaving)
                styles = SCHED_STYLES if not big else ["rand", "wbk", "mid"]
                who = rng.choice(["client", "server", "both", "both"])
                spec = {"seed": rng.randrange(1 << 30)}
                for w in (("client", "server") if who == "both" else (who,)):
                    spec[w] = (rng.choice(styles + ["none"]), rng.choice(styles + ["none"]))
                if round_no == 0:
                    spec = {"seed": spec["seed"], "client": ("one", "one") if not big else ("mid", "rand"),
                            "server": ("one", "wbk") if not big else ("rand", "mid")}
                live_compare(ctx, scn, "gen", spec, ref, pin, order_seed=rng.randrange(1 << 30))
                # (c) re-framing of the plaintext handshake flights
                if round_no < 4 or rng.random() < 0.5:
                    style = ["one", "merge", "rand", "msgsplit"][round_no % 4]
                    live_compare(ctx, scn, "reframe", {"seed": 0}, ref, pin, reframe=(style, rng.randrange(1 << 30)))
                # (b2) AsyncStateMachine, (b3) blocking API in threads
                if round_no % 2 == 0 or ctx.thorough():
                    spec2 = {"seed": rng.randrange(1 << 30),
                             "client": (rng.choice(["none", "rand", "wbk", "mid"]), rng.choice(["none", "rand", "wb1"])),
                             "server": (rng.choice(["none", "rand", "wbk", "mid"]), rng.choice(["none", "rand", "wb1"]))}
                    live_compare(ctx, scn, "asm", spec2, ref, pin, order_seed=rng.randrange(1 << 30))
                if not (scn.get("ku") or scn.get("hb")):
                    spec4 = {"seed": rng.randrange(1 << 30),
                             "client": (rng.choice(["none", "one", "rand", "wbk", "mid"]), rng.choice(["none", "rand", "wb1"])),
                             "server": (rng.choice(["none", "one", "rand", "wbk", "mid"]), rng.choice(["none", "rand", "wb1"]))}
                    if round_no == 0:
                        spec4 = {"seed": spec4["seed"]}
                    if scn.get("d1", 0) > 10000:
                        spec4 = {"seed": spec4["seed"], "client": ("mid", "rand"), "server": ("rand", "mid")}
                    live_compare(ctx, scn, "asmcb", spec4, ref, pin, order_seed=rng.randrange(1 << 30))
                if len(ctx.violations) >= 8:
                    break
                if (round_no % 2 == 1 or ctx.thorough() or round_no == 0) and not ctx.extra.get("blocking_hung") \
                        and ctx.extra.get("blocking_slow", 0) < 2:
                    spec3 = {"seed": rng.randrange(1 << 30),
                             "client": (rng.choice(["none", "rand", "mid", "one" if not big else "mid"]), rng.choice(["none", "rand", "mid"])),
                             "server": (rng.choice(["none", "rand", "mid"]), rng.choice(["none", "rand", "mid"]))}
                    live_compare(ctx, scn, "blocking", spec3, ref, pin)
            round_no += 1
            if len(ctx.violations) >= 8:
                break
            if ctx.out_of_time(0.92):
                ctx.count("cut-by-budget:live-random")
            if ctx.out_of_time(0.92) or round_no >= ctx.pick(4, 80):
                break
    ctx.extra["live_rounds"] = round_no
    ctx.extra["live_seconds"] = round(ctx.elapsed() - t_live, 1)


# =============================================================================================
def run(ctx):
    ctx.rule = ("(a) scripted schedules (all-at-once, 1-byte, two/three-way splits at every position, header split 1+4, "
                "random chunks, 0-3 would-blocks between events, EOF/error at every byte position, partial accepts incl. 0) x "
                "raw/BufferedSocket x SSLv3/SSLv2/malformed/oversized records; BufferedSocket recv/send/sendall/flush/"
                "buffer_writes sequences; random Defragmenter configurations and op sequences; plaintext record streams "
                "(handshake/alert/CCS/app data/heartbeat interleaved, zero-length records) through a fresh "
                "TLSConnection._getNextRecord; AsyncStateMachine op sequences (all pairs + random walks). "
                "(b) live conversations (handshake, data both ways, close; SSLv3..TLS1.3, RSA/DHE/ECDHE/ECDSA/SRP/anon, "
                "client auth, session-id/ticket/PSK resumption, HRR, KeyUpdate, heartbeat, two-way close, small records, "
                "40 kB transfers, version negotiation, a failing negotiation) under seeded recv/send schedules on either or "
                "both endpoints and seeded generator interleavings, driven as generators, through AsyncStateMachine and "
                "through the blocking API in threads, each compared with the unconstrained generator run under pinned "
                "per-endpoint randomness and clock (all lab.observe fields incl. secrets, data, exception classes, wire "
                "bytes); (c) on-path re-framing of the plaintext handshake flights: 1-byte records, random sizes, whole "
                "flight in one record, cuts inside message headers. distinct = distinct (scenario, driver, schedule); "
                "non-trivial = every live run and every (a) case")
    ctx.assumptions = ["ScriptSock (harness/props/c14.py) has the semantics of Tls.IO.Sock: one event per recv()/send() call",
                       "socket.sendall has blocking semantics (BufferedSocket.flush); partial accepts apply to send() only",
                       "randomness (os.urandom) and the clock are pinned per endpoint in the live differential runs",
                       "framings the protocol forbids are not generated: zero-length handshake fragments, handshake data "
                       "interleaved with other content types inside a message, fragments spanning a key change "
                       "(records after ChangeCipherSpec are left untouched by the re-framer)",
                       "BufferedSocket write order is stated under the callers' discipline: buffer_writes is switched off "
                       "only right after flush() (what _sendMsgs/_sendError do)"]
    ctx.extra["not_modelled"] = ["record protection in the Lean model (live runs use the real ciphers)",
                                 "MessageSocket.recvMessage/queueMessage bodies (only their blocking wrappers' shape)",
                                 "the TLS 1.3 record-boundary alignment check and message parsing in _getMsg",
                                 "socket.sendall partial acceptance; OS-level thread interleavings beyond those observed",
                                 "interleaved content types in the Lean refragmentation theorem (covered by correspondence)"]
    ctx.budget_s = ctx.pick(170, 1150)
    P = Pending(ctx)
    check_wrappers(ctx)
    corr_recordsocket(ctx, P)
    corr_send(ctx, P)
    corr_bufferedsocket(ctx, P)
    corr_defragmenter(ctx, P)
    corr_getnextrecord(ctx, P)
    corr_asm(ctx, P)
    corr_fragment(ctx, P)
    corr_alertpeek(ctx, P)
    senderr_runs(ctx)
    live_runs(ctx)


def replay(ctx, rep):
    inp = rep.get("input", {})
    if inp.get("stage") == "asm-readiness":
        with Pin(inp["pin_seed"]) as pin:
            asm_readiness_runs(ctx, pin)
        for v in ctx.violations:
            print(v["what"])
        return any(v["key"] == rep.get("key") for v in ctx.violations)
    if inp.get("stage") == "senderr":
        with Pin(inp["pin_seed"]) as pin:
            ch = None
            if inp.get("with_client_hello"):
                from harness import lab
                L0 = lab.Lab()
                L0.start_client(lambda c: c.handshakeClientCert(settings=lab.settings(minv=(3, 1), maxv=(3, 3)), async_=True))
                pin.cur = "client"
                L0.run(only=("client",))
                pin.cur = None
                ch = b"".join(L0.link.wire_log["c2s"])
            data = bytes.fromhex(inp["inflight"])
            ref = senderr_outcome(inp["role"], data, inp["eof"], None, "gen", pin, client_hello=ch)
            got = senderr_outcome(inp["role"], data, inp["eof"], inp["schedule"], inp["driver"], pin, client_hello=ch)
        print("all at once:", ref, " under the schedule:", got)
        return got != ref
    if inp.get("stage") == "live":
        scn = [x for x in scenario_list(True) if x["name"] == inp["scenario"]][0]
        base = scn
        if inp.get("kind") == "sendsize" and inp["schedule"].get("rsl"):
            scn = dict(scn, rsl=inp["schedule"]["rsl"])
        with Pin(inp["pin_seed"]) as pin:
            ref = play_generators(base, {"seed": 0}, pin)
            reframe = tuple(inp["reframe"]) if inp.get("reframe") else None
            got = live_compare(ctx, scn, inp["kind"], inp["schedule"], ref, pin, order_seed=inp.get("order_seed"),
                               reframe=reframe)
        for v in ctx.violations:
            print(v["what"])
            for d in v["replay"].get("differences", [])[:6]:
                print("   ", d[0], ":", repr(d[1])[:100], "|", repr(d[2])[:100])
        return bool(ctx.violations)
    print("replay of stage %r: re-running the model/implementation correspondence and its oracles" % inp.get("stage"))
    import random
    ctx.rng = random.Random(rep.get("seed", ctx.seed))
    ctx.tier = rep.get("tier", ctx.tier)
    P = Pending(ctx)
    corr_recordsocket(ctx, P)
    corr_send(ctx, P)
    corr_bufferedsocket(ctx, P)
    corr_defragmenter(ctx, P)
    corr_getnextrecord(ctx, P)
    corr_asm(ctx, P)
    corr_fragment(ctx, P)
    corr_alertpeek(ctx, P)
    for d in ctx.disagreements[:5]:
        print("disagreement", d["stream"], "model:", d["model"], "impl:", d["impl"])
    return bool(ctx.violations or ctx.disagreements)
