"""The lab: two live TLSConnection endpoints joined by harness.memsock, driven as generators.

    lab = Lab()                       # link + two TLSConnection objects
    lab.start_client(lambda c: c.handshakeClientCert(settings=..., async_=True))
    lab.start_server(lambda c: c.handshakeServerAsync(certChain=..., privateKey=..., settings=...))
    lab.run()                         # alternate the generators until both finish / fail / stall
    lab.client.state in {'done','error','stall'}; lab.client.exc; lab.client.conn

run_op(lab, 'client', gen) drives one more generator (e.g. conn.writeAsync(b)) to completion while
letting the other side's pending generator (if any) make progress.
"""
import os
import socket

from . import memsock
from .core import REPO


class End(object):
    def __init__(self, name, conn, sock):
        self.name = name
        self.conn = conn
        self.sock = sock
        self.gen = None
        self.state = "idle"        # idle / running / done / error
        self.exc = None
        self.result = None
        self.steps = 0
        self.yields = []           # sequence of 0/1 yielded by the current generator

    def start(self, gen):
        self.gen = gen
        self.state = "running"
        self.exc = None
        self.result = None
        self.yields = []

    def step(self):
        """advance the generator one step; returns True if it is still running"""
        if self.state != "running":
            return False
        self.steps += 1
        try:
            r = next(self.gen)
            if r in (0, 1):
                self.yields.append(r)
            else:
                self.result = r
            return True
        except StopIteration as s:
            self.state = "done"
            if getattr(s, "value", None) is not None:
                self.result = s.value
            return False
        except BaseException as e:  # noqa: B902 - recorded, classified by the oracle
            if isinstance(e, (KeyboardInterrupt, SystemExit, MemoryError)):
                raise
            self.state = "error"
            self.exc = e
            return False


class Lab(object):
    def __init__(self):
        from tlslite.tlsconnection import TLSConnection
        self.link, cs, ss = memsock.pair()
        self.client = End("client", TLSConnection(cs), cs)
        self.server = End("server", TLSConnection(ss), ss)
        self.max_steps = 200000
        self.stalled = False

    def end(self, name):
        return self.client if name == "client" else self.server

    def start_client(self, mk):
        self.client.start(mk(self.client.conn))

    def start_server(self, mk):
        self.server.start(mk(self.server.conn))

    def run(self, order=("client", "server"), only=None):
        """alternate the running generators until none is running, or nothing can progress"""
        self.stalled = False
        idle_rounds = 0
        total = 0
        # a generator that stalled earlier (waiting for input) is resumed by a later run()
        for e in (self.client, self.server):
            if e.state == "stall" and e.gen is not None and (only is None or e.name in only):
                e.state = "running"
        while True:
            running = [e for e in (self.end(order[0]), self.end(order[1]))
                       if e.state == "running" and (only is None or e.name in only)]
            if not running:
                return
            before = self.link.activity
            alive = False
            for e in running:
                if e.step():
                    alive = True
                total += 1
            if total > self.max_steps:
                self.stalled = True
                for e in running:
                    if e.state == "running":
                        e.state = "stall"
                return
            if self.link.activity == before and alive:
                idle_rounds += 1
                if idle_rounds >= 3:
                    # everybody waits for input that will never come
                    self.stalled = True
                    for e in running:
                        if e.state == "running":
                            e.state = "stall"
                    return
            else:
                idle_rounds = 0

    def op(self, who, gen, pump_other=True):
        """run generator `gen` (e.g. conn.writeAsync(data)) on endpoint `who` to completion.
        Returns ('ok', result) or ('error', exc) or ('stall', None)."""
        e = self.end(who)
        e.start(gen)
        self.run(only=(who,) if not pump_other else None)
        if e.state == "done":
            return ("ok", e.result)
        if e.state == "error":
            return ("error", e.exc)
        return ("stall", None)

    def read(self, who, max=None, min=1):
        """readAsync to completion; returns ('ok', bytes) / ('error', exc) / ('stall', None)"""
        e = self.end(who)
        e.start(e.conn.readAsync(max=max, min=min))
        self.run(only=(who,))
        if e.state == "done" or (e.state == "running"):
            return ("ok", bytes(e.result) if e.result is not None else None)
        if e.state == "error":
            return ("error", e.exc)
        # waiting for more input: readAsync yields 0 forever when nothing is there
        return ("stall", None)

    def write(self, who, data):
        e = self.end(who)
        e.start(e.conn.writeAsync(data))
        self.run(only=(who,))
        if e.state == "done":
            return ("ok", None)
        if e.state == "error":
            return ("error", e.exc)
        return ("stall", None)


# ---------------------------------------------------------------------------------------------
# credentials from the repository's tests directory
_CREDS = {}

CRED_FILES = {
    "rsa": ("serverX509Cert.pem", "serverX509Key.pem"),
    "rsapss": ("serverRSAPSSCert.pem", "serverRSAPSSKey.pem"),
    "ecdsa": ("serverECCert.pem", "serverECKey.pem"),
    "ecdsa384": ("serverP384ECCert.pem", "serverP384ECKey.pem"),
    "ecdsa521": ("serverP521ECCert.pem", "serverP521ECKey.pem"),
    "ed25519": ("serverEd25519Cert.pem", "serverEd25519Key.pem"),
    "ed448": ("serverEd448Cert.pem", "serverEd448Key.pem"),
    "dsa": ("serverDSACert.pem", "serverDSAKey.pem"),
    "brainpool256": ("serverBrainpoolP256r1ECCert.pem", "serverBrainpoolP256r1ECKey.pem"),
    "client_rsa": ("clientX509Cert.pem", "clientX509Key.pem"),
    "client_ecdsa": ("clientECCert.pem", "clientECKey.pem"),
    "client_ed25519": ("clientEd25519Cert.pem", "clientEd25519Key.pem"),
    "client_dsa": ("clientDSACert.pem", "clientDSAKey.pem"),
}


def creds(kind):
    """(X509CertChain, private key) for a credential kind; cached"""
    if kind not in _CREDS:
        from tlslite.api import X509, X509CertChain, parsePEMKey
        cf, kf = CRED_FILES[kind]
        d = os.path.join(REPO, "tests")
        with open(os.path.join(d, cf)) as f:
            x = X509()
            x.parse(f.read())
        with open(os.path.join(d, kf)) as f:
            key = parsePEMKey(f.read(), private=True, implementations=["python"])
        _CREDS[kind] = (X509CertChain([x]), key)
    return _CREDS[kind]


def settings(minv=None, maxv=None, **kw):
    from tlslite.handshakesettings import HandshakeSettings
    s = HandshakeSettings()
    if minv is not None:
        s.minVersion = minv
    if maxv is not None:
        s.maxVersion = maxv
    for k, v in kw.items():
        if not hasattr(s, k):
            raise AttributeError("HandshakeSettings has no field " + k)
        setattr(s, k, v)
    return s


def handshake(csettings=None, ssettings=None, cred="rsa", client_kw=None, server_kw=None,
              lab=None, before_run=None):
    """full certificate handshake on a fresh Lab; returns the lab (inspect lab.client/.server)"""
    lab = lab or Lab()
    chain, key = creds(cred)
    ckw = dict(client_kw or {})
    skw = dict(server_kw or {})
    lab.start_client(lambda c: c.handshakeClientCert(settings=csettings, async_=True, **ckw))
    lab.start_server(lambda c: c.handshakeServerAsync(certChain=chain, privateKey=key,
                                                       settings=ssettings, **skw))
    if before_run:
        before_run(lab)
    lab.run()
    return lab


def exc_class(e):
    """canonical small enum for an exception raised by a tlslite call"""
    if e is None:
        return "none"
    from tlslite import errors
    n = type(e).__name__
    if isinstance(e, errors.TLSLocalAlert):
        return "local_alert:%s" % e.description
    if isinstance(e, errors.TLSRemoteAlert):
        return "remote_alert:%s" % e.description
    if isinstance(e, errors.TLSAbruptCloseError):
        return "abrupt_close"
    if isinstance(e, errors.TLSClosedConnectionError):
        return "closed_connection"
    if isinstance(e, errors.TLSError):
        return "tls_error:" + n
    if isinstance(e, socket.error):
        return "socket_error"
    return "python:" + n


# ---------------------------------------------------------------------------------------------
# message-level editing of what an endpoint sends (a cooperating faulty peer)
def hook_messages(conn, fn):
    """fn(kind, msg) -> list of messages to send instead of `msg` (may be [], [msg], [msg, msg],
    or other message objects).  kind is 'send' for _sendMsg and 'queue' for _queue_message
    (TLS 1.3 flights are queued and flushed as one record stream).  The endpoint's own transcript
    hash is updated with what is actually sent (the hook sits in front of the original methods)."""
    orig_send = conn._sendMsg
    orig_queue = conn._queue_message

    def send(msg, randomizeFirstBlock=True, update_hashes=True):
        for m in fn("send", msg):
            for r in orig_send(m, randomizeFirstBlock, update_hashes):
                yield r

    def queue(msg):
        for m in fn("queue", msg):
            orig_queue(m)

    conn._sendMsg = send
    conn._queue_message = queue
    return conn


def msg_name(msg):
    """short stable name of a message object: 'handshake:client_hello', 'change_cipher_spec', ..."""
    from tlslite.constants import ContentType, HandshakeType
    ct = getattr(msg, "contentType", None)
    if ct == ContentType.handshake:
        ht = getattr(msg, "handshakeType", None)
        if ht is None:
            try:
                ht = msg.write()[0]
            except Exception:
                ht = -1
        return "handshake:" + HandshakeType.toStr(ht)
    return ContentType.toStr(ct)


def trace_messages(conn, log):
    """append (name, serialized bytes) of every message the endpoint sends to `log`"""
    def fn(kind, msg):
        try:
            log.append((kind, msg_name(msg), bytes(msg.write())))
        except Exception as e:
            log.append((kind, "unserialisable:" + type(e).__name__, b""))
        return [msg]
    return hook_messages(conn, fn)


def observe(conn):
    """field-by-field view of a connection after a handshake (for C03/C04/C13 style comparisons)"""
    s = conn.session
    o = {
        "version": tuple(conn.version) if conn.version else None,
        "closed": conn.closed,
        "resumed": conn.resumed,
        "etm": getattr(conn, "encryptThenMAC", None),
        "ems": getattr(conn, "extendedMasterSecret", None),
        "ecdhCurve": getattr(conn, "ecdhCurve", None),
        "dhGroupSize": getattr(conn, "dhGroupSize", None),
        "serverSigAlg": getattr(conn, "serverSigAlg", None),
        "send_limit": conn._send_record_limit,
        "recv_limit": conn._recv_record_limit,
    }
    if s is not None:
        o.update({
            "cipherSuite": s.cipherSuite,
            "masterSecret": bytes(s.masterSecret) if s.masterSecret else None,
            "cl_app_secret": bytes(s.cl_app_secret) if getattr(s, "cl_app_secret", None) else None,
            "sr_app_secret": bytes(s.sr_app_secret) if getattr(s, "sr_app_secret", None) else None,
            "exporterMasterSecret": bytes(s.exporterMasterSecret) if getattr(s, "exporterMasterSecret", None) else None,
            "resumptionMasterSecret": bytes(s.resumptionMasterSecret) if getattr(s, "resumptionMasterSecret", None) else None,
            "sessionID": bytes(s.sessionID) if s.sessionID else None,
            "srpUsername": s.srpUsername,
            "serverName": s.serverName,
            "appProto": bytes(s.appProto) if s.appProto else None,
            "session_ems": s.extendedMasterSecret,
            "session_etm": s.encryptThenMAC,
            "resumable": s.resumable,
            "clientCertChain": [bytes(c.bytes) for c in s.clientCertChain.x509List] if s.clientCertChain else None,
            "serverCertChain": [bytes(c.bytes) for c in s.serverCertChain.x509List] if s.serverCertChain else None,
        })
    return o
