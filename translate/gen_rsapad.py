"""tlslite/utils/rsakey.py (class RSAKey: PKCS#1 v1.5 and PSS padding, sign/verify glue)
   -> lean/TlsModel/Gen/RsaPad.lean   (C10)

Statement-by-statement translation (core: translate/pyfrag.py) of

    _raw_public_key_op_bytes, _raw_private_key_op_bytes, _addPKCS1Padding (block type 1 and the random
    type 2 path), addPKCS1SHA1Prefix, addPKCS1Prefix (with the class attribute `_pkcs1Prefixes` read
    from the class body), _raw_pkcs1_verify, _raw_pkcs1_sign, MGF1, EMSA_PSS_encode, EMSA_PSS_verify,
    RSASSA_PSS_sign, RSASSA_PSS_verify, sign, verify, hashAndSign, hashAndVerify

Parameters of the runtime model (TlsModel/PyExc.lean, `RsaSelf`): `_rawPublicKeyOp`, `_rawPrivateKeyOp`
(python_rsakey.py), `secureHash(data, name)`, `getattr(hashlib, name)().digest_size`,
`getRandomBytes(n)`.  numBits/numBytes/bytesToNumber/numberToByteArray are the `PyE` definitions that
Props/C10.lean proves equal to the regenerated cryptomath.py; divceil is the regenerated one itself.
"""
import ast
import os

from . import pyfrag, gen_rsadecrypt
from .gen_ct import ident, LEAN_TYPE

RSAKEY = "tlslite/utils/rsakey.py"
CRYPTOMATH = "tlslite/utils/cryptomath.py"
LEAN_TYPE.update({"cls": "Unit"})

S, B, I, ST, OS, OI, BO = "rsaself", "bytes", "int", "str", "optstr", "optint", "bool"
# (name, parameters, kinds, result, decorator)
FUNCS = [
    ("_raw_public_key_op_bytes", ["self", "ciphertext"], [S, B], B, None),
    ("_raw_private_key_op_bytes", ["self", "message"], [S, B], B, None),
    ("_addPKCS1Padding", ["self", "bytes", "blockType"], [S, B, I], B, None),
    ("addPKCS1SHA1Prefix", ["cls", "hashBytes", "withNULL"], ["cls", B, BO], B, "classmethod"),
    ("addPKCS1Prefix", ["cls", "data", "hashName"], ["cls", B, ST], B, "classmethod"),
    ("_raw_pkcs1_verify", ["self", "sigBytes", "bytes"], [S, B, B], BO, None),
    ("_raw_pkcs1_sign", ["self", "bytes"], [S, B], B, None),
    ("MGF1", ["self", "mgfSeed", "maskLen", "hAlg"], [S, B, I, ST], B, None),
    ("EMSA_PSS_encode", ["self", "mHash", "emBits", "hAlg", "sLen"], [S, B, I, ST, I], B, None),
    ("EMSA_PSS_verify", ["self", "mHash", "EM", "emBits", "hAlg", "sLen"], [S, B, B, I, ST, I], BO, None),
    ("RSASSA_PSS_sign", ["self", "mHash", "hAlg", "sLen"], [S, B, ST, I], B, None),
    ("RSASSA_PSS_verify", ["self", "mHash", "S", "hAlg", "sLen"], [S, B, B, ST, I], BO, None),
    ("sign", ["self", "bytes", "padding", "hashAlg", "saltLen"], [S, B, ST, OS, OI], B, None),
    ("verify", ["self", "sigBytes", "bytes", "padding", "hashAlg", "saltLen"], [S, B, B, ST, OS, OI], BO, None),
    ("hashAndSign", ["self", "bytes", "rsaScheme", "hAlg", "sLen"], [S, B, ST, ST, I], B, None),
    ("hashAndVerify", ["self", "sigBytes", "bytes", "rsaScheme", "hAlg", "sLen"], [S, B, B, ST, ST, I], BO, None),
]
PARAMS = ["numBits", "numBytes", "bytesToNumber", "numberToByteArray"]


class Translator(pyfrag.Translator):
    def lean_name(self, name):
        return ident(name)

    def allowed_decorators(self, name):
        return [d for n, _, _, _, d in FUNCS if n == name and d]

    def attribute(self, fn, e, kind):
        if kind == "cls" and e.attr == "_pkcs1Prefixes" and self.prefix_table:
            return "pkcs1Prefixes", "dict"
        return None

    def subscript(self, fn, e):
        v = e.value
        if isinstance(v, ast.Attribute) and isinstance(v.value, ast.Name) and fn.env.get(v.value.id) == "cls" \
                and v.attr == "_pkcs1Prefixes" and self.prefix_table and not isinstance(e.slice, ast.Slice):
            k, _ = fn.expr(e.slice, "str")
            return "(← PyE.dictGet pkcs1Prefixes %s)" % k, "bytes"
        return None

    def call(self, fn, e):
        f = e.func
        na = len(e.args)
        if isinstance(f, ast.Attribute) and isinstance(f.value, ast.Name):
            k = fn.env.get(f.value.id)
            x = ident(f.value.id)
            if k == "rsaself" and f.attr == "_rawPublicKeyOp" and na == 1 and not e.keywords:
                return "(%s.pubOp %s)" % (x, fn.expr(e.args[0], "int")[0]), "int"
            if k in ("rsaself", "cls") and f.attr in self.funcs:
                recv = self.funcs[f.attr][5]
                # a classmethod may be called on the instance
                return fn.call_fn(e, f.attr, "()" if recv == "cls" else (x if k == "rsaself" else None))
            # getattr(hashlib, hAlg)().digest_size is an Attribute, handled in `attribute_any`
        if isinstance(f, ast.Name) and f.id not in fn.env:
            n = f.id
            if n in PARAMS and n in self.cryptomath_ok and not e.keywords:
                if n in ("numBits", "numBytes") and na == 1:
                    return "(PyE.%s %s)" % (n, fn.expr(e.args[0], "int")[0]), "int"
                if n == "bytesToNumber" and na == 1:
                    return "(PyE.bytesToNumber %s)" % fn.expr(e.args[0], "bytes")[0], "int"
                if n == "numberToByteArray" and na == 2:
                    return "(← PyE.numberToByteArray %s %s)" % (fn.expr(e.args[0], "int")[0],
                                                                fn.expr(e.args[1], "int")[0]), "bytes"
            if n == "divceil" and n in self.cryptomath_ok and na == 2 and not e.keywords:
                return "(← Tls.Cryptomath.Gen.divceil %s %s)" % (fn.expr(e.args[0], "int")[0],
                                                                 fn.expr(e.args[1], "int")[0]), "int"
            if n == "secureHash" and n in self.cryptomath_ok and na == 2 and not e.keywords \
                    and fn.env.get("self") == "rsaself":
                d, _ = fn.expr(e.args[0], "bytes")
                a, _ = fn.expr(e.args[1], "str")
                return "(self.hashFn %s %s)" % (a, d), "bytes"
            if n == "getRandomBytes" and n in self.cryptomath_ok and na == 1 and not e.keywords \
                    and fn.env.get("self") == "rsaself":
                return "(self.random %s)" % fn.expr(e.args[0], "int")[0], "bytes"
        return None

    def generate(self):
        out = ["/- GENERATED by translate/gen_rsapad.py from %s of the tree under check; do not edit." % RSAKEY,
               "   Statement-by-statement translation into the Python-runtime model",
               "   TlsModel/PyInt.lean + TlsModel/PyExc.lean; poison marks what the translator did not understand. -/",
               "import TlsModel.PyExc",
               "import TlsModel.Gen.Cryptomath",
               "set_option linter.unusedVariables false",
               "namespace Tls.RsaPad.Gen",
               "open Tls Tls.CT",
               ""]
        tree = self.parse(RSAKEY)
        cm = self.parse(CRYPTOMATH)
        helper = gen_rsadecrypt.Translator(self.repo)
        bound, imported, stars = helper.scan_module(tree, RSAKEY)
        cm_bound, _, _ = helper.scan_module(cm, CRYPTOMATH)
        for n in PARAMS + ["divceil", "secureHash", "getRandomBytes"]:
            via = (stars == ["cryptomath"] and n not in imported) or imported.get(n) == ("cryptomath", n)
            if via and n in cm_bound and n not in bound:
                self.cryptomath_ok.add(n)
            else:
                self.problems.append("%s does not resolve to cryptomath.%s in rsakey.py" % (n, n))
        errs = {"InvalidSignature", "EncodingError", "MessageTooLongError", "MaskTooLongError", "UnknownRSAType"}
        for n in sorted(errs):
            if imported.get(n) != ("errors", n) or n in bound:
                self.problems.append("%s is not tlslite.errors.%s" % (n, n))
        hashlib_ok = imported.get("hashlib") == ("", "tlshashlib") or imported.get("hashlib") == (None, "tlshashlib")
        self.module_names = (set(bound) | set(imported)) - self.cryptomath_ok - errs
        cls = [c for c in tree.body if isinstance(c, ast.ClassDef) and c.name == "RSAKey"]
        cls = cls[0] if len(cls) == 1 else None
        # ---- the class attribute _pkcs1Prefixes
        self.prefix_table = None
        if cls is not None:
            asg = [s for s in cls.body if isinstance(s, ast.Assign) and any(
                isinstance(t, ast.Name) and t.id == "_pkcs1Prefixes" for t in s.targets)]
            if len(asg) == 1 and isinstance(asg[0].value, ast.Dict):
                tab = {}
                good = True
                for k, v in zip(asg[0].value.keys, asg[0].value.values):
                    if not (isinstance(k, ast.Constant) and isinstance(k.value, str) and isinstance(v, ast.Call)
                            and isinstance(v.func, ast.Name) and v.func.id == "bytearray" and len(v.args) == 1
                            and isinstance(v.args[0], ast.List) and not v.keywords
                            and all(isinstance(x, ast.Constant) and type(x.value) is int and 0 <= x.value < 256
                                    for x in v.args[0].elts)) or k.value in tab:
                        good = False
                        break
                    tab[k.value] = [x.value for x in v.args[0].elts]
                if good:
                    self.prefix_table = tab
        if self.prefix_table is None:
            self.problems.append("_pkcs1Prefixes is not a dict literal of bytearray([...]) values")
        out.append("/-- `RSAKey._pkcs1Prefixes` (dict literal of the class body), sorted by key -/")
        out.append("def pkcs1Prefixes : List (String × Bytes) := [%s]" % ", ".join(
            '("%s", [%s])' % (k, ", ".join(str(b) for b in v)) for k, v in sorted((self.prefix_table or {}).items())))
        out.append("")
        translated = []
        for name, params, kinds, res, deco in FUNCS:
            fn = None
            if cls is not None:
                ms = [m for m in cls.body if isinstance(m, ast.FunctionDef) and m.name == name]
                others = [n for st in cls.body if not isinstance(st, ast.FunctionDef) for n in ast.walk(st)
                          if isinstance(n, ast.Name) and isinstance(n.ctx, ast.Store) and n.id == name]
                if len(ms) == 1 and not others:
                    fn = ms[0]
                    decs = [d.id if isinstance(d, ast.Name) else "?" for d in fn.decorator_list]
                    if decs != ([deco] if deco else []):
                        fn = None
            ok = self.emit_function(out, RSAKEY, "RSAKey." + name, name, fn, params, kinds, res,
                                    recv_kind=kinds[0], fnclass=PadFn)
            translated.append((name, ok))
        self.footer(out, translated)
        out.append("end Tls.RsaPad.Gen")
        return "\n".join(out) + "\n"


class PadFn(pyfrag.Fn):
    def _expr(self, e):
        # getattr(hashlib, hAlg)().digest_size
        if isinstance(e, ast.Attribute) and e.attr == "digest_size" and isinstance(e.value, ast.Call) \
                and not e.value.args and not e.value.keywords and isinstance(e.value.func, ast.Call) \
                and isinstance(e.value.func.func, ast.Name) and e.value.func.func.id == "getattr" \
                and self.global_ok("getattr") and len(e.value.func.args) == 2 and not e.value.func.keywords \
                and isinstance(e.value.func.args[0], ast.Name) and e.value.func.args[0].id == "hashlib" \
                and "hashlib" not in self.env and self.env.get("self") == "rsaself":
            a, _ = self.expr(e.value.func.args[1], "str")
            return "(← PyE.getDigestSize self %s)" % a, "int"
        return pyfrag.Fn._expr(self, e)

    def compare(self, e):
        # hashName in cls._pkcs1Prefixes
        if len(e.ops) == 1 and isinstance(e.ops[0], (ast.In, ast.NotIn)):
            r = e.comparators[0]
            if isinstance(r, ast.Attribute) and isinstance(r.value, ast.Name) and self.env.get(r.value.id) == "cls" \
                    and r.attr == "_pkcs1Prefixes" and self.tr.prefix_table:
                k, _ = self.expr(e.left, "str")
                t = "(PyE.dictHas pkcs1Prefixes %s)" % k
                return (t if isinstance(e.ops[0], ast.In) else "(!%s)" % t), "bool"
        return pyfrag.Fn.compare(self, e)

    def block(self, stmts, ind, cont):
        # `assert c` -> AssertionError
        out = []
        for k, s in enumerate(stmts):
            if isinstance(s, ast.Assert) and s.msg is None and not (cont is not None and not isinstance(cont, str)
                                                                    and self.in_pure(cont)):
                c, _ = self.expr(s.test, "bool")
                pre = pyfrag.Fn.block(self, stmts[:k], ind, "\0")
                if pre and pre[-1] == ind + "\0":
                    out = pre[:-1]
                    out.append(ind + "if (!%s) then PyE.raise PyE.Err.assertionError else do" % c)
                    out += self.block(stmts[k + 1:], ind, cont)
                    return out
        return pyfrag.Fn.block(self, stmts, ind, cont)


def generate(repo):
    return {"TlsModel/Gen/RsaPad.lean": Translator(repo).generate()}


if __name__ == "__main__":
    import sys
    sys.stdout.write(generate(sys.argv[1] if len(sys.argv) > 1 else os.environ.get("VERIF_REPO", "/repo"))
                     ["TlsModel/Gen/RsaPad.lean"])
