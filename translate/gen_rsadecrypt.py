"""tlslite/utils/rsakey.py (RSAKey._raw_private_key_op_bytes, _dec_prf, decrypt) and
tlslite/keyexchange.py (RSAKeyExchange.processClientKeyExchange)
   -> lean/TlsModel/Gen/RsaDecrypt.lean   (C11)

Statement-by-statement translation of the implicit-rejection decryption path from the Python AST of
the tree under check into Lean `do` blocks in `Tls.PyE.M` (= Except Err) over the Python-runtime
model TlsModel/PyInt.lean + TlsModel/PyExc.lean.  On top of what translate/gen_ct.py understands:

    if c: raise E(...)           ->  if c' then PyE.raise .e else do <rest>
    try: x = CALL                ->  let r ← PyE.attempt CALL' .valueError
    except ValueError: return v      if r.isNone then pure v' else do  let x ← PyE.getSome r
    while c: BODY                ->  let s ← PyE.whileLoop (fun s => c') (fun s => do BODY'; pure s) fuel s
                                     (`fuel : Nat` becomes the first parameter of the function)
    it = iter(b) / enumerate(b)  ->  the list of items not yet consumed
    a, b = next(it)              ->  let nx ← PyE.next it; a := nx.1.1; b := nx.1.2; it := nx.2
    for a, b in zip(it, it)      ->  PyE.forInL (PyE.zipSelf it) …   (it is gone afterwards)
    for a, b in it               ->  PyE.forInL it …                 (it is gone afterwards)
    bytearray(e for x, y in zip(A, B))  ->  bytearrayOfInts ((PyE.zipBytes A' B').map fun xy => e')
    self.n/.d/.key_type, self.hasPrivateKey(), self._rawPrivateKeyOp(x), the `_key_hash` cache
    (`not hasattr(self, '_key_hash') or not self._key_hash`, `self._key_hash = e`, `self._key_hash`),
    secureHash(b, "sha256"), secureHMAC(k, b, "sha256"), numBits, numBytes, bytesToNumber,
    numberToByteArray(x, k), bytes `+`/`+=`, b"…" literals, `%`/`//` by a positive literal,
    self.<translated method>(…), getRandomBytes(48), `not x`/len/x[i] on bytearray-or-None.

The ct_* helpers are the ones translate/gen_ct.py generates (Tls.CT.Gen); rsakey.py must import
them from .constanttime.  cryptomath's numBits/numBytes/bytesToNumber/numberToByteArray/secureHash/
secureHMAC/getRandomBytes and python_rsakey's _rawPrivateKeyOp are parameters of the runtime model
(they must reach rsakey.py through `from .cryptomath import *` and be top-level names there).
Whatever is not understood becomes poison (`Err.other`), a missing or re-shaped function a
constant poison with the expected signature, so the obligations `Gen.f … = …` of Props/C11.lean fail.
"""
import ast
import os

from . import gen_ct
from .gen_ct import ident, LEAN_TYPE

RSAKEY = "tlslite/utils/rsakey.py"
KEX = "tlslite/keyexchange.py"
CRYPTOMATH = "tlslite/utils/cryptomath.py"

gen_ct.RESERVED.update(["_", "fuel", "nx", "PyE", "raise", "self_"])
LEAN_TYPE.update({
    "rsaself": "PyE.RsaSelf", "kexself": "PyE.KexSelf", "optbytes": "(Option Bytes)", "str": "String",
    "byteiter": "(List Int)", "enumiter": "(List (Int × Int))", "cke": "Bytes",
})

CT_HELPERS = {n: (p, k, r) for n, p, k, r in gen_ct.EXPECT if n != "ct_check_cbc_mac_and_pad"}
CRYPTOMATH_NAMES = ["numBits", "numBytes", "bytesToNumber", "numberToByteArray", "secureHash", "secureHMAC"]

# (file, class, function, parameter names, kinds, result kind)
EXPECT = [
    (RSAKEY, "RSAKey", "_raw_private_key_op_bytes", ["self", "message"], ["rsaself", "bytes"], "bytes"),
    (RSAKEY, "RSAKey", "_dec_prf", ["self", "key", "label", "out_len"], ["rsaself", "bytes", "bytes", "int"], "bytes"),
    (RSAKEY, "RSAKey", "decrypt", ["self", "encBytes"], ["rsaself", "bytes"], "optbytes"),
    (KEX, "RSAKeyExchange", "processClientKeyExchange", ["self", "clientKeyExchange"], ["kexself", "cke"], "optbytes"),
]
EXC = {"ValueError": "valueError", "AssertionError": "assertionError", "StopIteration": "stopIteration"}


class Fn(gen_ct.Fn):
    result_kind = "int"
    needs_fuel = False
    mutates_bytes = True

    def pe(self, node, why, kind="int"):
        return self.poison_expr(node, why, kind)

    # ---- expressions -------------------------------------------------------------------------
    def _expr(self, e):
        if isinstance(e, ast.Constant) and isinstance(e.value, bytes):
            return "([%s] : Bytes)" % ", ".join(str(b) for b in e.value), "bytes"
        if isinstance(e, ast.Constant) and isinstance(e.value, str):
            return '"%s"' % e.value.replace("\\", "\\\\").replace('"', '\\"'), "str"
        if isinstance(e, ast.Constant) and e.value is None:
            return "(none : Option Bytes)", "optbytes"
        if isinstance(e, ast.Tuple) and len(e.elts) == 2 and not all(isinstance(x, ast.Constant) for x in e.elts):
            a, _ = self.expr(e.elts[0], "int")
            b, _ = self.expr(e.elts[1], "int")
            return "(%s, %s)" % (a, b), "ver"
        if isinstance(e, ast.Attribute):
            v = e.value
            if isinstance(v, ast.Name) and isinstance(e.ctx, ast.Load):
                k = self.env.get(v.id)
                if k == "rsaself":
                    if e.attr in ("n", "d"):
                        return "%s.%s" % (ident(v.id), e.attr), "int"
                    if e.attr == "key_type":
                        return "%s.keyType" % ident(v.id), "str"
                    if e.attr == "_key_hash":
                        return "(← PyE.getKeyHash %s)" % ident(v.id), "bytes"
                if k == "cke" and e.attr == "encryptedPreMasterSecret":
                    return ident(v.id), "bytes"
            # self.clientHello.client_version / self.serverHello.server_version
            if isinstance(v, ast.Attribute) and isinstance(v.value, ast.Name) and self.env.get(v.value.id) == "kexself":
                if (v.attr, e.attr) == ("clientHello", "client_version"):
                    return "%s.clientVersion" % ident(v.value.id), "ver"
                if (v.attr, e.attr) == ("serverHello", "server_version"):
                    return "%s.serverVersion" % ident(v.value.id), "ver"
            return self.pe(e, "attribute access")
        if isinstance(e, ast.UnaryOp) and isinstance(e.op, ast.Not):
            t, k = self.expr(e.operand)
            if k == "bool":
                return "(!%s)" % t, "bool"
            if k == "optbytes":
                return "(PyE.falsyOpt %s)" % t, "bool"
            return self.pe(e, "`not` of %s" % k, "bool")
        if isinstance(e, ast.BoolOp):
            # not hasattr(self, '_key_hash') or not self._key_hash
            if isinstance(e.op, ast.Or) and len(e.values) == 2 and all(
                    isinstance(v, ast.UnaryOp) and isinstance(v.op, ast.Not) for v in e.values):
                a, b = e.values[0].operand, e.values[1].operand
                if isinstance(a, ast.Call) and isinstance(a.func, ast.Name) and a.func.id == "hasattr" \
                        and "hasattr" not in self.tr.module_names and "hasattr" not in self.env \
                        and len(a.args) == 2 and not a.keywords and isinstance(a.args[0], ast.Name) \
                        and self.env.get(a.args[0].id) == "rsaself" and isinstance(a.args[1], ast.Constant) \
                        and a.args[1].value == "_key_hash" and isinstance(b, ast.Attribute) \
                        and isinstance(b.value, ast.Name) and b.value.id == a.args[0].id and b.attr == "_key_hash":
                    return "(PyE.keyHashMissing %s)" % ident(b.value.id), "bool"
            return self.pe(e, "boolean operator", "bool")
        return gen_ct.Fn._expr(self, e)

    def binop(self, node, op, left, right):
        if isinstance(op, ast.Add):
            a, ka = self.expr(left)
            if ka == "bytes":
                b, _ = self.expr(right, "bytes")
                return "(%s ++ %s)" % (a, b), "bytes"
        if isinstance(op, (ast.Mod, ast.FloorDiv)) and isinstance(right, ast.Constant) \
                and type(right.value) is int and right.value > 0:
            a, _ = self.expr(left, "int")
            return "(PyE.%s %s %d)" % ("modLit" if isinstance(op, ast.Mod) else "fdivLit", a, right.value), "int"
        return gen_ct.Fn.binop(self, node, op, left, right)

    def compare(self, e):
        if len(e.ops) == 1 and isinstance(e.ops[0], (ast.Eq, ast.NotEq)):
            a, ka = self.expr(e.left)
            b, kb = self.expr(e.comparators[0])
            if ka == kb == "str":
                return "(decide (%s %s %s))" % (a, "=" if isinstance(e.ops[0], ast.Eq) else "≠", b), "bool"
        return gen_ct.Fn.compare(self, e)

    def subscript(self, e):
        if isinstance(e.value, ast.Name) and self.env.get(e.value.id) == "optbytes" and not isinstance(e.slice, ast.Slice):
            i, _ = self.expr(e.slice, "int")
            return "(← PyE.getItemOpt %s %s)" % (ident(e.value.id), i), "int"
        return gen_ct.Fn.subscript(self, e)

    def global_ok(self, n):
        return n not in self.env and n not in self.tr.module_names

    def call(self, e):
        if e.keywords or any(isinstance(a, ast.Starred) for a in e.args):
            return self.pe(e, "call with keyword or starred arguments")
        f = e.func
        na = len(e.args)
        if isinstance(f, ast.Attribute):
            v = f.value
            if isinstance(v, ast.Name) and self.env.get(v.id) == "rsaself":
                s = ident(v.id)
                if f.attr == "hasPrivateKey" and na == 0:
                    return "%s.hasPrivateKey" % s, "bool"
                if f.attr == "_rawPrivateKeyOp" and na == 1:
                    return "(%s.privOp %s)" % (s, self.expr(e.args[0], "int")[0]), "int"
                if f.attr in self.tr.done and self.tr.done[f.attr][3] == "RSAKey":
                    return self.call_translated(e, f.attr, s)
            # self.privateKey.decrypt(x)
            if isinstance(v, ast.Attribute) and isinstance(v.value, ast.Name) and self.env.get(v.value.id) == "kexself" \
                    and v.attr == "privateKey" and f.attr in self.tr.done and self.tr.done[f.attr][3] == "RSAKey":
                return self.call_translated(e, f.attr, "%s.privateKey" % ident(v.value.id))
            return self.pe(e, "method call")
        if not isinstance(f, ast.Name) or f.id in self.env:
            return self.pe(e, "call of something that is not a global name")
        n = f.id
        if n in CT_HELPERS and n in self.tr.ct_imported:
            params, kinds, res = CT_HELPERS[n]
            if na != len(params):
                return self.pe(e, "call of %s with %d arguments" % (n, na), res)
            return "(← Tls.CT.Gen.%s %s)" % (n, " ".join(self.expr(a, "int")[0] for a in e.args)), res
        if n in CRYPTOMATH_NAMES and n in self.tr.cryptomath_ok:
            if n in ("numBits", "numBytes") and na == 1:
                return "(PyE.%s %s)" % (n, self.expr(e.args[0], "int")[0]), "int"
            if n == "bytesToNumber" and na == 1:
                return "(PyE.bytesToNumber %s)" % self.expr(e.args[0], "bytes")[0], "int"
            if n == "numberToByteArray" and na == 2:
                return "(← PyE.numberToByteArray %s %s)" % (self.expr(e.args[0], "int")[0],
                                                            self.expr(e.args[1], "int")[0]), "bytes"
            if n in ("secureHash", "secureHMAC") and na == (2 if n == "secureHash" else 3) \
                    and isinstance(e.args[-1], ast.Constant) and e.args[-1].value == "sha256" and "self" in self.env \
                    and self.env["self"] == "rsaself":
                args = " ".join(self.expr(a, "bytes")[0] for a in e.args[:-1])
                return "(%s.%s %s)" % (ident("self"), "sha256" if n == "secureHash" else "hmac", args), "bytes"
            return self.pe(e, "call of %s of unsupported shape" % n)
        if n == "getRandomBytes" and na == 1 and isinstance(e.args[0], ast.Constant) and e.args[0].value == 48 \
                and self.env.get("self") == "kexself" and n in self.tr.kex_random_ok:
            return "%s.random48" % ident("self"), "bytes"
        if n == "bytearray" and self.global_ok(n):
            if na == 0:
                return "([] : Bytes)", "bytes"
            g = e.args[0]
            if na == 1 and isinstance(g, ast.GeneratorExp):
                return self.genexp(e, g)
        if n == "len" and na == 1 and self.global_ok(n) and isinstance(e.args[0], ast.Name) \
                and self.env.get(e.args[0].id) == "optbytes":
            return "(← PyE.lenOpt %s)" % ident(e.args[0].id), "int"
        return gen_ct.Fn.call(self, e)

    def call_translated(self, e, name, receiver):
        params, kinds, res, _cls, fuel = self.tr.done[name]
        if len(e.args) != len(params) - 1:
            return self.pe(e, "call of %s with %d arguments" % (name, len(e.args)), res)
        args = [self.expr(a, k)[0] for a, k in zip(e.args, kinds[1:])]
        if fuel:
            self.needs_fuel = True
        return "(← %s %s%s %s)" % (ident(name), "fuel " if fuel else "", receiver, " ".join(args)), res

    def genexp(self, e, g):
        """bytearray(ELT for x, y in zip(A, B))"""
        if len(g.generators) != 1:
            return self.pe(e, "generator expression with several clauses", "bytes")
        c = g.generators[0]
        it = c.iter
        if c.ifs or c.is_async or not (isinstance(c.target, ast.Tuple) and len(c.target.elts) == 2
                                       and all(isinstance(x, ast.Name) for x in c.target.elts)) \
                or not (isinstance(it, ast.Call) and isinstance(it.func, ast.Name) and it.func.id == "zip"
                        and self.global_ok("zip") and len(it.args) == 2 and not it.keywords):
            return self.pe(e, "generator expression of unsupported shape", "bytes")
        a, _ = self.expr(it.args[0], "bytes")
        b, _ = self.expr(it.args[1], "bytes")
        x, y = c.target.elts[0].id, c.target.elts[1].id
        if x == y:
            return self.pe(e, "generator expression binds one name twice", "bytes")
        env0 = dict(self.env)
        self.env[x] = "int"
        self.env[y] = "int"
        elt, _ = self.expr(g.elt, "int")
        self.env = env0
        if "←" in elt:
            return self.pe(e, "generator element that can raise", "bytes")
        return ("(← Py.bytearrayOfInts ((PyE.zipBytes %s %s).map fun xy => let %s : Int := xy.1; let %s : Int := xy.2; %s))"
                % (a, b, ident(x), ident(y), elt)), "bytes"

    # ---- statements --------------------------------------------------------------------------
    @staticmethod
    def assigned(stmts):
        out = gen_ct.Fn.assigned(stmts)
        for s in stmts:
            for node in ast.walk(s):
                # self.attr = e  rebinds (the Lean value of) self; next(it) advances it
                if isinstance(node, ast.Attribute) and isinstance(node.ctx, ast.Store) and isinstance(node.value, ast.Name):
                    if node.value.id not in out:
                        out.append(node.value.id)
                if isinstance(node, ast.Call) and isinstance(node.func, ast.Name) and node.func.id in ("next", "zip"):
                    for a in node.args:
                        if isinstance(a, ast.Name) and a.id not in out:
                            out.append(a.id)
        return out

    @staticmethod
    def has_jump(stmts):
        for s in stmts:
            for node in ast.walk(s):
                if isinstance(node, (ast.Return, ast.Break, ast.Continue, ast.Yield, ast.YieldFrom, ast.Raise,
                                     ast.Try, ast.With, ast.FunctionDef, ast.Lambda, ast.Global,
                                     ast.Nonlocal, ast.ClassDef, ast.Import, ast.ImportFrom, ast.NamedExpr)):
                    return True
        return False

    def ret_value(self, node):
        """text of `pure v` for `return v`"""
        if self.result_kind == "optbytes":
            if isinstance(node, ast.Constant) and node.value is None:
                return "none"
            t, k = self.expr(node)
            if k == "bytes":
                return "(some %s)" % t
            if k == "optbytes":
                return t
            return self.pe(node, "return of %s" % k, "optbytes")[0]
        return self.expr(node, self.result_kind)[0]

    def exc_of(self, node):
        """raise E / raise E(...) -> constructor name or None"""
        x = node.exc
        if node.cause is not None or x is None:
            return None
        if isinstance(x, ast.Call) and isinstance(x.func, ast.Name):
            x = x.func
        if isinstance(x, ast.Name) and x.id in EXC and self.global_ok(x.id):
            return EXC[x.id]
        return None

    def loop_state(self, body, extra=()):
        names = [x for x in self.assigned(body) if x in self.env and x not in extra]
        return names

    def block(self, stmts, ind, tail):
        lines = []
        i = 0
        n = len(stmts)
        while i < n:
            s = stmts[i]
            last = i == n - 1
            i += 1
            if isinstance(s, ast.Expr) and isinstance(s.value, ast.Constant) and isinstance(s.value.value, str):
                continue
            if isinstance(s, ast.Pass):
                continue
            if isinstance(s, ast.Return):
                if tail is not None or not last or s.value is None:
                    lines += self.poison_stmt(s, "return that does not end the function body", ind)
                    continue
                lines.append(ind + "pure %s" % self.ret_value(s.value))
                return lines
            if isinstance(s, ast.Raise):
                exc = self.exc_of(s)
                if tail is not None or not last or exc is None:
                    lines += self.poison_stmt(s, "raise of unsupported shape", ind)
                    continue
                lines.append(ind + "PyE.raise PyE.Err.%s" % exc)
                return lines
            # ---- try: x = CALL / except ValueError: return v
            if isinstance(s, ast.Try):
                h = s.handlers
                ok = (len(s.body) == 1 and isinstance(s.body[0], ast.Assign) and len(s.body[0].targets) == 1
                      and isinstance(s.body[0].targets[0], ast.Name) and not s.orelse and not s.finalbody
                      and len(h) == 1 and h[0].name is None and isinstance(h[0].type, ast.Name)
                      and h[0].type.id in EXC and self.global_ok(h[0].type.id)
                      and len([x for x in h[0].body if not isinstance(x, ast.Pass)]) == 1
                      and isinstance([x for x in h[0].body if not isinstance(x, ast.Pass)][0], ast.Return)
                      and [x for x in h[0].body if not isinstance(x, ast.Pass)][0].value is not None
                      and tail is None and not last)
                if not ok:
                    lines += self.poison_stmt(s, "try statement of unsupported shape", ind)
                    continue
                x = s.body[0].targets[0].id
                t, k = self.expr(s.body[0].value)
                ret = [y for y in h[0].body if not isinstance(y, ast.Pass)][0]
                tmp = self.fresh_tmp()
                lines.append(ind + "let %s : Option %s ← PyE.attempt (do pure %s) PyE.Err.%s"
                             % (tmp, LEAN_TYPE[k], t, EXC[h[0].type.id]))
                lines.append(ind + "if %s.isNone then pure %s else do" % (tmp, self.ret_value(ret.value)))
                self.env[x] = k
                lines.append(ind + "let %s : %s ← PyE.getSome %s" % (ident(x), LEAN_TYPE[k], tmp))
                lines += self.block(stmts[i:], ind, None)
                return lines
            if isinstance(s, ast.Assert):
                lines += self.poison_stmt(s, "assert", ind)
                continue
            if isinstance(s, ast.Assign):
                if len(s.targets) != 1:
                    lines += self.poison_stmt(s, "chained assignment", ind)
                    continue
                tg = s.targets[0]
                v = s.value
                # a, b = next(it)
                if isinstance(tg, ast.Tuple):
                    if len(tg.elts) == 2 and all(isinstance(x, ast.Name) for x in tg.elts) \
                            and tg.elts[0].id != tg.elts[1].id \
                            and isinstance(v, ast.Call) and isinstance(v.func, ast.Name) and v.func.id == "next" \
                            and self.global_ok("next") and len(v.args) == 1 and not v.keywords \
                            and isinstance(v.args[0], ast.Name) and self.env.get(v.args[0].id) == "enumiter" \
                            and v.args[0].id not in (tg.elts[0].id, tg.elts[1].id):
                        it = v.args[0].id
                        tmp = self.fresh_tmp()
                        lines.append(ind + "let %s ← PyE.next %s" % (tmp, ident(it)))
                        for k, x in enumerate(tg.elts):
                            self.env[x.id] = "int"
                            lines.append(ind + "let %s : Int := %s.1.%d" % (ident(x.id), tmp, k + 1))
                        lines.append(ind + "let %s : %s := %s.2" % (ident(it), LEAN_TYPE["enumiter"], tmp))
                        continue
                    lines += self.poison_stmt(s, "tuple assignment of unsupported shape", ind)
                    continue
                # self._key_hash = e
                if isinstance(tg, ast.Attribute):
                    if isinstance(tg.value, ast.Name) and self.env.get(tg.value.id) == "rsaself" and tg.attr == "_key_hash":
                        t, _ = self.expr(v, "bytes")
                        x = ident(tg.value.id)
                        lines.append(ind + "let %s : PyE.RsaSelf := PyE.setKeyHash %s %s" % (x, x, t))
                        continue
                    lines += self.poison_stmt(s, "attribute assignment", ind)
                    continue
                if not isinstance(tg, ast.Name):
                    lines += self.poison_stmt(s, "assignment target is not a name", ind)
                    continue
                x = tg.id
                # it = iter(b) / enumerate(b)
                if isinstance(v, ast.Call) and isinstance(v.func, ast.Name) and v.func.id in ("iter", "enumerate") \
                        and self.global_ok(v.func.id) and len(v.args) == 1 and not v.keywords:
                    t, _ = self.expr(v.args[0], "bytes")
                    k = "byteiter" if v.func.id == "iter" else "enumiter"
                    self.env[x] = k
                    lines.append(ind + "let %s : %s := PyE.%s %s"
                                 % (ident(x), LEAN_TYPE[k], "iterBytes" if k == "byteiter" else "enumerate", t))
                    continue
                if isinstance(v, ast.Name) and self.env.get(v.id) in ("mac", "bytes", "rsaself", "kexself", "byteiter",
                                                                    "enumiter", "optbytes") \
                        and not (self.env.get(v.id) in ("bytes", "optbytes") and not self.mutates_bytes):
                    # two names for one mutable object: harmless only where nothing is mutated in place
                    lines += self.poison_stmt(s, "alias of a mutable object", ind)
                    continue
                t, k = self.expr(v)
                if k == "bytes" and self.env.get(x) == "optbytes":
                    t, k = "(some %s)" % t, "optbytes"      # the variable holds bytearray-or-None
                self.env[x] = k
                lines.append(ind + "let %s : %s := %s" % (ident(x), LEAN_TYPE[k], t))
                continue
            if isinstance(s, ast.AugAssign):
                if isinstance(s.target, ast.Name) and self.env.get(s.target.id) == "bytes" and isinstance(s.op, ast.Add):
                    x = s.target.id
                    t, _ = self.expr(s.value, "bytes")
                    lines.append(ind + "let %s : Bytes := (%s ++ %s)" % (ident(x), ident(x), t))
                    continue
                if not isinstance(s.target, ast.Name) or self.env.get(s.target.id) != "int":
                    lines += self.poison_stmt(s, "augmented assignment of unsupported shape", ind)
                    continue
                x = s.target.id
                load = ast.copy_location(ast.Name(id=x, ctx=ast.Load()), s.target)
                t, k = self.binop(s, s.op, load, s.value)
                lines.append(ind + "let %s : Int := %s" % (ident(x), t))
                continue
            if isinstance(s, ast.If):
                body = [x for x in s.body if not isinstance(x, ast.Pass)]
                # early exit:  if c: return v / raise E   <rest>
                if not s.orelse and len(body) == 1 and isinstance(body[0], (ast.Return, ast.Raise)) \
                        and tail is None and not last:
                    c, _ = self.expr(s.test, "bool")
                    if isinstance(body[0], ast.Return):
                        if body[0].value is None:
                            lines += self.poison_stmt(s, "bare return", ind)
                            continue
                        act = "pure %s" % self.ret_value(body[0].value)
                    else:
                        exc = self.exc_of(body[0])
                        if exc is None:
                            lines += self.poison_stmt(s, "raise of unsupported shape", ind)
                            continue
                        act = "PyE.raise PyE.Err.%s" % exc
                    lines.append(ind + "if %s then %s else do" % (c, act))
                    lines += self.block(stmts[i:], ind, None)
                    return lines
                if self.has_jump(s.body) or self.has_jump(s.orelse):
                    lines += self.poison_stmt(s, "if statement containing a jump", ind)
                    continue
                names = [x for x in self.assigned(s.body + s.orelse) if x in self.env]
                c, _ = self.expr(s.test, "bool")
                env0, fresh0 = dict(self.env), set(self.fresh)
                tup, ty = self.tuple_of(names)
                tmp = self.fresh_tmp()
                res = []
                ok = True
                for branch in (s.body, s.orelse):
                    self.env, self.fresh = dict(env0), set(fresh0)
                    b = self.block(branch, ind + "    ", "pure %s" % tup)
                    if any(self.env.get(x) != env0[x] for x in names):
                        ok = False
                    res.append(b)
                self.env, self.fresh = dict(env0), set(fresh0)
                if not ok:
                    lines += self.poison_stmt(s, "a branch changes the type of a variable", ind)
                    continue
                lines.append(ind + "let %s : %s ← (if %s then (do" % (tmp if len(names) > 1 else tup, ty, c))
                lines += res[0]
                lines.append(ind + "    ) else (do")
                lines += res[1]
                lines.append(ind + "    ))")
                lines += self.unpack(names, tmp, ind)
                continue
            if isinstance(s, ast.While):
                if s.orelse or self.has_jump(s.body):
                    lines += self.poison_stmt(s, "while loop of unsupported shape", ind)
                    continue
                names = self.loop_state(s.body)
                if not names:
                    lines += self.poison_stmt(s, "while loop without state", ind)
                    continue
                env0 = dict(self.env)
                tup, ty = self.tuple_of(names)
                tmp = self.fresh_tmp()
                st = tmp if len(names) > 1 else tup
                pre = "".join(l.strip() + "; " for l in self.unpack(names, tmp, ""))
                c, _ = self.expr(s.test, "bool")
                if "←" in c:
                    lines += self.poison_stmt(s, "while condition that can raise", ind)
                    continue
                inner = []
                if len(names) > 1:
                    inner += self.unpack(names, tmp, ind + "    ")
                inner += self.block(s.body, ind + "    ", "pure %s" % tup)
                ok = all(self.env.get(x) == env0[x] for x in names)
                self.env = dict(env0)
                if not ok:
                    lines += self.poison_stmt(s, "the loop body changes the type of a variable", ind)
                    continue
                self.needs_fuel = True
                lines.append(ind + "let %s : %s ← PyE.whileLoop (fun %s => %s%s) (fun %s => do"
                             % (st, ty, st, pre, c, st))
                lines += inner
                lines.append(ind + "    ) fuel %s" % tup)
                lines += self.unpack(names, tmp, ind)
                continue
            if isinstance(s, ast.For):
                it = s.iter
                tg = s.target
                src = None
                gone = None
                if isinstance(tg, ast.Tuple) and len(tg.elts) == 2 and all(isinstance(x, ast.Name) for x in tg.elts) \
                        and tg.elts[0].id != tg.elts[1].id and not s.orelse and not self.has_jump(s.body):
                    # zip(it, it) over one byte iterator / the rest of an enumerate iterator
                    if isinstance(it, ast.Call) and isinstance(it.func, ast.Name) and it.func.id == "zip" \
                            and self.global_ok("zip") and len(it.args) == 2 and not it.keywords \
                            and all(isinstance(a, ast.Name) for a in it.args) and it.args[0].id == it.args[1].id \
                            and self.env.get(it.args[0].id) == "byteiter":
                        src = "(PyE.zipSelf %s)" % ident(it.args[0].id)
                        gone = it.args[0].id
                    elif isinstance(it, ast.Name) and self.env.get(it.id) == "enumiter":
                        src = ident(it.id)
                        gone = it.id
                targets = [x.id for x in tg.elts] if src else []
                if src is None or gone in targets or any(x in self.assigned(s.body) for x in targets + [gone]):
                    lines += self.poison_stmt(s, "for loop of unsupported shape", ind)
                    continue
                env0 = dict(self.env)
                names = [x for x in self.loop_state(s.body) if x not in targets and x != gone]
                tup, ty = self.tuple_of(names)
                tmp = self.fresh_tmp()
                item = self.fresh_tmp()
                for x in targets:
                    self.env[x] = "int"
                del self.env[gone]
                inner = [ind + "    let %s : Int := %s.%d" % (ident(x), item, k + 1) for k, x in enumerate(targets)]
                if len(names) > 1:
                    inner += self.unpack(names, tmp, ind + "    ")
                inner += self.block(s.body, ind + "    ", "pure %s" % tup)
                ok = all(self.env.get(x) == env0[x] for x in names)
                self.env = dict(env0)
                # the iterator is exhausted and the loop variables hold whatever came last: not tracked
                for x in targets + [gone]:
                    self.env.pop(x, None)
                if not ok:
                    lines += self.poison_stmt(s, "the loop body changes the type of a variable", ind)
                    continue
                state = tmp if len(names) > 1 else (tup if names else "_")
                lines.append(ind + "let %s : %s ← PyE.forInL %s %s fun %s %s => do"
                             % (tmp if len(names) > 1 else tup, ty, src, tup, item, state))
                lines += inner
                lines += self.unpack(names, tmp, ind)
                continue
            lines += self.poison_stmt(s, "statement %s" % type(s).__name__, ind)
        if tail is None:
            lines += self.poison_stmt(stmts[-1] if stmts else ast.Pass(), "function body does not end in a return", ind)
            lines.append(ind + "PyE.poison")
        else:
            lines.append(ind + tail)
        return lines


class Translator(object):
    def __init__(self, repo):
        self.repo = repo
        self.done = {}
        self.module_names = set()
        self.problems = []
        self.ct_imported = set()
        self.cryptomath_ok = set()
        self.kex_random_ok = set()
        self.compat_identity = False

    def parse(self, rel):
        try:
            with open(os.path.join(self.repo, rel)) as f:
                return ast.parse(f.read())
        except (OSError, SyntaxError) as e:
            self.problems.append("cannot read %s: %s" % (rel, type(e).__name__))
            return ast.Module(body=[], type_ignores=[])

    def scan_module(self, tree, rel):
        """top-level bindings of a module: (names defined/bound here, {imported name: (module, original)}, star modules)"""
        bound, imported, stars = set(), {}, []
        for s in tree.body:
            if isinstance(s, ast.ImportFrom):
                for al in s.names:
                    if al.name == "*":
                        stars.append(s.module)
                    else:
                        imported[al.asname or al.name] = (s.module, al.name)
            elif isinstance(s, ast.Import):
                for al in s.names:
                    imported[(al.asname or al.name).split(".")[0]] = (None, al.name)
            elif isinstance(s, ast.Expr) and isinstance(s.value, ast.Constant):
                pass
            else:
                for n in ast.walk(s):
                    if isinstance(n, ast.Name) and isinstance(n.ctx, (ast.Store, ast.Del)):
                        bound.add(n.id)
                    elif isinstance(n, (ast.FunctionDef, ast.ClassDef)) and n in tree.body:
                        bound.add(n.name)
        return bound, imported, stars

    def find_method(self, tree, cls, name):
        found = [c for c in tree.body if isinstance(c, ast.ClassDef) and c.name == cls]
        if len(found) != 1:
            return None
        ms = [m for m in found[0].body if isinstance(m, ast.FunctionDef) and m.name == name]
        # a name bound any other way in the class body could replace the method
        others = [n for st in found[0].body if not isinstance(st, ast.FunctionDef) for n in ast.walk(st)
                  if isinstance(n, ast.Name) and isinstance(n.ctx, ast.Store) and n.id == name]
        if len(ms) != 1 or others:
            return None
        return ms[0]

    def generate(self):
        out = ["/- GENERATED by translate/gen_rsadecrypt.py from %s and %s of the tree under check;" % (RSAKEY, KEX),
               "   do not edit.  Statement-by-statement translation into the Python-runtime model",
               "   TlsModel/PyInt.lean + TlsModel/PyExc.lean; poison marks what the translator did not understand. -/",
               "import TlsModel.PyExc",
               "import TlsModel.Gen.CT",
               "set_option linter.unusedVariables false",
               "namespace Tls.RsaDec.Gen",
               "open Tls Tls.CT",
               ""]
        rsakey = self.parse(RSAKEY)
        kex = self.parse(KEX)
        cm = self.parse(CRYPTOMATH)
        trees = {RSAKEY: rsakey, KEX: kex}
        # ---- name resolution in rsakey.py
        bound, imported, stars = self.scan_module(rsakey, RSAKEY)
        cm_bound, _, _ = self.scan_module(cm, CRYPTOMATH)
        for n in CT_HELPERS:
            if imported.get(n) == ("constanttime", n) and n not in bound:
                self.ct_imported.add(n)
        for n in CRYPTOMATH_NAMES:
            # reaches rsakey.py only through `from .cryptomath import *` (or by name), defined at top level there
            via = (stars == ["cryptomath"] and n not in imported) or imported.get(n) == ("cryptomath", n)
            if via and n in cm_bound and n not in bound:
                self.cryptomath_ok.add(n)
            else:
                self.problems.append("%s does not resolve to cryptomath.%s in rsakey.py" % (n, n))
        if len(stars) > 1 or (stars and stars != ["cryptomath"]):
            self.problems.append("rsakey.py has star imports other than cryptomath: nothing can be resolved")
            self.ct_imported = set()
            self.cryptomath_ok = set()
        module_names = {RSAKEY: set(bound) | set(imported), KEX: None}
        kb, ki, ks = self.scan_module(kex, KEX)
        module_names[KEX] = set(kb) | set(ki)
        if ki.get("getRandomBytes") == ("utils.cryptomath", "getRandomBytes") and "getRandomBytes" not in kb \
                and not ks and "getRandomBytes" in cm_bound:
            self.kex_random_ok.add("getRandomBytes")
        translated = []
        for rel, cls, name, eparams, ekinds, eres in EXPECT:
            tree = trees[rel]
            self.module_names = set(module_names[rel]) - set(self.ct_imported) - set(self.cryptomath_ok) \
                - self.kex_random_ok
            fn = self.find_method(tree, cls, name)
            why = None
            if fn is None:
                why = "no unique method %s.%s" % (cls, name)
            else:
                a = fn.args
                params = [x.arg for x in a.args]
                if a.vararg or a.kwarg or a.kwonlyargs or getattr(a, "posonlyargs", []) or fn.decorator_list \
                        or a.defaults or params != eparams:
                    why = "signature differs from (%s)" % ", ".join(eparams)
            sig_t = " ".join("(_ : %s)" % LEAN_TYPE[k] for k in ekinds)
            ret_t = "Option Bytes" if eres == "optbytes" else LEAN_TYPE[eres]
            if why is not None:
                out.append("/-- %s.%s: NOT TRANSLATED (%s) -/" % (cls, name, why))
                out.append("def %s (_ : Nat) %s : PyE.M (%s) := PyE.poison" % (ident(name), sig_t, ret_t))
                out.append("")
                self.problems.append("%s: %s" % (name, why))
                translated.append((name, False))
                continue
            f = Fn(self, name)
            f.result_kind = eres
            f.py_names = set(n.id for n in ast.walk(fn) if isinstance(n, ast.Name)) | set(eparams)
            # in-place mutation anywhere in the function: augmented assignment, subscript/attribute
            # stores other than the _key_hash cache, method calls on a local (append, extend, update, ...)
            f.mutates_bytes = any(
                isinstance(n, ast.AugAssign)
                or (isinstance(n, ast.Subscript) and isinstance(n.ctx, (ast.Store, ast.Del)))
                or (isinstance(n, ast.Attribute) and isinstance(n.ctx, (ast.Store, ast.Del)) and n.attr != "_key_hash")
                or (isinstance(n, ast.Expr) and isinstance(n.value, ast.Call))
                or isinstance(n, ast.Delete)
                for n in ast.walk(fn))
            for p, k in zip(eparams, ekinds):
                f.env[p] = k
            body = f.block(fn.body, "  ", None)
            sig = " ".join("(%s : %s)" % (ident(p), LEAN_TYPE[k]) for p, k in zip(eparams, ekinds))
            out.append("/-- `%s.%s` (%s line %d)%s -/" % (cls, name, rel, fn.lineno,
                                                         "" if not f.notes else "; POISONED: " + "; ".join(f.notes)))
            # every function takes the loop bound first (unused where there is no `while` below it)
            out.append("def %s (fuel : Nat) %s : PyE.M (%s) := do" % (ident(name), sig, ret_t))
            out += body
            out.append("")
            if f.notes:
                self.problems += ["%s: %s" % (name, x) for x in f.notes]
            self.done[name] = (eparams, ekinds, eres, cls, True)
            translated.append((name, not f.notes))
        out.append("/-- (function, translated without poison) -/")
        out.append("def translated : List (String × Bool) := [%s]"
                   % ", ".join('("%s", %s)' % (n, "true" if ok else "false") for n, ok in translated))
        out.append("")
        out.append("/-- what the translator did not understand (empty on the pinned source) -/")
        out.append("def translatorProblems : List String := [%s]"
                   % ", ".join('"%s"' % p.replace("\\", "\\\\").replace('"', "'") for p in self.problems))
        out.append("")
        out.append("end Tls.RsaDec.Gen")
        return "\n".join(out) + "\n"


def generate(repo):
    return {"TlsModel/Gen/RsaDecrypt.lean": Translator(repo).generate()}


if __name__ == "__main__":
    import sys
    sys.stdout.write(generate(sys.argv[1] if len(sys.argv) > 1 else os.environ.get("VERIF_REPO", "/repo"))
                     ["TlsModel/Gen/RsaDecrypt.lean"])
