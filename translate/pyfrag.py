"""Shared core of the statement-level translators gen_cryptomath.py and gen_rsapad.py.

Extends the fragment of translate/gen_ct.py + gen_rsadecrypt.py (see there) by

    if/elif/else whose branches return or raise   ->  if c' then do <branch; rest> else do <branch; rest>
                                                      (the statements after the `if` are repeated in every
                                                      branch that falls through)
    parameters with literal defaults, keyword arguments of calls to translated functions
    Optional[int]/Optional[str]/Optional[bytes] variables (`x is None`, `x is not None`; a None used as a
    number/string raises: `PyE.optGet`)
    truthiness of ints / bytes / optionals in conditions, `int(bool(x))`, `q, r = divmod(a, b)`
    int methods: x.bit_length(), x.to_bytes(length=…, byteorder=…); `f = int.from_bytes` aliases
    `if type(x) != int: x = int(x)` on an int (no-op)
    str: literals, ==, !=, .lower() on lower-case-only use (poison otherwise: see `lower`)
    bytes: bytearray(n) zeros, bytearray(b"…"), ==, d[-1]-style indices, `any(…)`, list pads

Everything else is poison (`Err.other`), as in the other translators.
"""
import ast

from . import gen_ct, gen_rsadecrypt
from .gen_ct import ident, LEAN_TYPE
from .gen_rsadecrypt import EXC

LEAN_TYPE.update({
    "optint": "(Option Int)", "optstr": "(Option String)", "none": "Unit", "intlist": "(List Int)",
    "unit": "Unit",
})
OPT_OF = {"int": "optint", "str": "optstr", "bytes": "optbytes"}
BASE_OF = {v: k for k, v in OPT_OF.items()}
EXC.update({"OverflowError": "overflowError", "ZeroDivisionError": "zeroDivisionError", "IndexError": "indexError",
            "InvalidSignature": "invalidSignature", "EncodingError": "encodingError",
            "MessageTooLongError": "messageTooLong", "MaskTooLongError": "maskTooLong",
            "UnknownRSAType": "unknownRSAType"})
gen_ct.RESERVED.update(["optGet", "Except", "List", "String"])


class Fn(gen_rsadecrypt.Fn):
    """one function; `self.tr.funcs[name] = (params, kinds, defaults, result kind, needs fuel, receiver kind or None)`"""

    def ret_type(self):
        return LEAN_TYPE[self.result_kind]

    @property
    def fresh_bytes(self):
        if not hasattr(self, "_fresh_bytes"):
            self._fresh_bytes = set()
        return self._fresh_bytes

    # ---- kinds and coercions ------------------------------------------------------------------
    def expr(self, e, want=None):
        t, k = self._expr(e)
        if want is None or k == want:
            return t, k
        if k == "none" and want in BASE_OF:
            return "(none : %s)" % LEAN_TYPE[want], want
        if OPT_OF.get(k) == want:
            return "(some %s)" % t, want
        if BASE_OF.get(k) == want:
            return "(← PyE.optGet %s)" % t, want          # a None here raises TypeError
        if want == "bool":
            return self.truth(e, t, k)
        return self.poison_expr(e, "expected %s, found %s" % (want, k), want)

    def truth(self, e, t, k):
        if k == "int":
            return "(decide (%s ≠ 0))" % t, "bool"
        if k == "bytes":
            return "(!(%s).isEmpty)" % t, "bool"
        if k == "optbytes":
            return "(!PyE.falsyOpt %s)" % t, "bool"
        if k == "intlist":
            return "(!(%s).isEmpty)" % t, "bool"
        return self.poison_expr(e, "truth value of %s" % k, "bool")

    def _expr(self, e):
        if isinstance(e, ast.Constant) and e.value is None:
            return "()", "none"
        if isinstance(e, ast.UnaryOp) and isinstance(e.op, ast.Not):
            t, _ = self.expr(e.operand, "bool")
            return "(!%s)" % t, "bool"
        if isinstance(e, ast.BoolOp) and all(self.pure_bool(v) for v in e.values):
            parts = [self.expr(v, "bool")[0] for v in e.values]
            if not any("←" in p for p in parts):
                return "(%s)" % (" && " if isinstance(e.op, ast.And) else " || ").join(parts), "bool"
        if isinstance(e, ast.ListComp):
            return self.listcomp(e)
        if isinstance(e, ast.List):
            return self.list_lit(e)
        if isinstance(e, ast.Attribute) and isinstance(e.value, ast.Name) and isinstance(e.ctx, ast.Load):
            k = self.env.get(e.value.id)
            hook = self.tr.attribute(self, e, k)
            if hook is not None:
                return hook
        return gen_rsadecrypt.Fn._expr(self, e)

    def listcomp(self, e):
        """[b for b in DATA if b]"""
        if len(e.generators) == 1:
            g = e.generators[0]
            if isinstance(g.target, ast.Name) and isinstance(e.elt, ast.Name) and e.elt.id == g.target.id \
                    and len(g.ifs) == 1 and isinstance(g.ifs[0], ast.Name) and g.ifs[0].id == g.target.id \
                    and not g.is_async:
                t, _ = self.expr(g.iter, "bytes")
                return "(PyE.filterNonZero %s)" % t, "intlist"
        return self.poison_expr(e, "list comprehension of unsupported shape", "intlist")

    def pure_bool(self, v):
        """operands of and/or must not raise (short-circuit evaluation is not rendered)"""
        return True

    def compare(self, e):
        if len(e.ops) == 1:
            op, l, r = e.ops[0], e.left, e.comparators[0]
            if isinstance(op, (ast.Is, ast.IsNot)) and isinstance(r, ast.Constant) and r.value is None:
                t, k = self._expr(l)
                if k in BASE_OF:
                    return "(%s.%s)" % (t, "isNone" if isinstance(op, ast.Is) else "isSome"), "bool"
                if k in OPT_OF or k in ("bool",):
                    return ("false" if isinstance(op, ast.Is) else "true"), "bool"
                return self.poison_expr(e, "`is None` on %s" % k, "bool")
            # type(x) != int on an int
            if isinstance(op, (ast.Eq, ast.NotEq)) and isinstance(l, ast.Call) and isinstance(l.func, ast.Name) \
                    and l.func.id == "type" and self.global_ok("type") and len(l.args) == 1 and not l.keywords \
                    and isinstance(l.args[0], ast.Name) and self.env.get(l.args[0].id) == "int" \
                    and isinstance(r, ast.Name) and r.id == "int" and self.global_ok("int"):
                return ("true" if isinstance(op, ast.Eq) else "false"), "bool"
            if isinstance(op, (ast.Eq, ast.NotEq)):
                a, ka = self._expr(l)
                b, kb = self._expr(r)
                sym = "=" if isinstance(op, ast.Eq) else "≠"
                if ka == kb and ka in ("str", "bytes", "optstr"):
                    return "(decide (%s %s %s))" % (a, sym, b), "bool"
                if (ka, kb) == ("optstr", "str"):
                    return "(decide (%s %s some %s))" % (a, sym, b), "bool"
                if (ka, kb) == ("optint", "int"):
                    return "(decide (%s %s some %s))" % (a, sym, b), "bool"
            sym = {ast.Lt: "<", ast.LtE: "≤", ast.Gt: ">", ast.GtE: "≥", ast.Eq: "=", ast.NotEq: "≠"}.get(type(op))
            if sym is not None:
                _, ka = self._expr(l)
                _, kb = self._expr(r)
                if {ka, kb} <= {"int", "optint"} and "optint" in (ka, kb) and sym in "<≤>≥":
                    self.notes = self.notes      # (operands are re-translated below with the coercion)
                    a, _ = self.expr(l, "int")
                    b, _ = self.expr(r, "int")
                    return "(decide (%s %s %s))" % (a, sym, b), "bool"
        return gen_rsadecrypt.Fn.compare(self, e)

    def subscript(self, e):
        hook = self.tr.subscript(self, e)
        if hook is not None:
            return hook
        base, kb = self._expr(e.value)
        s = e.slice
        if kb == "bytes" and isinstance(s, ast.Slice) and s.step is None:
            lo = "none" if s.lower is None else "(some %s)" % self.expr(s.lower, "int")[0]
            hi = "none" if s.upper is None else "(some %s)" % self.expr(s.upper, "int")[0]
            return "(Py.slice %s %s %s)" % (base, lo, hi), "bytes"
        if kb == "bytes" and not isinstance(s, ast.Slice):
            i, _ = self.expr(s, "int")
            return "(← PyE.getItemE %s %s)" % (base, i), "int"      # IndexError, not the anonymous `other`
        if kb == "intlist" and isinstance(s, ast.Slice) and s.step is None and s.lower is None and s.upper is not None:
            return "(PyE.listTake %s %s)" % (base, self.expr(s.upper, "int")[0]), "intlist"
        return gen_rsadecrypt.Fn.subscript(self, e)

    def binop(self, node, op, left, right):
        if isinstance(op, ast.Pow) and isinstance(left, ast.Constant) and isinstance(right, ast.Constant) \
                and type(left.value) is int and type(right.value) is int and 0 <= right.value <= 4096:
            return self.lit(left.value ** right.value), "int"
        if isinstance(op, ast.Add):
            a, ka = self._expr(left)
            if ka == "intlist":
                b, _ = self.expr(right, "intlist")
                return "(%s ++ %s)" % (a, b), "intlist"
        if isinstance(op, ast.Mult):
            # [v] * n
            if isinstance(left, ast.List) and len(left.elts) == 1:
                v, _ = self.expr(left.elts[0], "int")
                n, _ = self.expr(right, "int")
                return "(PyE.listRepeat %s %s)" % (v, n), "intlist"
        return gen_rsadecrypt.Fn.binop(self, node, op, left, right)

    # ---- calls --------------------------------------------------------------------------------
    def call(self, e):
        f = e.func
        hook = self.tr.call(self, e)
        if hook is not None:
            return hook
        if any(isinstance(a, ast.Starred) for a in e.args) or any(k.arg is None for k in e.keywords):
            return self.poison_expr(e, "call with starred arguments")
        # x.bit_length() / x.to_bytes(length=, byteorder=) / s.lower()
        if isinstance(f, ast.Attribute) and isinstance(f.value, ast.Name):
            k = self.env.get(f.value.id)
            x = ident(f.value.id)
            if k == "int" and f.attr == "bit_length" and not e.args and not e.keywords:
                return "(PyE.bitLength %s)" % x, "int"
            if k == "int" and f.attr == "to_bytes":
                kw = {q.arg: q.value for q in e.keywords}
                pos = list(e.args)
                names = ["length", "byteorder"]
                if len(pos) <= 2 and set(kw) <= set(names[len(pos):]) and len(pos) + len(kw) == 2:
                    vals = pos + [kw[n] for n in names[len(pos):]]
                    a, _ = self.expr(vals[0], "int")
                    b, _ = self.expr(vals[1], "str")
                    return "(← PyE.intToBytes %s %s %s)" % (x, a, b), "bytes"
                return self.poison_expr(e, "to_bytes call of unsupported shape", "bytes")
            if k in ("str", "optstr") and f.attr == "lower" and not e.args and not e.keywords:
                # names are compared lower-case only: the runtime lower() is String.toLower
                t, _ = self.expr(f.value, "str")
                return "(PyE.lower %s)" % t, "str"
        if isinstance(f, ast.Name) and f.id not in self.env:
            n = f.id
            na = len(e.args)
            if n == "int" and na == 1 and not e.keywords and self.global_ok("int"):
                a = e.args[0]
                if isinstance(a, ast.Call) and isinstance(a.func, ast.Name) and a.func.id == "bool" \
                        and self.global_ok("bool") and len(a.args) == 1 and not a.keywords:
                    t, _ = self.expr(a.args[0], "int")
                    return "(PyE.intBool %s)" % t, "int"
                t, k = self._expr(a)
                if k == "int":
                    return t, "int"
                return self.poison_expr(e, "int() of %s" % k)
            if n == "bytearray" and na == 1 and not e.keywords and self.global_ok(n):
                a = e.args[0]
                if isinstance(a, ast.GeneratorExp):
                    return self.genexp(e, a)
                if isinstance(a, ast.BinOp) or isinstance(a, ast.List) or (isinstance(a, ast.Name)
                                                                           and self.env.get(a.id) == "intlist"):
                    t, k = self._expr(a) if not isinstance(a, ast.List) else self.list_lit(a)
                    if k == "intlist":
                        return "(← Py.bytearrayOfInts %s)" % t, "bytes"
                    if k == "int":
                        return "(← PyE.zeros %s)" % t, "bytes"
                    if k == "bytes":
                        return t, "bytes"
                    return self.poison_expr(e, "bytearray() of %s" % k, "bytes")
                t, k = self._expr(a)
                if k == "int":
                    return "(← PyE.zeros %s)" % t, "bytes"       # bytearray(n): n zero bytes, ValueError if n < 0
                if k == "bytes":
                    return t, "bytes"
                return self.poison_expr(e, "bytearray() of %s" % k, "bytes")
            if n == "any" and na == 1 and not e.keywords and self.global_ok(n):
                a = e.args[0]
                if isinstance(a, ast.GeneratorExp) and len(a.generators) == 1 and not a.generators[0].ifs \
                        and isinstance(a.generators[0].target, ast.Name) \
                        and isinstance(a.elt, ast.Compare) and len(a.elt.ops) == 1 \
                        and isinstance(a.elt.ops[0], ast.NotEq) and isinstance(a.elt.left, ast.Name) \
                        and a.elt.left.id == a.generators[0].target.id \
                        and isinstance(a.elt.comparators[0], ast.Constant) and a.elt.comparators[0].value == 0:
                    t, _ = self.expr(a.generators[0].iter, "bytes")
                    return "(PyE.anyNonZero %s)" % t, "bool"
                t, k = self._expr(a)
                if k == "bytes":
                    return "(PyE.anyNonZero %s)" % t, "bool"
                return self.poison_expr(e, "any() of unsupported shape", "bool")
            if n == "len" and na == 1 and not e.keywords and self.global_ok(n):
                t, k = self._expr(e.args[0])
                if k == "intlist":
                    return "(PyE.lenL %s)" % t, "int"
            if n in self.tr.funcs and n not in self.tr.shadowed:
                return self.call_fn(e, n, None)
        return gen_rsadecrypt.Fn.call(self, e)

    def list_lit(self, a):
        items = [self.expr(x, "int")[0] for x in a.elts]
        return "[%s]" % ", ".join(items), "intlist"

    def call_fn(self, e, name, receiver):
        """call of a translated function with positional/keyword arguments and defaults"""
        params, kinds, defaults, res, fuel, recv_kind = self.tr.funcs[name]
        ps = list(zip(params, kinds, defaults))
        if recv_kind is not None:
            ps = ps[1:]
        if len(e.args) > len(ps):
            return self.poison_expr(e, "too many arguments for %s" % name, res)
        vals = {}
        for (p, k, d), a in zip(ps, e.args):
            vals[p] = a
        for q in e.keywords:
            if q.arg in vals or q.arg not in [p for p, _, _ in ps]:
                return self.poison_expr(e, "bad keyword argument %s for %s" % (q.arg, name), res)
            vals[q.arg] = q.value
        args = []
        for p, k, d in ps:
            if p in vals:
                args.append(self.expr(vals[p], k)[0])
            elif d is not None:
                args.append(self.expr(d, k)[0])
            else:
                return self.poison_expr(e, "missing argument %s for %s" % (p, name), res)
        if fuel:
            self.needs_fuel = True
        head = "%s%s%s" % (self.tr.lean_name(name), " fuel" if fuel else "", (" " + receiver) if receiver else "")
        if res == "unit":
            return "(← %s %s)" % (head, " ".join(args)), "unit"
        return "(← %s %s)" % (head, " ".join(args)), res

    def genexp(self, e, g):
        """bytearray(ELT for x, y in zip(A, B))"""
        return gen_rsadecrypt.Fn.genexp(self, e, g)

    # ---- statements ---------------------------------------------------------------------------
    def ret_value(self, node):
        k = self.result_kind
        if k == "unit":
            return self.poison_expr(node, "return of a value from a procedure", "unit")[0]
        if k in BASE_OF:
            t, kk = self._expr(node)
            if kk == "none":
                return "none"
            if kk == BASE_OF[k]:
                return "(some %s)" % t
            if kk == k:
                return t
            return self.poison_expr(node, "return of %s" % kk, k)[0]
        return self.expr(node, k)[0]

    def jumps(self, stmts):
        for s in stmts:
            for node in ast.walk(s):
                if isinstance(node, (ast.Return, ast.Raise)):
                    return True
        return False

    def run_cont(self, ind, cont):
        """what follows when a statement list is exhausted"""
        if cont is None:
            lines = self.poison_stmt(ast.Pass(), "function body does not end in a return", ind)
            lines.append(ind + "PyE.poison")
            return lines
        if cont[0] == "pure":
            return [ind + cont[1]]
        _, rest, outer = cont
        return self.block(rest, ind, outer)

    def block(self, stmts, ind, cont):
        if isinstance(cont, str):
            cont = ("pure", cont)
        lines = []
        i = 0
        n = len(stmts)
        while i < n:
            s = stmts[i]
            rest = stmts[i + 1:]
            i += 1
            if isinstance(s, ast.Expr) and isinstance(s.value, ast.Constant) and isinstance(s.value.value, str):
                continue
            if isinstance(s, ast.Pass):
                continue
            in_loop = cont is not None and self.in_pure(cont)
            if isinstance(s, ast.Return):
                if in_loop or s.value is None:
                    lines += self.poison_stmt(s, "return inside a loop or without a value", ind)
                    continue
                lines.append(ind + "pure %s" % self.ret_value(s.value))
                return lines
            if isinstance(s, ast.Raise):
                exc = self.exc_of(s)
                if in_loop or exc is None:
                    lines += self.poison_stmt(s, "raise of unsupported shape", ind)
                    continue
                lines.append(ind + "PyE.raise PyE.Err.%s" % exc)
                return lines
            if isinstance(s, ast.If) and (self.jumps(s.body) or self.jumps(s.orelse)) and not in_loop:
                bad = [x for b in (s.body, s.orelse) for st in b for x in ast.walk(st)
                       if isinstance(x, (ast.Break, ast.Continue, ast.Yield, ast.YieldFrom, ast.With,
                                         ast.FunctionDef, ast.Lambda, ast.Global, ast.Nonlocal, ast.ClassDef,
                                         ast.Import, ast.ImportFrom, ast.NamedExpr))]
                if bad:
                    lines += self.poison_stmt(s, "if statement containing an unsupported jump", ind)
                    continue
                c, _ = self.expr(s.test, "bool")
                body = [x for x in s.body if not isinstance(x, ast.Pass)]
                # flat form for  `if c: return v / raise E`  followed by the rest
                if not s.orelse and len(body) == 1 and isinstance(body[0], (ast.Return, ast.Raise)):
                    act = self.block(body, "", None)
                    if len(act) == 1:
                        lines.append(ind + "if %s then %s else do" % (c, act[0].strip()))
                        lines += self.block(rest, ind, cont)
                        return lines
                env0, fresh0 = dict(self.env), set(self.fresh)
                k2 = ("stmts", rest, cont)
                lines.append(ind + "if %s then do" % c)
                lines += self.block(s.body, ind + "    ", k2)
                self.env, self.fresh = dict(env0), set(fresh0)
                lines.append(ind + "else do")
                lines += self.block(s.orelse, ind + "    ", k2)
                self.env, self.fresh = dict(env0), set(fresh0)
                return lines
            hook = self.tr.statement(self, s, ind)
            if hook is not None:
                lines += hook
                continue
            # an `if` without jumps that defines new names: no merge, the rest is repeated in both branches
            if isinstance(s, ast.If) and not in_loop and not self.has_jump(s.body) and not self.has_jump(s.orelse) \
                    and any(x not in self.env for x in self.assigned(s.body + s.orelse)):
                c, _ = self.expr(s.test, "bool")
                env0, fresh0 = dict(self.env), set(self.fresh)
                k2 = ("stmts", rest, cont)
                lines.append(ind + "if %s then do" % c)
                lines += self.block(s.body, ind + "    ", k2)
                self.env, self.fresh = dict(env0), set(fresh0)
                lines.append(ind + "else do")
                lines += self.block(s.orelse, ind + "    ", k2)
                self.env, self.fresh = dict(env0), set(fresh0)
                return lines
            # for x in range(a, b) with the body in M
            if isinstance(s, ast.For) and isinstance(s.iter, ast.Call) and isinstance(s.iter.func, ast.Name) \
                    and s.iter.func.id == "range" and self.global_ok("range") and not s.iter.keywords \
                    and len(s.iter.args) in (1, 2) and isinstance(s.target, ast.Name) and not s.orelse \
                    and not self.has_jump(s.body) and s.target.id not in self.assigned(s.body):
                var = s.target.id
                lo = self.lit(0) if len(s.iter.args) == 1 else self.expr(s.iter.args[0], "int")[0]
                hi = self.expr(s.iter.args[-1], "int")[0]
                names = [x for x in self.assigned(s.body) if x in self.env and x != var]
                env0 = dict(self.env)
                tup, ty = self.tuple_of(names)
                tmp = self.fresh_tmp()
                self.env[var] = "int"
                inner = []
                if len(names) > 1:
                    inner += self.unpack(names, tmp, ind + "    ")
                inner += self.block(s.body, ind + "    ", "pure %s" % tup)
                ok = all(self.env.get(x) == env0[x] for x in names)
                self.env = dict(env0)
                self.env.pop(var, None)
                if not ok:
                    lines += self.poison_stmt(s, "the loop body changes the type of a variable", ind)
                    continue
                state = tmp if len(names) > 1 else (tup if names else "_")
                lines.append(ind + "let %s : %s ← PyE.forInL (Py.range %s %s) %s fun %s %s => do"
                             % (tmp if len(names) > 1 else tup, ty, lo, hi, tup, ident(var), state))
                lines += inner
                lines += self.unpack(names, tmp, ind)
                continue
            # b[i] op= v  on a local byte string that nobody else can see
            if isinstance(s, ast.AugAssign) and isinstance(s.target, ast.Subscript) \
                    and isinstance(s.target.value, ast.Name) and self.env.get(s.target.value.id) == "bytes" \
                    and s.target.value.id in self.fresh_bytes and not isinstance(s.target.slice, ast.Slice):
                x = s.target.value.id
                i_t, _ = self.expr(s.target.slice, "int")
                if "←" in i_t:
                    lines += self.poison_stmt(s, "index that can raise", ind)
                    continue
                load = ast.copy_location(ast.Subscript(value=ast.Name(id=x, ctx=ast.Load()), slice=s.target.slice,
                                                       ctx=ast.Load()), s.target)
                v, _ = self.binop(s, s.op, load, s.value)
                lines.append(ind + "let %s : Bytes ← PyE.setItem %s %s %s" % (ident(x), ident(x), i_t, v))
                continue
            # a byte string that the loop turns into a list of ints
            if isinstance(s, ast.While):
                for st in ast.walk(s):
                    if isinstance(st, ast.Assign) and len(st.targets) == 1 and isinstance(st.targets[0], ast.Name) \
                            and isinstance(st.value, ast.ListComp) and self.env.get(st.targets[0].id) == "bytes":
                        x = st.targets[0].id
                        lines.append(ind + "let %s : List Int := PyE.iterBytes %s" % (ident(x), ident(x)))
                        self.env[x] = "intlist"
            if isinstance(s, ast.Assign) and len(s.targets) == 1 and isinstance(s.targets[0], ast.Name):
                if isinstance(s.value, (ast.Name, ast.Attribute)):
                    self.fresh_bytes.discard(s.targets[0].id)
                else:
                    self.fresh_bytes.add(s.targets[0].id)
            if isinstance(s, ast.Assign) and len(s.targets) == 1 and isinstance(s.targets[0], ast.Tuple):
                tg, v = s.targets[0], s.value
                # q, r = divmod(a, b)
                if len(tg.elts) == 2 and all(isinstance(x, ast.Name) for x in tg.elts) and tg.elts[0].id != tg.elts[1].id \
                        and isinstance(v, ast.Call) and isinstance(v.func, ast.Name) and v.func.id == "divmod" \
                        and self.global_ok("divmod") and len(v.args) == 2 and not v.keywords:
                    a, _ = self.expr(v.args[0], "int")
                    b, _ = self.expr(v.args[1], "int")
                    tmp = self.fresh_tmp()
                    lines.append(ind + "let %s ← PyE.divmod %s %s" % (tmp, a, b))
                    for k, x in enumerate(tg.elts):
                        self.env[x.id] = "int"
                        lines.append(ind + "let %s : Int := %s.%d" % (ident(x.id), tmp, k + 1))
                    continue
            if isinstance(s, ast.Assign) and len(s.targets) == 1 and isinstance(s.targets[0], ast.Name):
                x = s.targets[0].id
                cur = self.env.get(x)
                v = s.value
                if not (isinstance(v, ast.Name) and self.env.get(v.id) in ("mac", "bytes", "rsaself", "kexself", "byteiter",
                                                                          "enumiter", "optbytes", "intlist")
                        and self.mutates_bytes) \
                        and not (isinstance(v, ast.Call) and isinstance(v.func, ast.Name)
                                 and v.func.id in ("iter", "enumerate")):
                    t, k = self._expr(v)
                    if k == "unit":
                        lines += self.poison_stmt(s, "value of a procedure call", ind)
                        continue
                    if cur in BASE_OF and (k == BASE_OF[cur] or k == "none"):
                        t, k = self.expr(v, cur)
                    elif k == "none":
                        lines += self.poison_stmt(s, "None assigned to a variable of unknown type", ind)
                        continue
                    self.env[x] = k
                    lines.append(ind + "let %s : %s := %s" % (ident(x), LEAN_TYPE[k], t))
                    continue
            if isinstance(s, ast.Expr) and isinstance(s.value, ast.Call):
                t, k = self._expr(s.value)
                if k == "unit" and t.startswith("(← "):
                    lines.append(ind + t[3:-1])
                    continue
            if isinstance(s, ast.Try):
                h = s.handlers
                hb = [x for x in h[0].body if not isinstance(x, ast.Pass)] if len(h) == 1 else []
                ok = (len(s.body) == 1 and isinstance(s.body[0], ast.Assign) and len(s.body[0].targets) == 1
                      and isinstance(s.body[0].targets[0], ast.Name) and not s.orelse and not s.finalbody
                      and len(h) == 1 and h[0].name is None and isinstance(h[0].type, ast.Name)
                      and h[0].type.id in EXC and self.global_ok(h[0].type.id) and len(hb) == 1 and not in_loop)
                if not ok:
                    lines += self.poison_stmt(s, "try statement of unsupported shape", ind)
                    continue
                x = s.body[0].targets[0].id
                t, k = self._expr(s.body[0].value)
                tmp = self.fresh_tmp()
                lines.append(ind + "let %s : Option %s ← PyE.attempt (do pure %s) PyE.Err.%s"
                             % (tmp, LEAN_TYPE[k], t, EXC[h[0].type.id]))
                hs = hb[0]
                if isinstance(hs, (ast.Return, ast.Raise)):
                    act = self.block([hs], "", None)
                    if len(act) != 1:
                        lines += self.poison_stmt(s, "handler of unsupported shape", ind)
                        continue
                    lines.append(ind + "if %s.isNone then %s else do" % (tmp, act[0].strip()))
                    self.env[x] = k
                    lines.append(ind + "let %s : %s ← PyE.getSome %s" % (ident(x), LEAN_TYPE[k], tmp))
                    continue
                if isinstance(hs, ast.Assign) and len(hs.targets) == 1 and isinstance(hs.targets[0], ast.Name) \
                        and hs.targets[0].id == x:
                    alt, _ = self.expr(hs.value, k)
                    if "←" in alt:
                        lines += self.poison_stmt(s, "handler value that can raise", ind)
                        continue
                    self.env[x] = k
                    lines.append(ind + "let %s : %s := (%s.getD %s)" % (ident(x), LEAN_TYPE[k], tmp, alt))
                    continue
                lines += self.poison_stmt(s, "handler of unsupported shape", ind)
                continue
            # everything else: the statement forms of the earlier translators (they take a `tail`)
            sub = gen_rsadecrypt.Fn.block(self, [s], ind, "\0")
            if sub and sub[-1] == ind + "\0":
                lines += sub[:-1]
            else:
                lines += self.poison_stmt(s, "statement form not available in this position", ind)
            continue
        lines += self.run_cont(ind, cont)
        return lines

    def in_pure(self, cont):
        while cont is not None:
            if cont[0] == "pure":
                return True
            cont = cont[2]
        return False


class Translator(object):
    """module-level functions and methods, translated in order; hooks for the domain specific parts"""
    NAMESPACE = "Tls.Gen"
    IMPORTS = ["TlsModel.PyExc"]
    HEADER = ""

    def __init__(self, repo):
        self.repo = repo
        self.funcs = {}
        self.shadowed = set()
        self.module_names = set()
        self.problems = []
        self.done = {}
        self.ct_imported = set()
        self.cryptomath_ok = set()
        self.kex_random_ok = set()
        self.compat_identity = False

    # hooks
    def attribute(self, fn, e, kind):
        return None

    def subscript(self, fn, e):
        return None

    def call(self, fn, e):
        return None

    def statement(self, fn, s, ind):
        return None

    def lean_name(self, name):
        return ident(name)

    def parse(self, rel):
        import os
        try:
            with open(os.path.join(self.repo, rel)) as f:
                return ast.parse(f.read())
        except (OSError, SyntaxError) as e:
            self.problems.append("cannot read %s: %s" % (rel, type(e).__name__))
            return ast.Module(body=[], type_ignores=[])

    @staticmethod
    def reachable(stmts):
        """top-level statements executed under the running interpreter: `if sys.version_info <op> (…)`
        is decided, every other compound statement is kept as it is"""
        import sys

        def cond(test):
            if isinstance(test, ast.BoolOp):
                vals = [cond(v) for v in test.values]
                if any(v is None for v in vals):
                    return None
                return all(vals) if isinstance(test.op, ast.And) else any(vals)
            if isinstance(test, ast.Compare) and len(test.ops) == 1 and isinstance(test.left, ast.Attribute) \
                    and isinstance(test.left.value, ast.Name) and test.left.value.id == "sys" \
                    and test.left.attr == "version_info" and isinstance(test.comparators[0], ast.Tuple) \
                    and all(isinstance(x, ast.Constant) and type(x.value) is int for x in test.comparators[0].elts):
                t = tuple(x.value for x in test.comparators[0].elts)
                v = tuple(sys.version_info[:3])
                return {ast.Lt: v < t, ast.LtE: v <= t, ast.Gt: v > t, ast.GtE: v >= t}.get(type(test.ops[0]))
            return None

        out = []
        for s in stmts:
            if isinstance(s, ast.If):
                c = cond(s.test)
                if c is not None:
                    out += Translator.reachable(s.body if c else s.orelse)
                    continue
            out.append(s)
        return out

    def bindings(self, stmts):
        """name -> list of top-level binding statements (defs, assignments, imports), in order"""
        b = {}
        for s in stmts:
            names = []
            if isinstance(s, (ast.FunctionDef, ast.ClassDef)):
                names = [s.name]
            elif isinstance(s, ast.ImportFrom):
                names = [(al.asname or al.name) for al in s.names]
            elif isinstance(s, ast.Import):
                names = [(al.asname or al.name).split(".")[0] for al in s.names]
            elif isinstance(s, ast.Expr) and isinstance(s.value, ast.Constant):
                names = []
            else:
                names = [n.id for n in ast.walk(s) if isinstance(n, ast.Name) and isinstance(n.ctx, (ast.Store, ast.Del))]
                names += [n.name for n in ast.walk(s) if isinstance(n, (ast.FunctionDef, ast.ClassDef))]
            for n in names:
                b.setdefault(n, []).append(s)
        return b

    def signature(self, fn, eparams, ekinds, is_method=False):
        """check the parameter list; returns (defaults list aligned with params) or a reason string"""
        a = fn.args
        params = [x.arg for x in a.args]
        if a.vararg or a.kwarg or a.kwonlyargs or getattr(a, "posonlyargs", []) or params != eparams:
            return "signature differs from (%s)" % ", ".join(eparams)
        defaults = [None] * (len(params) - len(a.defaults)) + list(a.defaults)
        for d in defaults:
            if d is not None and not (isinstance(d, ast.Constant) and (d.value is None or type(d.value) in (int, str, bool))):
                return "non-literal default value"
        return defaults

    def emit_function(self, out, rel, qual, name, fn, eparams, ekinds, eres, recv_kind=None, fnclass=Fn):
        sig_t = " ".join("(_ : %s)" % LEAN_TYPE[k] for k in ekinds)
        why = None
        defaults = None
        if fn is None:
            why = "no unique definition"
        else:
            allowed = set(self.allowed_decorators(name))
            decs = [d.id if isinstance(d, ast.Name) else None for d in fn.decorator_list]
            if any(d not in allowed for d in decs):
                why = "unexpected decorator"
            else:
                defaults = self.signature(fn, eparams, ekinds)
                if isinstance(defaults, str):
                    why, defaults = defaults, None
        if why is not None:
            out.append("/-- %s: NOT TRANSLATED (%s) -/" % (qual, why))
            out.append("def %s (_ : Nat) %s : PyE.M %s := PyE.poison" % (self.lean_name(name), sig_t, LEAN_TYPE[eres]))
            out.append("")
            self.problems.append("%s: %s" % (qual, why))
            # callers get poison through the missing entry in funcs
            return False
        f = fnclass(self, name)
        f.result_kind = eres
        f.py_names = set(n.id for n in ast.walk(fn) if isinstance(n, ast.Name)) | set(eparams)
        f.mutates_bytes = any(
            isinstance(n, ast.AugAssign)
            or (isinstance(n, ast.Subscript) and isinstance(n.ctx, (ast.Store, ast.Del)))
            or (isinstance(n, ast.Attribute) and isinstance(n.ctx, (ast.Store, ast.Del)) and n.attr != "_key_hash")
            or isinstance(n, ast.Delete)
            for n in ast.walk(fn))
        for p, k in zip(eparams, ekinds):
            f.env[p] = k
        body = f.block(fn.body, "  ", None)
        sig = " ".join("(%s : %s)" % (ident(p), LEAN_TYPE[k]) for p, k in zip(eparams, ekinds))
        out.append("/-- `%s` (%s line %d)%s -/" % (qual, rel, fn.lineno,
                                                  "" if not f.notes else "; POISONED: " + "; ".join(f.notes)))
        out.append("def %s%s %s : PyE.M %s := do" % (self.lean_name(name), " (fuel : Nat)" if f.needs_fuel else "",
                                                    sig, LEAN_TYPE[eres]))
        out += body
        out.append("")
        if f.notes:
            self.problems += ["%s: %s" % (qual, x) for x in f.notes]
        self.funcs[name] = (eparams, ekinds, defaults, eres, f.needs_fuel, recv_kind)
        return not f.notes

    def allowed_decorators(self, name):
        return []

    def footer(self, out, translated):
        out.append("/-- (function, translated without poison) -/")
        out.append("def translated : List (String × Bool) := [%s]"
                   % ", ".join('("%s", %s)' % (n, "true" if ok else "false") for n, ok in translated))
        out.append("")
        out.append("/-- what the translator did not understand (empty on the pinned source) -/")
        out.append("def translatorProblems : List String := [%s]"
                   % ", ".join('"%s"' % p.replace("\\", "\\\\").replace('"', "'") for p in self.problems))
        out.append("")
