"""tlslite/utils/constanttime.py -> lean/TlsModel/Gen/CT.lean   (C12)

A statement-by-statement translation of the constant-time helpers and of
ct_check_cbc_mac_and_pad from the Python AST of the tree under check into Lean functions over the
small Python-runtime model TlsModel/PyInt.lean (`Tls.Py`: Python ints as `Int` with Python's
`& | ^ ~ << >> //`, bytearray indexing/slicing, hmac objects, `none` = exception or poison).

    def f(a, b): ...     ->   def f (a b : Int) : Option Int := do ...
    x = e / x op= e      ->   let x : T := e'          (partial sub-expressions as `(← …)`)
    if c: return v       ->   if c' then pure v' else do <rest>
    if c: A else: B      ->   let s ← if c' then do A'; pure (vars) else do B'; pure (vars)
    for i in range(a,b)  ->   let s ← Py.forIn (Py.range a' b') (vars) fun i s => do …; pure (vars)
                              (vars = names assigned in the body that exist before the loop)
    m.copy()/update/digest, m.digest_size, m.block_size -> Py.macCopy/macUpdate/macDigest/…
    max(a,b), len(d), d[i], d[a:b], bytearray([v]), compatHMAC(x) (checked to be the identity in
    utils/compat.py), version == (3, 0), version[0], assert c

Parameter types come from the `:type name:` lines of the docstring (int when absent).
Whatever is not understood (other statements or operators, unknown calls or names, keyword
arguments, aliasing of mutable objects, a type the operator does not take, break/continue, a
`return` that is not the last statement of its block, ...) becomes `Py.poison`, so the function
returns `none` and the obligations `Gen.f … = some …` of Props/C12.lean fail; a missing or
re-shaped function is emitted as a constant `none` with the expected signature.  Nothing is guessed.
"""
import ast
import os

SRC = "tlslite/utils/constanttime.py"
COMPAT = "tlslite/utils/compat.py"

# name -> (expected parameter names, their Lean-side kinds, result kind)
EXPECT = [
    ("ct_lt_u32", ["val_a", "val_b"], ["int", "int"], "int"),
    ("ct_gt_u32", ["val_a", "val_b"], ["int", "int"], "int"),
    ("ct_le_u32", ["val_a", "val_b"], ["int", "int"], "int"),
    ("ct_lsb_prop_u8", ["val"], ["int"], "int"),
    ("ct_lsb_prop_u16", ["val"], ["int"], "int"),
    ("ct_isnonzero_u32", ["val"], ["int"], "int"),
    ("ct_neq_u32", ["val_a", "val_b"], ["int", "int"], "int"),
    ("ct_eq_u32", ["val_a", "val_b"], ["int", "int"], "int"),
    ("ct_check_cbc_mac_and_pad",
     ["data", "mac", "seqnumBytes", "contentType", "version", "block_size"],
     ["bytes", "mac", "bytes", "int", "ver", "int"], "bool"),
]

LEAN_TYPE = {"int": "Int", "bool": "Bool", "bytes": "Bytes", "mac": "Py.MacObj", "ver": "(Int × Int)"}
DOC_TYPES = {"int": "int", "bytearray": "bytes", "bytes": "bytes", "hashlib mac": "mac", "tuple of int": "ver"}

LEAN_KEYWORDS = set("""at do end else then if fun let have show from in open def theorem where with match
 by for mut return section namespace instance class structure inductive variable universe import export
 private protected partial unsafe macro syntax notation prefix infix infixl infixr postfix deriving using
 calc try catch finally unless break continue nomatch nofun this Type Prop Sort""".split())


# names the generated text uses itself: a Python local of the same name is renamed, never captured
RESERVED = set("""some none pure decide true false Py Int Nat Bytes Option List Unit Bool Tls CT Gen bind id
 ct_lt_u32 ct_gt_u32 ct_le_u32 ct_lsb_prop_u8 ct_lsb_prop_u16 ct_isnonzero_u32 ct_neq_u32 ct_eq_u32
 ct_check_cbc_mac_and_pad translated translatorProblems""".split())


def ident(n):
    if n in RESERVED:
        return "«py:%s»" % n
    return "«%s»" % n if n in LEAN_KEYWORDS or not n.isidentifier() else n


class Poison(Exception):
    pass


class Fn(object):
    """translation state of one function"""

    def __init__(self, tr, name):
        self.tr = tr
        self.name = name
        self.env = {}            # name -> kind, for names definitely assigned here
        self.fresh = set()       # mac-typed names bound to a fresh copy (mutation cannot be seen elsewhere)
        self.notes = []
        self.tmp = 0
        self.py_names = set()    # every identifier the Python function mentions

    def fresh_tmp(self):
        while True:
            t = "s%d" % self.tmp
            self.tmp += 1
            if t not in self.py_names:
                return t

    # ---- expressions: return (lean text, kind); partial pieces appear as (← …) --------------
    def poison_expr(self, node, why, kind="int"):
        self.notes.append("line %d: %s" % (getattr(node, "lineno", 0), why))
        return "(← (Py.poison : Option %s))" % LEAN_TYPE[kind], kind

    def lit(self, v):
        return "(%d : Int)" % v if v >= 0 else "(-%d : Int)" % (-v)

    def expr(self, e, want=None):
        t, k = self._expr(e)
        if want is not None and k != want:
            return self.poison_expr(e, "expected %s, found %s" % (want, k), want)
        return t, k

    def _expr(self, e):
        if isinstance(e, ast.Constant):
            if isinstance(e.value, bool):
                return ("true" if e.value else "false"), "bool"
            if isinstance(e.value, int):
                return self.lit(e.value), "int"
            return self.poison_expr(e, "constant of unsupported type")
        if isinstance(e, ast.Name):
            if isinstance(e.ctx, ast.Load) and e.id in self.env:
                return ident(e.id), self.env[e.id]
            return self.poison_expr(e, "name %s is not a definitely assigned local" % e.id)
        if isinstance(e, ast.Tuple):
            if len(e.elts) == 2 and all(isinstance(x, ast.Constant) and type(x.value) is int for x in e.elts):
                return "(%s, %s)" % (self.lit(e.elts[0].value), self.lit(e.elts[1].value)), "ver"
            return self.poison_expr(e, "tuple that is not a pair of int constants", "ver")
        if isinstance(e, ast.UnaryOp):
            if isinstance(e.op, ast.USub):
                a, _ = self.expr(e.operand, "int")
                return "(-%s)" % a, "int"
            if isinstance(e.op, ast.Invert):
                a, _ = self.expr(e.operand, "int")
                return "(Py.bnot %s)" % a, "int"
            if isinstance(e.op, ast.Not):
                a, _ = self.expr(e.operand, "bool")
                return "(!%s)" % a, "bool"
            return self.poison_expr(e, "unary operator")
        if isinstance(e, ast.BinOp):
            return self.binop(e, e.op, e.left, e.right)
        if isinstance(e, ast.Compare):
            return self.compare(e)
        if isinstance(e, ast.Subscript):
            return self.subscript(e)
        if isinstance(e, ast.Attribute):
            if isinstance(e.value, ast.Name) and self.env.get(e.value.id) == "mac":
                if e.attr == "digest_size":
                    return "(Py.macDigestSize %s)" % ident(e.value.id), "int"
                if e.attr == "block_size":
                    return "(Py.macBlockSize %s)" % ident(e.value.id), "int"
            return self.poison_expr(e, "attribute access")
        if isinstance(e, ast.Call):
            return self.call(e)
        return self.poison_expr(e, "expression %s" % type(e).__name__)

    def binop(self, node, op, left, right):
        a, _ = self.expr(left, "int")
        if isinstance(op, (ast.LShift, ast.RShift)):
            f = "shl" if isinstance(op, ast.LShift) else "shr"
            if isinstance(right, ast.Constant) and type(right.value) is int and right.value >= 0:
                return "(Py.%s %s %d)" % (f, a, right.value), "int"
            b, _ = self.expr(right, "int")
            return "(← Py.%s %s %s)" % ("lshift" if f == "shl" else "rshift", a, b), "int"
        b, _ = self.expr(right, "int")
        if isinstance(op, ast.Add):
            return "(%s + %s)" % (a, b), "int"
        if isinstance(op, ast.Sub):
            return "(%s - %s)" % (a, b), "int"
        if isinstance(op, ast.Mult):
            return "(%s * %s)" % (a, b), "int"
        if isinstance(op, ast.BitAnd):
            return "(Py.band %s %s)" % (a, b), "int"
        if isinstance(op, ast.BitOr):
            return "(Py.bor %s %s)" % (a, b), "int"
        if isinstance(op, ast.BitXor):
            return "(Py.bxor %s %s)" % (a, b), "int"
        if isinstance(op, ast.FloorDiv):
            return "(← Py.floordiv %s %s)" % (a, b), "int"
        return self.poison_expr(node, "binary operator %s" % type(op).__name__)

    def compare(self, e):
        if len(e.ops) != 1:
            return self.poison_expr(e, "chained comparison", "bool")
        op, l, r = e.ops[0], e.left, e.comparators[0]
        if isinstance(op, (ast.In, ast.NotIn)):
            a, ka = self.expr(l)
            if ka == "ver" and isinstance(r, ast.Tuple) and r.elts:
                items = [self.expr(x, "ver")[0] for x in r.elts]
                t = "(List.contains [%s] %s)" % (", ".join(items), a)
                return (t if isinstance(op, ast.In) else "(!%s)" % t), "bool"
            return self.poison_expr(e, "membership test of unsupported shape", "bool")
        a, ka = self.expr(l)
        b, kb = self.expr(r)
        if ka != kb or ka not in ("int", "ver"):
            return self.poison_expr(e, "comparison of %s with %s" % (ka, kb), "bool")
        if isinstance(op, ast.Eq):
            return "(decide (%s = %s))" % (a, b), "bool"
        if isinstance(op, ast.NotEq):
            return "(decide (%s ≠ %s))" % (a, b), "bool"
        if ka != "int":
            return self.poison_expr(e, "ordering of tuples", "bool")
        sym = {ast.Lt: "<", ast.LtE: "≤", ast.Gt: ">", ast.GtE: "≥"}.get(type(op))
        if sym is None:
            return self.poison_expr(e, "comparison operator", "bool")
        return "(decide (%s %s %s))" % (a, sym, b), "bool"

    def subscript(self, e):
        base, kb = self.expr(e.value)
        s = e.slice
        if kb == "ver":
            if isinstance(s, ast.Constant) and s.value in (0, 1) and type(s.value) is int:
                return "%s.%d" % (base, s.value + 1), "int"
            return self.poison_expr(e, "tuple index that is not the constant 0 or 1")
        if kb == "bytes":
            if isinstance(s, ast.Slice):
                if s.step is not None:
                    return self.poison_expr(e, "slice with a step", "bytes")
                lo = "none" if s.lower is None else "(some %s)" % self.expr(s.lower, "int")[0]
                hi = "none" if s.upper is None else "(some %s)" % self.expr(s.upper, "int")[0]
                return "(Py.slice %s %s %s)" % (base, lo, hi), "bytes"
            i, _ = self.expr(s, "int")
            return "(← Py.getItem %s %s)" % (base, i), "int"
        return self.poison_expr(e, "subscript of %s" % kb)

    def call(self, e):
        if e.keywords or any(isinstance(a, ast.Starred) for a in e.args):
            return self.poison_expr(e, "call with keyword or starred arguments")
        f = e.func
        if isinstance(f, ast.Attribute):
            if isinstance(f.value, ast.Name) and self.env.get(f.value.id) == "mac" and not e.args:
                if f.attr == "copy":
                    return "(Py.macCopy %s)" % ident(f.value.id), "mac"
                if f.attr == "digest":
                    return "(Py.macDigest %s)" % ident(f.value.id), "bytes"
            return self.poison_expr(e, "method call")
        if not isinstance(f, ast.Name) or f.id in self.env:
            return self.poison_expr(e, "call of something that is not a global name")
        n = f.id
        if n in ("max", "min") and len(e.args) == 2 and n not in self.tr.module_names:
            a, _ = self.expr(e.args[0], "int")
            b, _ = self.expr(e.args[1], "int")
            return "(Py.%s2 %s %s)" % (n, a, b), "int"
        if n == "len" and len(e.args) == 1 and n not in self.tr.module_names:
            a, _ = self.expr(e.args[0], "bytes")
            return "(Py.len %s)" % a, "int"
        if n == "bytearray" and len(e.args) == 1 and n not in self.tr.module_names:
            a = e.args[0]
            if isinstance(a, ast.List):
                items = [self.expr(x, "int")[0] for x in a.elts]
                return "(← Py.bytearrayOfInts [%s])" % ", ".join(items), "bytes"
            t, k = self.expr(a)
            if k == "bytes":
                return t, "bytes"        # a copy; values are immutable on the Lean side
            return self.poison_expr(e, "bytearray() of %s" % k, "bytes")
        if n == "compatHMAC" and len(e.args) == 1:
            if not self.tr.compat_identity:
                return self.poison_expr(e, "compatHMAC is not the identity in utils/compat.py", "bytes")
            return self.expr(e.args[0], "bytes")
        if n in self.tr.done:
            params, kinds, res = self.tr.done[n]
            if len(e.args) != len(params):
                return self.poison_expr(e, "call of %s with %d arguments" % (n, len(e.args)), res)
            args = [self.expr(a, k)[0] for a, k in zip(e.args, kinds)]
            return "(← %s %s)" % (n, " ".join(args)), res
        return self.poison_expr(e, "call of unknown function %s" % n)

    # ---- statements --------------------------------------------------------------------------
    @staticmethod
    def assigned(stmts):
        """names bound anywhere in the statements (source order, no duplicates)"""
        out = []

        def add(n):
            if n not in out:
                out.append(n)

        for s in stmts:
            for node in ast.walk(s):
                if isinstance(node, ast.Name) and isinstance(node.ctx, (ast.Store, ast.Del)):
                    add(node.id)
                elif isinstance(node, ast.Expr) and isinstance(node.value, ast.Call) and \
                        isinstance(node.value.func, ast.Attribute) and isinstance(node.value.func.value, ast.Name):
                    add(node.value.func.value.id)          # x.update(..) mutates x
        return out

    @staticmethod
    def has_jump(stmts):
        for s in stmts:
            for node in ast.walk(s):
                if isinstance(node, (ast.Return, ast.Break, ast.Continue, ast.Yield, ast.YieldFrom, ast.Raise,
                                     ast.Try, ast.With, ast.While, ast.FunctionDef, ast.Lambda, ast.Global,
                                     ast.Nonlocal, ast.ClassDef, ast.Import, ast.ImportFrom, ast.NamedExpr)):
                    return True
        return False

    def poison_stmt(self, node, why, ind):
        self.notes.append("line %d: %s" % (getattr(node, "lineno", 0), why))
        return [ind + "let _ : Unit ← Py.poison  -- line %d: %s" % (getattr(node, "lineno", 0), why)]

    def tuple_of(self, names):
        if not names:
            return "()", "Unit"
        if len(names) == 1:
            return ident(names[0]), LEAN_TYPE[self.env[names[0]]]
        return "(%s)" % ", ".join(ident(n) for n in names), "(%s)" % " × ".join(LEAN_TYPE[self.env[n]] for n in names)

    def unpack(self, names, src, ind):
        """let-bind the components of the (right-nested) tuple `src`"""
        if len(names) <= 1:
            return []
        out = []
        path = src
        for k, n in enumerate(names):
            last = k == len(names) - 1
            out.append(ind + "let %s : %s := %s" % (ident(n), LEAN_TYPE[self.env[n]], path if last else path + ".1"))
            path = path + ".2"
        return out

    def block(self, stmts, ind, tail):
        """translate a list of statements.  `tail` = text of the final `pure …` when the block
        falls through (None in function bodies, where a `return` must end the block)."""
        lines = []
        i = 0
        n = len(stmts)
        while i < n:
            s = stmts[i]
            last = i == n - 1
            i += 1
            if isinstance(s, ast.Expr) and isinstance(s.value, ast.Constant) and isinstance(s.value.value, str):
                continue
            if isinstance(s, ast.Pass):
                continue
            if isinstance(s, ast.Return):
                if tail is not None or not last or s.value is None:
                    lines += self.poison_stmt(s, "return that does not end the function body", ind)
                    continue
                t, _ = self.expr(s.value, self.result_kind)
                lines.append(ind + "pure %s" % t)
                return lines
            if isinstance(s, ast.Assert):
                if s.msg is not None:
                    lines += self.poison_stmt(s, "assert with a message expression", ind)
                    continue
                t, _ = self.expr(s.test, "bool")
                lines.append(ind + "Py.guard %s" % t)
                continue
            if isinstance(s, ast.Assign):
                if len(s.targets) != 1 or not isinstance(s.targets[0], ast.Name):
                    lines += self.poison_stmt(s, "assignment target is not a single name", ind)
                    continue
                x = s.targets[0].id
                if isinstance(s.value, ast.Name) and self.env.get(s.value.id) in ("mac", "bytes"):
                    # two names for one mutable object: mutation through one would be invisible here
                    lines += self.poison_stmt(s, "alias of a mutable object", ind)
                    continue
                t, k = self.expr(s.value)
                self.env[x] = k
                self.fresh.discard(x)
                if k == "mac" and isinstance(s.value, ast.Call) and isinstance(s.value.func, ast.Attribute) \
                        and s.value.func.attr == "copy":
                    self.fresh.add(x)
                lines.append(ind + "let %s : %s := %s" % (ident(x), LEAN_TYPE[k], t))
                continue
            if isinstance(s, ast.AugAssign):
                if not isinstance(s.target, ast.Name) or self.env.get(s.target.id) != "int":
                    lines += self.poison_stmt(s, "augmented assignment to something that is not an int local", ind)
                    continue
                x = s.target.id
                load = ast.copy_location(ast.Name(id=x, ctx=ast.Load()), s.target)
                t, k = self.binop(s, s.op, load, s.value)
                lines.append(ind + "let %s : Int := %s" % (ident(x), t))
                continue
            if isinstance(s, ast.Expr) and isinstance(s.value, ast.Call):
                c = s.value
                if isinstance(c.func, ast.Attribute) and c.func.attr == "update" and isinstance(c.func.value, ast.Name) \
                        and c.func.value.id in self.fresh and self.env.get(c.func.value.id) == "mac" \
                        and len(c.args) == 1 and not c.keywords:
                    x = c.func.value.id
                    t, _ = self.expr(c.args[0], "bytes")
                    lines.append(ind + "let %s : Py.MacObj := Py.macUpdate %s %s" % (ident(x), ident(x), t))
                    continue
                lines += self.poison_stmt(s, "expression statement", ind)
                continue
            if isinstance(s, ast.If):
                # early return:  if c: return v   <rest>
                if not s.orelse and len(s.body) == 1 and isinstance(s.body[0], ast.Return) \
                        and s.body[0].value is not None and tail is None and not last:
                    c, _ = self.expr(s.test, "bool")
                    v, _ = self.expr(s.body[0].value, self.result_kind)
                    lines.append(ind + "if %s then pure %s else do" % (c, v))
                    lines += self.block(stmts[i:], ind, None)
                    return lines
                if self.has_jump(s.body) or self.has_jump(s.orelse):
                    lines += self.poison_stmt(s, "if statement containing a jump", ind)
                    continue
                names = [x for x in self.assigned(s.body + s.orelse) if x in self.env]
                c, _ = self.expr(s.test, "bool")
                env0, fresh0 = dict(self.env), set(self.fresh)
                tup, ty = self.tuple_of(names)
                tmp = self.fresh_tmp()
                res = []
                ok = True
                fresh_after = set(fresh0)
                for branch in (s.body, s.orelse):
                    self.env, self.fresh = dict(env0), set(fresh0)
                    body = self.block(branch, ind + "    ", "pure %s" % tup)
                    if any(self.env.get(x) != env0[x] for x in names):
                        ok = False
                    res.append(body)
                    fresh_after &= self.fresh
                self.env, self.fresh = dict(env0), fresh_after
                if not ok:
                    lines += self.poison_stmt(s, "a branch changes the type of a variable", ind)
                    continue
                lines.append(ind + "let %s : %s ← (if %s then (do" % (tmp if len(names) > 1 else tup, ty, c))
                lines += res[0]
                lines.append(ind + "    ) else (do")
                lines += res[1]
                lines.append(ind + "    ))")
                lines += self.unpack(names, tmp, ind)
                continue
            if isinstance(s, ast.For):
                it = s.iter
                if s.orelse or not isinstance(s.target, ast.Name) or s.target.id in self.env \
                        or self.has_jump(s.body) \
                        or not (isinstance(it, ast.Call) and isinstance(it.func, ast.Name) and it.func.id == "range"
                                and "range" not in self.tr.module_names and "range" not in self.env
                                and not it.keywords and len(it.args) in (1, 2)):
                    lines += self.poison_stmt(s, "for loop of unsupported shape", ind)
                    continue
                var = s.target.id
                if var in self.assigned(s.body):
                    lines += self.poison_stmt(s, "loop variable assigned in the body", ind)
                    continue
                lo = self.lit(0) if len(it.args) == 1 else self.expr(it.args[0], "int")[0]
                hi = self.expr(it.args[-1], "int")[0]
                names = [x for x in self.assigned(s.body) if x in self.env]
                env0, fresh0 = dict(self.env), set(self.fresh)
                tup, ty = self.tuple_of(names)
                tmp = self.fresh_tmp()
                self.env[var] = "int"
                inner = []
                if len(names) > 1:
                    inner += self.unpack(names, tmp, ind + "    ")
                inner += self.block(s.body, ind + "    ", "pure %s" % tup)
                ok = all(self.env.get(x) == env0[x] for x in names)
                self.env, self.fresh = dict(env0), set(fresh0) & self.fresh
                if not ok:
                    lines += self.poison_stmt(s, "the loop body changes the type of a variable", ind)
                    continue
                state = tmp if len(names) > 1 else (tup if names else "_")
                lines.append(ind + "let %s : %s ← Py.forIn (Py.range %s %s) %s fun %s %s => do"
                             % (tmp if len(names) > 1 else tup, ty, lo, hi, tup, ident(var), state))
                lines += inner
                lines += self.unpack(names, tmp, ind)
                continue
            lines += self.poison_stmt(s, "statement %s" % type(s).__name__, ind)
        if tail is None:
            # falling off the end returns None, which no caller here expects
            lines += self.poison_stmt(stmts[-1] if stmts else ast.Pass(), "function body does not end in a return", ind)
            lines.append(ind + "Py.poison")
        else:
            lines.append(ind + tail)
        return lines


class Translator(object):
    def __init__(self, repo):
        self.repo = repo
        self.done = {}           # translated functions callable from later ones
        self.module_names = set()
        self.compat_identity = False
        self.problems = []

    def doc_kinds(self, fn):
        doc = ast.get_docstring(fn) or ""
        out = {}
        for line in doc.splitlines():
            line = line.strip()
            if line.startswith(":type ") and ":" in line[6:]:
                n, t = line[6:].split(":", 1)
                out[n.strip()] = DOC_TYPES.get(t.strip())
        return out

    def check_compat(self):
        """compatHMAC as defined for the running interpreter must be `def compatHMAC(x): return x`"""
        import sys
        try:
            with open(os.path.join(self.repo, COMPAT)) as f:
                tree = ast.parse(f.read())
        except (OSError, SyntaxError):
            return False

        def cond(test):
            # sys.version_info <op> (tuple of ints)
            if isinstance(test, ast.Compare) and len(test.ops) == 1 and isinstance(test.left, ast.Attribute) \
                    and isinstance(test.left.value, ast.Name) and test.left.value.id == "sys" \
                    and test.left.attr == "version_info" and isinstance(test.comparators[0], ast.Tuple) \
                    and all(isinstance(x, ast.Constant) and type(x.value) is int for x in test.comparators[0].elts):
                t = tuple(x.value for x in test.comparators[0].elts)
                v = tuple(sys.version_info[:3])
                op = test.ops[0]
                return {ast.Lt: v < t, ast.LtE: v <= t, ast.Gt: v > t, ast.GtE: v >= t}.get(type(op))
            return None

        found = []

        def walk(stmts):
            for s in stmts:
                if isinstance(s, ast.If):
                    c = cond(s.test)
                    if c is None:
                        if any(isinstance(n, ast.FunctionDef) and n.name == "compatHMAC"
                               for b in (s.body, s.orelse) for x in b for n in ast.walk(x)):
                            found.append(None)
                        continue
                    walk(s.body if c else s.orelse)
                elif isinstance(s, ast.FunctionDef) and s.name == "compatHMAC":
                    found.append(s)
                elif not isinstance(s, (ast.FunctionDef, ast.ClassDef)):
                    for n in ast.walk(s):
                        if isinstance(n, ast.Name) and n.id == "compatHMAC" and isinstance(n.ctx, ast.Store):
                            found.append(None)

        walk(tree.body)
        if len(found) != 1 or found[0] is None:
            return False
        fn = found[0]
        body = [s for s in fn.body if not (isinstance(s, ast.Expr) and isinstance(s.value, ast.Constant))]
        a = fn.args
        return (len(a.args) == 1 and not a.vararg and not a.kwarg and not a.kwonlyargs and not fn.decorator_list
                and len(body) == 1 and isinstance(body[0], ast.Return) and isinstance(body[0].value, ast.Name)
                and body[0].value.id == a.args[0].arg)

    def generate(self):
        path = os.path.join(self.repo, SRC)
        out = ["/- GENERATED by translate/gen_ct.py from %s of the tree under check; do not edit." % SRC,
               "   Statement-by-statement translation into the Python-runtime model TlsModel/PyInt.lean;",
               "   `Py.poison` marks what the translator did not understand. -/",
               "import TlsModel.PyInt",
               "set_option linter.unusedVariables false",
               "namespace Tls.CT.Gen",
               "open Tls Tls.CT",
               ""]
        try:
            with open(path) as f:
                text = f.read()
            tree = ast.parse(text)
        except (OSError, SyntaxError) as e:
            tree = ast.Module(body=[], type_ignores=[])
            text = ""
            self.problems.append("cannot read %s: %s" % (SRC, type(e).__name__))
        self.compat_identity = self.check_compat()
        if not self.compat_identity:
            self.problems.append("compatHMAC is not recognisably the identity")
        # module-level bindings: the last top-level def of a name wins; any other binding poisons it
        defs = {}
        bad = set()
        imported = set()
        for s in tree.body:
            if isinstance(s, ast.FunctionDef):
                defs[s.name] = s
                self.module_names.add(s.name)
            elif isinstance(s, (ast.Import, ast.ImportFrom)):
                for al in s.names:
                    nm = (al.asname or al.name).split(".")[0]
                    imported.add(nm)
                    if nm == "*":
                        # anything may be rebound: nothing can be resolved
                        bad.update(n for n, _, _, _ in EXPECT)
                        bad.add("compatHMAC")
                    if nm in [n for n, _, _, _ in EXPECT]:
                        bad.add(nm)
                    if not (isinstance(s, ast.ImportFrom) and s.module == "compat" and al.name == "compatHMAC"
                            and al.asname is None):
                        self.module_names.add(nm)
            elif isinstance(s, ast.Expr) and isinstance(s.value, ast.Constant):
                pass
            else:
                for n in ast.walk(s):
                    if isinstance(n, ast.Name) and isinstance(n.ctx, (ast.Store, ast.Del)):
                        bad.add(n.id)
                        self.module_names.add(n.id)
                    elif isinstance(n, (ast.FunctionDef, ast.ClassDef)):
                        bad.add(n.name)
                        self.module_names.add(n.name)
        if "compatHMAC" not in imported or "compatHMAC" in defs or "compatHMAC" in bad:
            self.compat_identity = False
        translated = []
        for name, eparams, ekinds, eres in EXPECT:
            sig = " ".join("(%s : %s)" % (ident(p), LEAN_TYPE[k]) for p, k in zip(eparams, ekinds))
            fn = defs.get(name)
            why = None
            if fn is None:
                why = "no top-level def"
            elif name in bad:
                why = "name is rebound at module level"
            else:
                a = fn.args
                params = [x.arg for x in a.args]
                if a.vararg or a.kwarg or a.kwonlyargs or getattr(a, "posonlyargs", []) or fn.decorator_list \
                        or params != eparams:
                    why = "signature differs from (%s)" % ", ".join(eparams)
                else:
                    dk = self.doc_kinds(fn)
                    kinds = [dk.get(p) or "int" for p in params]
                    if kinds != ekinds:
                        why = "documented parameter types differ from %s" % ekinds
                    # defaults: only literal ints are accepted (callers here always pass every argument)
                    for d in a.defaults:
                        if not (isinstance(d, ast.Constant) and type(d.value) is int):
                            why = "non-literal default value"
            if why is not None:
                out.append("/-- %s: NOT TRANSLATED (%s) -/" % (name, why))
                out.append("def %s %s : Option %s := Py.poison" % (name, " ".join("(_ : %s)" % LEAN_TYPE[k] for k in ekinds),
                                                                 LEAN_TYPE[eres]))
                out.append("")
                self.problems.append("%s: %s" % (name, why))
                translated.append((name, False))
                continue
            f = Fn(self, name)
            f.result_kind = eres
            f.py_names = set(n.id for n in ast.walk(fn) if isinstance(n, ast.Name)) | set(eparams)
            for p, k in zip(eparams, ekinds):
                f.env[p] = k
            body = f.block(fn.body, "  ", None)
            out.append("/-- `%s` (%s line %d)%s -/" % (name, SRC, fn.lineno,
                                                      "" if not f.notes else "; POISONED: " + "; ".join(f.notes)))
            out.append("def %s %s : Option %s := do" % (name, sig, LEAN_TYPE[eres]))
            out += body
            out.append("")
            if f.notes:
                self.problems += ["%s: %s" % (name, x) for x in f.notes]
            self.done[name] = (eparams, ekinds, eres)
            translated.append((name, not f.notes))
        out.append("/-- (function, translated without poison) -/")
        out.append("def translated : List (String × Bool) := [%s]"
                   % ", ".join('("%s", %s)' % (n, "true" if ok else "false") for n, ok in translated))
        out.append("")
        out.append("/-- what the translator did not understand (empty on the pinned source) -/")
        out.append("def translatorProblems : List String := [%s]"
                   % ", ".join('"%s"' % p.replace("\\", "\\\\").replace('"', "'") for p in self.problems))
        out.append("")
        out.append("end Tls.CT.Gen")
        return "\n".join(out) + "\n"


def generate(repo):
    return {"TlsModel/Gen/CT.lean": Translator(repo).generate()}


if __name__ == "__main__":
    import sys
    sys.stdout.write(generate(sys.argv[1] if len(sys.argv) > 1 else os.environ.get("VERIF_REPO", "/repo"))
                     ["TlsModel/Gen/CT.lean"])
