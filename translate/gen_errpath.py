"""Error-path structure of tlslite-ng -> lean/TlsModel/Gen/ErrPath.lean            (property C08)

Read from the AST of the tree under check (nothing is executed):

(a) every `except` clause of tlslite/tlsrecordlayer.py (class TLSRecordLayer) and tlslite/tlsconnection.py:
    the classes caught and what the body does -
        sendError A      body is exactly  `for result in self._sendError(AlertDescription.A, ...): yield result`
        shutdownRaise x  body is exactly  `self._shutdown(x)` ; `raise`
        reraise / swallow (`pass`)
        other <text>     anything else, verbatim (ast.unparse of the body)
    plus the statement lists of `_sendError` and `_shutdown` themselves, the class hierarchy of
    tlslite/errors.py + tlslite/utils/codec.py and the numbers of constants.AlertDescription.
(b) every `<Class>(...).parse(p)` call in `_getMsg`: the class, the innermost `if`/`elif` test that selects it
    and the `try` statements around it (innermost first) with their handlers; the exception classes that the
    `parse*` methods of messages.py / extensions.py and the `Parser` of utils/codec.py raise syntactically.
(c) every use `v.attr` of a variable bound to `<recv>.getExtension(ExtensionType.X)` (and `v.attr[<int>]`,
    `<recv>.getExtension(..).attr`) in tlsconnection.py / tlsrecordlayer.py / keyexchange.py / handshakehelpers.py
    with the path condition under which it is reached, as propositional formulas over presence atoms:
        ext(recv, X)            the extension is present   (`if v`, `if v is not None`, `v and ...`, ...)
        nonempty(recv, X, attr) the list attribute is non-empty (`if v.attr`, `len(v.attr) == 1`, ...)
        name(n)                 truthiness of another local
        opaque                  any other test (universally quantified in Lean)
    a branch that always ends in `_sendError`/raise/return/continue/break contributes the negation of its test
    to what follows.  Whether a use is dominated is decided in Lean (TlsModel/ErrSites.lean) by enumeration.
    Also: every `if <test>: <_sendError ...>` of those files (`exitChecks`), used by the Lean side to justify
    presence facts that were established in another function.
(d) `CompressedCertificate._decompress` / `.parse` (messages.py): the tests and calls that bound the output.

The translator decides nothing: unknown shapes are written out as `other`/`opaque` or reported in
`translatorProblems`, which the obligations require to be empty.
"""
import ast
import os

from . import lean_str

RL_FILE = "tlslite/tlsrecordlayer.py"
CONN_FILE = "tlslite/tlsconnection.py"
USE_FILES = [CONN_FILE, RL_FILE, "tlslite/keyexchange.py", "tlslite/handshakehelpers.py"]
PARSE_FILES = ["tlslite/messages.py", "tlslite/extensions.py", "tlslite/utils/codec.py"]


def src(n):
    return " ".join(ast.unparse(n).split())


def dotted(e):
    if isinstance(e, ast.Name):
        return e.id
    if isinstance(e, ast.Attribute):
        b = dotted(e.value)
        return None if b is None else b + "." + e.attr
    return None


def is_senderror_loop(s):
    return (isinstance(s, ast.For) and isinstance(s.iter, ast.Call) and isinstance(s.iter.func, ast.Attribute)
            and s.iter.func.attr == "_sendError" and dotted(s.iter.func.value) == "self"
            and len(s.body) == 1 and isinstance(s.body[0], ast.Expr) and isinstance(s.body[0].value, ast.Yield)
            and not s.orelse)


def senderror_alert(s):
    """AlertDescription name of a _sendError loop, None when the first argument has another shape"""
    a = s.iter.args[0] if s.iter.args else None
    if isinstance(a, ast.Attribute) and dotted(a.value) == "AlertDescription":
        return a.attr
    return None


def functions(tree):
    """(qualified name, FunctionDef) for every function/method, nested ones included"""
    out = []

    def rec(node, prefix):
        for c in ast.iter_child_nodes(node):
            if isinstance(c, ast.ClassDef):
                rec(c, prefix + c.name + ".")
            elif isinstance(c, (ast.FunctionDef, ast.AsyncFunctionDef)):
                out.append((prefix + c.name, c))
                rec(c, prefix + c.name + ".")
            else:
                rec(c, prefix)
    rec(tree, "")
    return out


# ------------------------------------------------------------------------------------------- (a) handlers
def handler_classes(h):
    if h.type is None:
        return ["*"]
    ts = h.type.elts if isinstance(h.type, ast.Tuple) else [h.type]
    return [dotted(t) or ("?" + src(t)) for t in ts]


def handler_action(h):
    b = h.body
    if len(b) == 1 and is_senderror_loop(b[0]):
        a = senderror_alert(b[0])
        if a is not None:
            return ("sendError", a)
    if len(b) == 1 and isinstance(b[0], ast.Pass):
        return ("swallow", None)
    if len(b) == 1 and isinstance(b[0], ast.Raise) and b[0].exc is None:
        return ("reraise", None)
    if (len(b) == 2 and isinstance(b[0], ast.Expr) and isinstance(b[0].value, ast.Call)
            and dotted(b[0].value.func) == "self._shutdown" and len(b[0].value.args) == 1 and not b[0].value.keywords
            and isinstance(b[1], ast.Raise) and b[1].exc is None):
        return ("shutdownRaise", src(b[0].value.args[0]))
    return ("other", " ; ".join(src(s) for s in b))


def own_nodes(fn):
    """nodes of fn without those of nested functions"""
    stack = list(ast.iter_child_nodes(fn))
    while stack:
        n = stack.pop()
        yield n
        if not isinstance(n, (ast.FunctionDef, ast.AsyncFunctionDef, ast.Lambda)):
            stack.extend(ast.iter_child_nodes(n))


def collect_handlers(path, tree):
    rows = []
    for name, fn in functions(tree):
        hs = [n for n in own_nodes(fn) if isinstance(n, ast.ExceptHandler)]
        for h in sorted(hs, key=lambda x: x.lineno):
            rows.append({"file": os.path.basename(path), "fn": name.split(".", 1)[-1] if "." in name else name,
                         "classes": handler_classes(h), "action": handler_action(h), "line": h.lineno})
    return rows


def lean_action(a):
    k, x = a
    if k in ("sendError", "shutdownRaise", "other"):
        return "(.%s %s)" % (k, lean_str(x))
    return "." + k


def lean_strs(xs):
    return "[" + ", ".join(lean_str(x) for x in xs) + "]"


# ------------------------------------------------------------------------------------------- (b) parse sites
def collect_parse_sites(fn):
    """walk _getMsg keeping the stack of enclosing try statements and the innermost if-test"""
    sites = []

    def expr_sites(e, tries, sel):
        for n in ast.walk(e):
            if isinstance(n, ast.Call) and isinstance(n.func, ast.Attribute) and n.func.attr == "parse" \
                    and isinstance(n.func.value, ast.Call):
                cls = dotted(n.func.value.func) or ("?" + src(n.func.value.func))
                sites.append({"cls": cls, "selector": sel, "tries": list(tries), "line": n.lineno,
                              "arg": src(n.args[0]) if len(n.args) == 1 else "?"})

    def walk(stmts, tries, sel):
        for s in stmts:
            if isinstance(s, ast.Try):
                hs = [(handler_classes(h), handler_action(h)) for h in s.handlers]
                walk(s.body, [hs] + tries, sel)
                walk(s.orelse, [hs] + tries, sel)
                for h in s.handlers:
                    walk(h.body, tries, sel)
                walk(s.finalbody, tries, sel)
            elif isinstance(s, ast.If):
                expr_sites(s.test, tries, sel)
                walk(s.body, tries, src(s.test))
                # an `elif` is an If in orelse: its own test becomes the selector there
                if len(s.orelse) == 1 and isinstance(s.orelse[0], ast.If):
                    walk(s.orelse, tries, sel)
                else:
                    walk(s.orelse, tries, "else of " + src(s.test))
            elif isinstance(s, (ast.For, ast.While)):
                expr_sites(s.iter if isinstance(s, ast.For) else s.test, tries, sel)
                walk(s.body, tries, sel)
                walk(s.orelse, tries, sel)
            elif isinstance(s, ast.With):
                walk(s.body, tries, sel)
            elif isinstance(s, (ast.FunctionDef, ast.ClassDef)):
                pass
            else:
                expr_sites(s, tries, sel)
    walk(fn.body, [], "")
    return sites


def parser_raises(repo):
    """exception classes raised syntactically inside parse*/_parse* methods of the message and extension classes
    and inside any method of codec.Parser"""
    out = set()
    problems = []
    for f in PARSE_FILES:
        tree = ast.parse(open(os.path.join(repo, f)).read())
        for name, fn in functions(tree):
            short = name.split(".")[-1]
            in_parser = f.endswith("codec.py") and name.startswith("Parser.")
            if not (in_parser or short.startswith("parse") or short.startswith("_parse") or short == "_decompress"):
                continue
            for n in own_nodes(fn):
                if isinstance(n, ast.Raise):
                    if n.exc is None:
                        continue        # re-raise inside a handler
                    e = n.exc.func if isinstance(n.exc, ast.Call) else n.exc
                    d = dotted(e)
                    if d is None:
                        problems.append("raise of unknown shape at %s:%d" % (f, n.lineno))
                        out.add((name, "?"))
                    else:
                        out.add((name, d))
                elif isinstance(n, ast.Assert):
                    out.add((name, "AssertionError"))
    return sorted(out), problems


def class_bases(repo):
    rows = []
    for f in ("tlslite/errors.py", "tlslite/utils/codec.py"):
        tree = ast.parse(open(os.path.join(repo, f)).read())
        for n in tree.body:
            if isinstance(n, ast.ClassDef):
                bs = [dotted(b) or "?" for b in n.bases]
                if any(b.endswith("Error") or b.endswith("Exception") or b in ("SyntaxError",) for b in bs) or \
                        n.name.endswith("Error") or n.name.endswith("Exception"):
                    rows.append((n.name, bs))
    return rows


def alert_numbers(repo):
    tree = ast.parse(open(os.path.join(repo, "tlslite/constants.py")).read())
    rows = []
    for n in tree.body:
        if isinstance(n, ast.ClassDef) and n.name == "AlertDescription":
            for s in n.body:
                if isinstance(s, ast.Assign) and len(s.targets) == 1 and isinstance(s.targets[0], ast.Name) \
                        and isinstance(s.value, ast.Constant) and isinstance(s.value.value, int):
                    rows.append((s.targets[0].id, s.value.value))
    return rows


# ------------------------------------------------------------------------------------------- (c) extension uses
def is_getext(v):
    return isinstance(v, ast.Call) and isinstance(v.func, ast.Attribute) and v.func.attr == "getExtension" \
        and len(v.args) == 1 and not v.keywords


def getext_src(v):
    """(receiver text, extension name) or None when the argument is not ExtensionType.<name>"""
    r = dotted(v.func.value)
    a = v.args[0]
    if r is None:
        return None
    if isinstance(a, ast.Attribute) and dotted(a.value) == "ExtensionType":
        return (r, a.attr)
    if dotted(a) is not None:
        return (r, "<" + dotted(a) + ">")       # a local holding the type: same value as long as it is not reassigned
    return None


TERM = "TERM"


class State(object):
    """bind: local -> (recv, ext) | 'ambiguous' ; path: tuple of formulas (conjuncts)"""

    def __init__(self, bind=None, path=()):
        self.bind = dict(bind or {})
        self.path = tuple(path)

    def copy(self):
        return State(self.bind, self.path)

    def add(self, fs):
        s = self.copy()
        s.path = s.path + tuple(f for f in fs if f != ("tt",))
        return s


def merge(a, b):
    if a is TERM:
        return b
    if b is TERM:
        return a
    bind = {}
    for k in set(a.bind) | set(b.bind):
        x, y = a.bind.get(k), b.bind.get(k)
        if not isinstance(x, tuple) and not isinstance(y, tuple) and "ambiguous" not in (x, y):
            if x == y == "none":
                bind[k] = "none"
            continue                    # not an extension object on either path
        if x == y:
            bind[k] = x
        elif x == "none" and isinstance(y, tuple):
            bind[k] = ("maybe",) + y[-2:]
        elif y == "none" and isinstance(x, tuple):
            bind[k] = ("maybe",) + x[-2:]
        elif isinstance(x, tuple) and isinstance(y, tuple) and x[-2:] == y[-2:]:
            bind[k] = ("maybe",) + x[-2:]
        else:
            bind[k] = "ambiguous"
    path = tuple(f for f in a.path if f in b.path)
    return State(bind, path)


def f_atoms(f, out):
    if f[0] == "atom":
        out.add(f[1])
    elif f[0] == "not":
        f_atoms(f[1], out)
    elif f[0] in ("and", "or"):
        f_atoms(f[1], out)
        f_atoms(f[2], out)
    return out


class UseScan(object):
    def __init__(self, fname, fn, filename):
        self.fname, self.fn, self.filename = fname, fn, filename
        self.uses = []
        self.exit_checks = []
        self.problems = []
        self.nopaque = 0

    # ---- atoms are tuples: ("ext", recv, ext) ("nonempty", recv, ext, attr) ("name", n) ("opaque", k)
    def opaque(self):
        self.nopaque += 1
        return ("atom", ("opaque", str(self.nopaque)))

    def src_of(self, e, st):
        """presence atom for an expression that denotes an extension object, or None"""
        if isinstance(e, ast.Name) and isinstance(st.bind.get(e.id), tuple):
            b = st.bind[e.id]
            if b[0] == "maybe":
                # None on some path: the presence fact belongs to the local, not to the extension
                return ("ext", b[1], b[2] + " via " + e.id)
            return ("ext",) + b
        if is_getext(e):
            s = getext_src(e)
            if s:
                return ("ext",) + s
        return None

    def list_of(self, e, st):
        """nonempty atom for `<ext object>.attr`"""
        if isinstance(e, ast.Attribute):
            b = self.src_of(e.value, st)
            if b:
                return ("nonempty", b[1], b[2], e.attr)
        return None

    def formula(self, t, st):
        """formula of a test; records the uses inside it (left to right, with short-circuit knowledge)"""
        if isinstance(t, ast.BoolOp):
            isand = isinstance(t.op, ast.And)
            cur, fs = st, []
            for v in t.values:
                f = self.formula(v, cur)
                fs.append(f)
                cur = cur.add([f if isand else ("not", f)])
            out = fs[0]
            for f in fs[1:]:
                out = ("and" if isand else "or", out, f)
            return out
        if isinstance(t, ast.UnaryOp) and isinstance(t.op, ast.Not):
            return ("not", self.formula(t.operand, st))
        if isinstance(t, ast.Compare) and len(t.ops) == 1:
            l, op, r = t.left, t.ops[0], t.comparators[0]
            if isinstance(r, ast.Constant) and r.value is None and isinstance(op, (ast.Is, ast.IsNot)):
                a = self.src_of(l, st)
                self.scan(l, st)
                if a:
                    return ("atom", a) if isinstance(op, ast.IsNot) else ("not", ("atom", a))
                if isinstance(l, ast.Name):
                    f = ("atom", ("notnone", l.id))
                    return f if isinstance(op, ast.IsNot) else ("not", f)
                return self.opaque()
            # len(E) <op> k
            if isinstance(l, ast.Call) and dotted(l.func) == "len" and len(l.args) == 1 \
                    and isinstance(r, ast.Constant) and isinstance(r.value, int):
                a = self.list_of(l.args[0], st)
                self.scan(l.args[0], st)
                if a:
                    k, ne = r.value, ("atom", a)
                    if isinstance(op, ast.Eq):
                        return ("not", ne) if k == 0 else ("and", ne, self.opaque())
                    if isinstance(op, ast.NotEq):
                        return ne if k == 0 else ("not", ("and", ne, self.opaque()))
                    if isinstance(op, ast.Gt):
                        return ne if k == 0 else ("and", ne, self.opaque())
                    if isinstance(op, ast.GtE):
                        return ("tt",) if k <= 0 else (ne if k == 1 else ("and", ne, self.opaque()))
                    if isinstance(op, ast.Lt):
                        return ("not", ne) if k == 1 else self.opaque()
                    if isinstance(op, ast.LtE):
                        return ("not", ne) if k == 0 else self.opaque()
                return self.opaque()
            # A != B between two extension objects: not both absent
            if isinstance(op, (ast.NotEq, ast.Eq)):
                a, b = self.src_of(l, st), self.src_of(r, st)
                self.scan(l, st)
                self.scan(r, st)
                if a and b:
                    f = ("and", ("or", ("atom", a), ("atom", b)), self.opaque())
                    return f if isinstance(op, ast.NotEq) else ("not", f)
                return self.opaque()
        a = self.src_of(t, st)
        if a:
            self.scan(t, st)
            return ("atom", a)
        a = self.list_of(t, st)
        if a:
            self.scan(t, st)
            return ("atom", a)
        if isinstance(t, ast.Name):
            return ("atom", ("name", t.id))
        self.scan(t, st)
        return self.opaque()

    def scan(self, e, st):
        """record the uses inside expression e reached under st"""
        if e is None:
            return
        if isinstance(e, ast.BoolOp):
            self.formula(e, st)
            return
        if isinstance(e, ast.IfExp):
            f = self.formula(e.test, st)
            self.scan(e.body, st.add([f]))
            self.scan(e.orelse, st.add([("not", f)]))
            return
        if isinstance(e, (ast.ListComp, ast.SetComp, ast.GeneratorExp, ast.DictComp)):
            cur = st.copy()
            for g in e.generators:
                self.scan(g.iter, cur)
                for n in ast.walk(g.target):
                    if isinstance(n, ast.Name):
                        cur.bind.pop(n.id, None)
                        cur.path = tuple(f for f in cur.path if ("name", n.id) not in f_atoms(f, set()))
                for c in g.ifs:
                    cur = cur.add([self.formula(c, cur)])
            for sub in ([e.key, e.value] if isinstance(e, ast.DictComp) else [e.elt]):
                self.scan(sub, cur)
            return
        if isinstance(e, ast.Lambda):
            self.scan(e.body, State(st.bind, ()))       # evaluated later: no path knowledge
            return
        if isinstance(e, ast.Subscript) and isinstance(e.slice, ast.Constant) and isinstance(e.slice.value, int) \
                and not isinstance(e.ctx, ast.Store):
            a = self.list_of(e.value, st)
            if a:
                self.use(a, "index", "%s[%d]" % (a[3], e.slice.value), e.lineno, st, src(e.value.value))
        if isinstance(e, ast.Attribute):
            a = self.src_of(e.value, st)
            if a:
                self.use(a, "attr", e.attr, e.lineno, st, src(e.value) if isinstance(e.value, ast.Name) else "<call>")
                if isinstance(e.value, ast.Call):
                    self.scan(e.value.func.value, st)
                return
            if isinstance(e.value, ast.Name) and st.bind.get(e.value.id) == "ambiguous":
                self.use(("ext", "?", "?"), "attr", e.attr, e.lineno, st, e.value.id, poison=True)
                return
            if is_getext(e.value) and getext_src(e.value) is None:
                self.use(("ext", "?", "?"), "attr", e.attr, e.lineno, st, "<call>", poison=True)
        for c in ast.iter_child_nodes(e):
            if isinstance(c, ast.expr):
                self.scan(c, st)
            elif isinstance(c, ast.keyword):
                self.scan(c.value, st)
            elif isinstance(c, ast.comprehension):
                self.scan(c.iter, st)

    def use(self, target, kind, attr, line, st, var, poison=False):
        self.uses.append({"fn": self.fname, "file": os.path.basename(self.filename), "target": target, "kind": kind,
                          "attr": attr, "line": line, "var": var, "path": st.path, "poison": poison})

    # ---- statements
    def assigned_names(self, nodes):
        out = set()
        for s in nodes:
            for n in ast.walk(s):
                tg = []
                if isinstance(n, ast.Assign):
                    tg = n.targets
                elif isinstance(n, (ast.AugAssign, ast.AnnAssign, ast.For, ast.comprehension, ast.NamedExpr)):
                    tg = [n.target]
                elif isinstance(n, ast.With):
                    tg = [i.optional_vars for i in n.items if i.optional_vars is not None]
                elif isinstance(n, ast.ExceptHandler) and n.name:
                    out.add(n.name)
                for t in tg:
                    for m in ast.walk(t):
                        if isinstance(m, ast.Name) and isinstance(m.ctx, ast.Store):
                            out.add(m.id)
        return out

    def kill(self, st, names):
        """forget everything that depends on the (re)assigned locals: bindings, atoms whose receiver starts with
        one of them, atoms of locals bound to such a receiver"""
        s = st.copy()
        for n in names:
            s.bind.pop(n, None)
        for k, v in list(s.bind.items()):
            if isinstance(v, tuple) and (v[-2].split(".")[0] in names
                                         or (v[-1].startswith("<") and v[-1][1:-1].split(".")[0] in names)):
                s.bind.pop(k)

        def dead(a):
            if a[0] in ("name", "notnone"):
                return a[1] in names
            if a[0] in ("ext", "nonempty"):
                return a[1].split(".")[0] in names or (a[2].startswith("<") and a[2][1:-1].split(".")[0] in names) \
                    or (" via " in a[2] and a[2].split(" via ")[1] in names)
            return False
        s.path = tuple(f for f in s.path if not any(dead(a) for a in f_atoms(f, set())))
        return s

    def walk(self, stmts, st):
        for s in stmts:
            st = self.stmt(s, st)
            if st is TERM:
                return TERM
        return st

    def stmt(self, s, st):
        if is_senderror_loop(s):
            for a in s.iter.args:
                self.scan(a, st)
            return TERM
        if isinstance(s, (ast.Raise, ast.Return)):
            for c in ast.iter_child_nodes(s):
                if isinstance(c, ast.expr):
                    self.scan(c, st)
            return TERM
        if isinstance(s, (ast.Continue, ast.Break)):
            return TERM
        if isinstance(s, ast.If):
            f = self.formula(s.test, st)
            if len(s.body) == 1 and is_senderror_loop(s.body[0]):
                self.exit_checks.append({"fn": self.fname, "test": src(s.test), "alert": senderror_alert(s.body[0]) or "?",
                                         "line": s.lineno})
            a = self.walk(s.body, st.add([f]))
            b = self.walk(s.orelse, st.add([("not", f)]))
            if a is TERM and b is TERM:
                return TERM
            if a is TERM:
                return b
            if b is TERM:
                return a
            return merge(a, b)
        if isinstance(s, (ast.For, ast.While)):
            names = self.assigned_names([s])
            k0 = self.kill(st, names)
            if isinstance(s, ast.For):
                self.scan(s.iter, st)
                body_st = k0
            else:
                body_st = k0.add([self.formula(s.test, k0)])
            self.walk(s.body, body_st)
            self.walk(s.orelse, k0)
            return k0
        if isinstance(s, ast.Try):
            a = self.walk(s.body, st)
            k0 = self.kill(st, self.assigned_names(s.body))
            outs = []
            if a is not TERM:
                outs.append(self.walk(s.orelse, a) if s.orelse else a)
            for h in s.handlers:
                outs.append(self.walk(h.body, self.kill(k0, {h.name} if h.name else set())))
            if s.finalbody:
                self.walk(s.finalbody, k0)
            r = TERM
            for o in outs:
                r = merge(r, o)
            return r
        if isinstance(s, ast.With):
            for i in s.items:
                self.scan(i.context_expr, st)
            names = set()
            for i in s.items:
                if i.optional_vars is not None:
                    names |= {m.id for m in ast.walk(i.optional_vars) if isinstance(m, ast.Name)}
            return self.walk(s.body, self.kill(st, names))
        if isinstance(s, (ast.FunctionDef, ast.AsyncFunctionDef, ast.ClassDef)):
            # nested function: evaluated later, keeps bindings but no path knowledge
            sub = UseScan(self.fname + "." + s.name, s, self.filename)
            if not isinstance(s, ast.ClassDef):
                sub.walk(s.body, State(st.bind, ()))
                self.uses += sub.uses
                self.exit_checks += sub.exit_checks
            return st
        if isinstance(s, ast.Assert):
            f = self.formula(s.test, st)
            return st.add([f])
        # simple statement: uses first, then the effect of the assignment
        for c in ast.iter_child_nodes(s):
            if isinstance(c, ast.expr):
                self.scan(c, st)
        names = self.assigned_names([s])
        if names:
            st = self.kill(st, names)
            if isinstance(s, ast.Assign) and len(s.targets) == 1 and isinstance(s.targets[0], ast.Name):
                v = s.targets[0].id
                if is_getext(s.value):
                    g = getext_src(s.value)
                    st.bind[v] = g if g else "ambiguous"
                elif isinstance(s.value, ast.Name) and s.value.id in st.bind:
                    st.bind[v] = st.bind[s.value.id]
                elif isinstance(s.value, ast.Constant) and s.value.value is None:
                    st.bind[v] = "none"
        return st


def collect_uses(repo):
    uses, checks, problems = [], [], []
    for f in USE_FILES:
        tree = ast.parse(open(os.path.join(repo, f)).read())
        top = [(n, fn) for n, fn in functions(tree)]
        nested = set()
        for n, fn in top:
            for m in ast.walk(fn):
                if m is not fn and isinstance(m, (ast.FunctionDef, ast.AsyncFunctionDef)):
                    nested.add(id(m))
        for name, fn in top:
            if id(fn) in nested:
                continue            # scanned together with its parent
            short = name.split(".", 1)[-1] if "." in name else name
            sc = UseScan(short, fn, f)
            sc.walk(fn.body, State())
            uses += sc.uses
            checks += [dict(c, file=os.path.basename(f)) for c in sc.exit_checks]
            problems += sc.problems
    return uses, checks, problems


def truth_overrides(repo):
    """extension classes that define their own truth value (then `if ext:` is not a presence test)"""
    tree = ast.parse(open(os.path.join(repo, "tlslite/extensions.py")).read())
    out = []
    for n in tree.body:
        if isinstance(n, ast.ClassDef):
            for m in n.body:
                if isinstance(m, ast.FunctionDef) and m.name in ("__bool__", "__len__", "__nonzero__"):
                    out.append(n.name + "." + m.name)
    return out


def lean_formula(f, index):
    k = f[0]
    if k == "tt":
        return ".tt"
    if k == "atom":
        return "(.atom %d)" % index[f[1]]
    if k == "not":
        return "(.not %s)" % lean_formula(f[1], index)
    return "(.%s %s %s)" % (k, lean_formula(f[1], index), lean_formula(f[2], index))


def lean_atom(a):
    if a[0] == "ext":
        return "⟨\"ext\", %s, %s, \"\"⟩" % (lean_str(a[1]), lean_str(a[2]))
    if a[0] == "nonempty":
        return "⟨\"nonempty\", %s, %s, %s⟩" % (lean_str(a[1]), lean_str(a[2]), lean_str(a[3]))
    if a[0] in ("name", "notnone"):
        return "⟨\"%s\", %s, \"\", \"\"⟩" % (a[0], lean_str(a[1]))
    return "⟨\"opaque\", %s, \"\", \"\"⟩" % lean_str(a[1])


MAX_ATOMS = 12


def lean_use(u, problems):
    target = u["target"]
    # keep the conjuncts that say something about a presence atom or a named local (dropping a conjunct only
    # weakens the hypothesis)
    keep = []
    for f in u["path"]:
        at = f_atoms(f, set())
        if any(a[0] in ("ext", "nonempty") for a in at):
            keep.append(f)
        elif f[0] == "atom" and f[1][0] in ("name", "notnone"):
            keep.append(f)
    atoms = [target]
    for f in keep:
        for a in sorted(f_atoms(f, set())):
            if a not in atoms:
                atoms.append(a)
    if len(atoms) > MAX_ATOMS:
        # too many atoms for the enumeration: keep only the conjuncts that mention the target
        keep = [f for f in keep if target in f_atoms(f, set())]
        atoms = [target]
        for f in keep:
            for a in sorted(f_atoms(f, set())):
                if a not in atoms:
                    atoms.append(a)
    if len(atoms) > MAX_ATOMS or u["poison"]:
        problems.append("%s:%d use of %s.%s could not be expressed" % (u["file"], u["line"], u["var"], u["attr"]))
        keep, atoms = [], [target]
    index = {a: i for i, a in enumerate(atoms)}
    return ("  { file := %s, fn := %s, var := %s, attr := %s, kind := %s, line := %d,\n"
            "    atoms := [%s],\n    path := [%s] }"
            % (lean_str(u["file"]), lean_str(u["fn"]), lean_str(u["var"]), lean_str(u["attr"]), lean_str(u["kind"]),
               u["line"], ", ".join(lean_atom(a) for a in atoms), ", ".join(lean_formula(f, index) for f in keep)))


# ------------------------------------------------------------------------------------------- (d) decompression
def decompress_sites(repo):
    tree = ast.parse(open(os.path.join(repo, "tlslite/messages.py")).read())
    rows, problems = [], []
    fns = {n: f for n, f in functions(tree) if n in ("CompressedCertificate._decompress", "CompressedCertificate.parse")}
    if len(fns) != 2:
        problems.append("CompressedCertificate._decompress / parse not found")
    for name in sorted(fns):
        fn = fns[name]
        for n in sorted(own_nodes(fn), key=lambda x: (getattr(x, "lineno", 0), getattr(x, "col_offset", 0))):
            if isinstance(n, ast.If):
                raises = [m for m in n.body if isinstance(m, ast.Raise)]
                if raises and len(n.body) == 1:
                    e = raises[0].exc
                    cls = dotted(e.func if isinstance(e, ast.Call) else e) or "?"
                    rows.append((name, "check", src(n.test), cls))
            elif isinstance(n, ast.Call):
                d = dotted(n.func)
                if d and (d.endswith(".decompress") or d.endswith("._decompress") or d == "zlib.decompressobj"):
                    rows.append((name, "call", src(n), ""))
                elif isinstance(n.func, ast.Subscript) and dotted(n.func.value) == "compression_algo_impls":
                    rows.append((name, "call", src(n), ""))
            elif isinstance(n, ast.ExceptHandler):
                k, x = handler_action(n)
                rows.append((name, "except", ",".join(handler_classes(n)), x if k == "other" else k))
    return rows, problems


# ------------------------------------------------------------------------------------------- output
def generate(repo):
    problems = []
    rl_tree = ast.parse(open(os.path.join(repo, RL_FILE)).read())
    conn_tree = ast.parse(open(os.path.join(repo, CONN_FILE)).read())
    handlers = collect_handlers(RL_FILE, rl_tree) + collect_handlers(CONN_FILE, conn_tree)
    rl_fns = dict(functions(rl_tree))
    shapes = []
    for n in ("TLSRecordLayer._sendError", "TLSRecordLayer._shutdown"):
        if n not in rl_fns:
            problems.append("%s not found" % n)
            continue
        shapes.append((n.split(".")[1], [src(s) for s in rl_fns[n].body
                                          if not (isinstance(s, ast.Expr) and isinstance(s.value, ast.Constant))]))
    getmsg = rl_fns.get("TLSRecordLayer._getMsg")
    sites = collect_parse_sites(getmsg) if getmsg else []
    if not getmsg:
        problems.append("_getMsg not found")
    raises, p2 = parser_raises(repo)
    problems += p2
    uses, checks, p3 = collect_uses(repo)
    problems += p3
    drows, p4 = decompress_sites(repo)
    problems += p4
    use_lines = [lean_use(u, problems) for u in uses]

    L = []
    L.append("import TlsModel.ErrSites")
    L.append("/- GENERATED by translate/gen_errpath.py from the Python AST of tlslite/tlsrecordlayer.py, tlsconnection.py,")
    L.append("   keyexchange.py, handshakehelpers.py, messages.py, extensions.py, errors.py, utils/codec.py, constants.py")
    L.append("   of the tree under check; do not edit. -/")
    L.append("namespace Tls.Gen.ErrPath")
    L.append("open Tls.ErrSites")
    L.append("")
    L.append("/-- (a) every `except` clause, in source order -/")
    L.append("def handlers : List Handler := [")
    L.append(",\n".join("  { file := %s, fn := %s, classes := %s, action := %s }"
                        % (lean_str(h["file"]), lean_str(h["fn"]), lean_strs(h["classes"]), lean_action(h["action"]))
                        for h in handlers))
    L.append("]")
    L.append("")
    L.append("/-- source lines of `handlers` (reporting only) -/")
    L.append("def handlerLines : List Nat := [%s]" % ", ".join(str(h["line"]) for h in handlers))
    L.append("")
    L.append("/-- statements of `_sendError` and `_shutdown` -/")
    L.append("def shapes : List (String × List String) := [")
    L.append(",\n".join("  (%s, %s)" % (lean_str(n), lean_strs(b)) for n, b in shapes))
    L.append("]")
    L.append("")
    L.append("def excBases : List (String × List String) := [")
    L.append(",\n".join("  (%s, %s)" % (lean_str(n), lean_strs(b)) for n, b in class_bases(repo)))
    L.append("]")
    L.append("")
    L.append("def alertNumbers : List (String × Nat) := [%s]"
             % ", ".join("(%s, %d)" % (lean_str(n), v) for n, v in alert_numbers(repo)))
    L.append("")
    L.append("/-- (b) every `<Class>(...).parse(p)` in `_getMsg` -/")
    L.append("def parseSites : List ParseSite := [")
    rows = []
    for s in sites:
        tries = "[" + ", ".join("[" + ", ".join("(%s, %s)" % (lean_strs(c), lean_action(a)) for c, a in t) + "]"
                                for t in s["tries"]) + "]"
        rows.append("  { cls := %s, selector := %s, arg := %s,\n    tries := %s }"
                    % (lean_str(s["cls"]), lean_str(s["selector"]), lean_str(s["arg"]), tries))
    L.append(",\n".join(rows))
    L.append("]")
    L.append("")
    L.append("/-- (function, exception class) for every `raise` / `assert` inside the parse methods -/")
    L.append("def parserRaises : List (String × String) := [%s]"
             % ", ".join("(%s, %s)" % (lean_str(a), lean_str(b)) for a, b in raises))
    L.append("")
    L.append("/-- (c) uses of extension objects with their path conditions -/")
    L.append("def extUses : List ExtUse := [")
    L.append(",\n".join(use_lines))
    L.append("]")
    L.append("")
    L.append("/-- every `if <test>: _sendError(<alert>)` of the scanned files -/")
    L.append("def exitChecks : List ExitCheck := [")
    L.append(",\n".join("  { file := %s, fn := %s, test := %s, alert := %s }"
                        % (lean_str(c["file"]), lean_str(c["fn"]), lean_str(c["test"]), lean_str(c["alert"]))
                        for c in checks))
    L.append("]")
    L.append("")
    L.append("def extTruthOverrides : List String := %s" % lean_strs(truth_overrides(repo)))
    L.append("")
    L.append("/-- (d) the tests, calls and handlers of CompressedCertificate._decompress / .parse -/")
    L.append("def decompressSites : List (String × String × String × String) := [")
    L.append(",\n".join("  (%s, %s, %s, %s)" % tuple(lean_str(x) for x in r) for r in drows))
    L.append("]")
    L.append("")
    L.append("def translatorProblems : List String := %s" % lean_strs(problems))
    L.append("")
    L.append("end Tls.Gen.ErrPath")
    return {"TlsModel/Gen/ErrPath.lean": "\n".join(L) + "\n"}
