"""tlslite/tlsconnection.py, tlsrecordlayer.py, keyexchange.py, x509.py, checker.py, x509certchain.py
   -> lean/TlsModel/Gen/AuthSrc.lean                                                          (C05)

Read from the AST of the tree under check (no import of tlslite):

  events <function>     the authentication-relevant events of a function in source (pre-)order:
                          schemeCheck n      `if <x> not in <list> [or ...]: _sendError(<alert n>)`
                          sigVerify f        `if not <key>.verify/.hashAndVerify(...)`: what the body does (f)
                          finCheck f         `if <..>.verify_data != <..>`: what the body does
                          binderCheck f      try: verify_binder(...) except: <f>
                          skeVerify f1 f2    try: verifyServerKeyExchange except IllegalParameter -> f1, DecryptionFailed -> f2
                          kexProcess f       try: processClientKeyExchange except TLSIllegalParameterException -> f
                          calcBytes tag      calcVerifyBytes(..., b'client' | b'server')  (1 = client, 2 = server, 0 = none)
                          dcVerify f         `if not <..>.delegated_credential.verify(...)`
                          certCheck          _clientGetKeyFromChain / _check_certchain_with_settings
                          call g             call of another handshake generator that is itself analysed
                          skip               `continue` in the PSK identity loop
                          selectPsk          `selected_psk = i`
                          recordResumed      `resumed_client_cert_chain = ticket.client_cert_chain`
                          record k           session.create(..) with peer identity arguments / session.clientCertChain = ..
                          yieldChain         `yield (.., <chain>)` result of a sub-handshake
                          checkerCall        `checker(self)` / `_check_before_tickets(..)`
                          ticketSend         `_serverSendTickets(..)`
                          cacheInsert a      `sessionCache[sessionID] = <v>`; a = 1 iff <v> is exactly `self.session`
                          done               `_handshakeDone(..)`
                          setResumed         `self.resumed = ..`
                          srpCheck           `if <A|B> % <N> == 0: raise`
                          binderCompare a    `if not ct_compare_digest(x, y): raise`; a = 1 iff neither argument is sliced
                          setResuming v      `resuming = ..`: 0 False, 1 True, 3 `not external`, 2 anything else
                          sigList a          `.. = self._sigHashesToList(<s>, ..)`: 1 (settings, certList=..), 2 (settings) without
                                             certList, 3 (HandshakeSettings(), .., <chain>) as in PHA, 0 anything else
                          odd                a verify / verify_data / checker use of a shape not listed above (POISON)
  verifySites           every `.verify(` / `.hashAndVerify(` call (also through `x = key.verify` aliases) with the
                        fate of a False result: 1 alert n / 2 raise / 3 returned to the caller / 0 ignored or unknown
  checker               decision structure of Checker.__call__ and X509CertChain.getFingerprint

A failure action `f` is encoded as  alert n -> n ,  raise -> 1000 ,  anything else -> 0.
Unknown shapes become `odd` events / action 0, which falsify the gen_* theorems of Props/C05.lean.
"""
import ast
import os

FILES = {"conn": "tlslite/tlsconnection.py", "rec": "tlslite/tlsrecordlayer.py", "kex": "tlslite/keyexchange.py",
         "x509": "tlslite/x509.py", "checker": "tlslite/checker.py", "chain": "tlslite/x509certchain.py",
         "helpers": "tlslite/handshakehelpers.py"}

FUNCS = [("conn", "_serverTLS13Handshake"), ("conn", "_clientTLS13Handshake"), ("conn", "_serverCertKeyExchange"),
         ("conn", "_handshakeServerAsyncHelper"), ("conn", "_clientKeyExchange"), ("conn", "_handshakeClientAsyncHelper"),
         ("conn", "_getFinished"), ("conn", "_sendFinished"), ("conn", "_serverFinished"), ("conn", "_clientFinished"),
         ("conn", "_serverSRPKeyExchange"), ("conn", "_handshakeWrapperAsync"), ("conn", "_check_before_tickets"),
         ("rec", "_handle_srv_pha"), ("kex", "_tls12_verify_SKE"), ("kex", "_tls12_verify_ecdsa_SKE"),
         ("kex", "_tls12_verify_eddsa_ske"), ("kex", "_tls12_verify_dsa_SKE"), ("kex", "verifyServerKeyExchange"),
         ("kex", "SRPKeyExchange.processClientKeyExchange"), ("kex", "SRPKeyExchange.processServerKeyExchange"),
         ("x509", "DelegatedCredential.verify"), ("helpers", "verify_binder")]

ALERTS = {"close_notify": 0, "unexpected_message": 10, "bad_record_mac": 20, "handshake_failure": 40,
          "bad_certificate": 42, "illegal_parameter": 47, "decode_error": 50, "decrypt_error": 51,
          "insufficient_security": 71, "internal_error": 80, "missing_extension": 109,
          "unknown_psk_identity": 115, "certificate_required": 116, "unsupported_extension": 110}
SUBCALLS = ["_serverCertKeyExchange", "_serverFinished", "_clientKeyExchange", "_clientFinished", "_getFinished",
            "_sendFinished", "_serverSRPKeyExchange", "_serverTLS13Handshake", "_clientTLS13Handshake",
            "_serverAnonKeyExchange"]
VERIFY_ATTRS = ("verify", "hashAndVerify")


def _src(node):
    try:
        return ast.unparse(node)
    except Exception:
        return "?"


def _find_func(tree, qual):
    parts = qual.split(".")
    nodes = [tree]
    for i, p in enumerate(parts):
        nxt = []
        for n in nodes:
            for c in ast.walk(n):
                if isinstance(c, (ast.FunctionDef, ast.ClassDef)) and c.name == p:
                    nxt.append(c)
        nodes = nxt
    fs = [n for n in nodes if isinstance(n, ast.FunctionDef)]
    return fs[0] if fs else None


def _calls(node):
    return [c for c in ast.walk(node) if isinstance(c, ast.Call)]


def _call_name(c):
    f = c.func
    if isinstance(f, ast.Attribute):
        return f.attr
    if isinstance(f, ast.Name):
        return f.id
    return None


def _action(body):
    """what a failure branch does: alert n -> n, raise -> 1000, else 0"""
    for st in body:
        for c in _calls(st):
            if _call_name(c) == "_sendError" and c.args:
                a = c.args[0]
                if isinstance(a, ast.Attribute) and a.attr in ALERTS:
                    return ALERTS[a.attr]
                # Alert object prepared before: look for AlertDescription.<x> anywhere in the body
        if isinstance(st, ast.Raise):
            return 1000
    for st in body:
        for n in ast.walk(st):
            if isinstance(n, ast.Attribute) and isinstance(n.value, ast.Name) and n.value.id == "AlertDescription" \
                    and n.attr in ALERTS:
                return ALERTS[n.attr]
    return 0


class Extract(object):
    def __init__(self, fn):
        self.fn = fn
        self.events = []
        self.sites = []         # verify call sites: (method, fate)
        self.aliases = set()
        self.handled_calls = set()
        for n in ast.walk(fn):
            if isinstance(n, ast.Assign) and isinstance(n.value, ast.Attribute) and n.value.attr in VERIFY_ATTRS:
                for t in n.targets:
                    if isinstance(t, ast.Name):
                        self.aliases.add(t.id)
        self.block(fn.body, in_loop=False)
        # verify calls that no recognised statement consumed
        for c in _calls(fn):
            if self.is_verify(c) and id(c) not in self.handled_calls:
                self.sites.append((_call_name(c) or "alias", 0))
                self.events.append(("odd", 0))

    def is_verify(self, c):
        f = c.func
        if isinstance(f, ast.Attribute) and f.attr in VERIFY_ATTRS:
            # not the library-level verifiers that are analysed as functions of their own
            return True
        if isinstance(f, ast.Name) and f.id in self.aliases:
            return True
        return False

    def is_dc_verify(self, c):
        return isinstance(c.func, ast.Attribute) and c.func.attr == "verify" and "delegated_credential" in _src(c.func.value)

    def ev(self, *e):
        self.events.append(tuple(e))

    def expr_events(self, node):
        """events of calls inside an expression / simple statement"""
        for c in _calls(node):
            nm = _call_name(c)
            if nm == "calcVerifyBytes":
                tag = 0
                for a in list(c.args) + [k.value for k in c.keywords]:
                    if isinstance(a, ast.Constant) and a.value == b"client":
                        tag = 1
                    if isinstance(a, ast.Constant) and a.value == b"server":
                        tag = 2
                self.ev("calcBytes", tag)
            elif nm in ("_clientGetKeyFromChain", "_check_certchain_with_settings"):
                self.ev("certCheck", 0)
            elif nm in SUBCALLS:
                self.ev("call", SUBCALLS.index(nm))
            elif nm == "_check_before_tickets" or (isinstance(c.func, ast.Name) and c.func.id == "checker"):
                self.ev("checkerCall", 0)
            elif nm == "_serverSendTickets":
                self.ev("ticketSend", 0)
            elif nm == "_handshakeDone":
                self.ev("done", 0)
            elif nm == "create" and isinstance(c.func, ast.Attribute) and "session" in _src(c.func.value) \
                    and len(c.args) >= 6:
                k = 0
                for bit, a in ((1, c.args[3]), (2, c.args[4]), (4, c.args[5])):
                    s = _src(a)
                    if not (isinstance(a, ast.Constant) and a.value in (None, "", b"")) and s not in ("bytearray(b'')",):
                        k |= bit
                if "self.session" in _src(c.func.value):
                    self.ev("record", k)

    def stmt(self, st, in_loop):
        if isinstance(st, ast.If):
            test = st.test
            tsrc = _src(test)
            # if not <verify call>
            if isinstance(test, ast.UnaryOp) and isinstance(test.op, ast.Not) and isinstance(test.operand, ast.Call) \
                    and (self.is_verify(test.operand) or self.is_dc_verify(test.operand)):
                c = test.operand
                self.expr_events(ast.Module(body=[ast.Expr(value=a) for a in c.args], type_ignores=[]))
                act = _action(st.body)
                self.handled_calls.add(id(c))
                if self.is_dc_verify(c):
                    self.ev("dcVerify", act)
                else:
                    self.ev("sigVerify", act)
                self.sites.append((_call_name(c) or "alias", 1 if 0 < act < 1000 else (2 if act == 1000 else 0)))
                self.block(st.orelse, in_loop)
                return
            if "verify_data" in tsrc and isinstance(test, ast.Compare) and len(test.ops) == 1 and \
                    isinstance(test.ops[0], ast.NotEq):
                self.ev("finCheck", _action(st.body))
                self.block(st.orelse, in_loop)
                return
            if "verify_data" in tsrc:
                self.ev("odd", 1)
            if isinstance(test, ast.Compare) and "% " in tsrc and tsrc.endswith("== 0") and st.body and \
                    isinstance(st.body[0], ast.Raise):
                self.ev("srpCheck", 0)
                return
            if isinstance(test, ast.UnaryOp) and isinstance(test.op, ast.Not) and isinstance(test.operand, ast.Call) \
                    and _call_name(test.operand) == "ct_compare_digest":
                sliced = any(isinstance(n, ast.Slice) for a in test.operand.args for n in ast.walk(a))
                ok = len(test.operand.args) == 2 and not sliced and st.body and isinstance(st.body[0], ast.Raise)
                self.ev("binderCompare", 1 if ok else 0)
                return
            notin = [n for n in ast.walk(test) if isinstance(n, ast.Compare) and any(isinstance(o, ast.NotIn) for o in n.ops)]
            if notin and ("sig" in tsrc.lower() or "scheme" in tsrc.lower()) and _action(st.body) and \
                    not any(isinstance(n, ast.BoolOp) and isinstance(n.op, ast.And) for n in ast.walk(test)):
                self.ev("schemeCheck", _action(st.body) * 10 + min(len(notin), 9))
                return
            if any(self.is_verify(c) for c in _calls(test)):
                for c in _calls(test):
                    if self.is_verify(c):
                        self.handled_calls.add(id(c))
                        self.sites.append((_call_name(c) or "alias", 0))
                self.ev("odd", 2)
            self.expr_events(test)
            self.block(st.body, in_loop)
            self.block(st.orelse, in_loop)
            return
        if isinstance(st, ast.Try):
            names = [_call_name(c) for b in st.body for c in _calls(b)]
            if "verify_binder" in names:
                self.ev("binderCheck", max([_action(h.body) for h in st.handlers] or [0]))
                return
            if "verifyServerKeyExchange" in names:
                acts = {}
                for h in st.handlers:
                    acts[_src(h.type) if h.type is not None else ""] = _action(h.body)
                self.ev("skeVerify", acts.get("TLSIllegalParameterException", 0) * 1000 + acts.get("TLSDecryptionFailed", 0))
                return
            if "processClientKeyExchange" in names:
                acts = {(_src(h.type) if h.type is not None else ""): _action(h.body) for h in st.handlers}
                self.ev("kexProcess", acts.get("TLSIllegalParameterException", 0))
                return
            self.block(st.body, in_loop)
            for h in st.handlers:
                self.block(h.body, in_loop)
            self.block(st.orelse, in_loop)
            self.block(st.finalbody, in_loop)
            return
        if isinstance(st, (ast.For, ast.While)):
            if isinstance(st, ast.For):
                self.expr_events(st.iter)
            psk_loop = isinstance(st, ast.For) and "identities" in _src(st.iter)
            self.block(st.body, in_loop or psk_loop)
            self.block(st.orelse, in_loop)
            return
        if isinstance(st, ast.With):
            self.block(st.body, in_loop)
            return
        if isinstance(st, ast.Continue):
            if in_loop:
                self.ev("skip", 0)
            return
        if isinstance(st, ast.Return):
            if st.value is not None:
                for c in _calls(st.value):
                    if self.is_verify(c):
                        self.handled_calls.add(id(c))
                        self.sites.append((_call_name(c) or "alias", 3))
                self.expr_events(st.value)
            return
        if isinstance(st, ast.Assign):
            tgt = _src(st.targets[0])
            val = _src(st.value)
            if tgt == "resumed_client_cert_chain" and "client_cert_chain" in val and "ticket" in val:
                self.ev("recordResumed", 0)
                return
            if tgt == "selected_psk" and not (isinstance(st.value, ast.Constant) and st.value.value is None):
                self.ev("selectPsk", 0)
                return
            if tgt.endswith("session.clientCertChain") or tgt.endswith("session.serverCertChain") or \
                    tgt.endswith("session.srpUsername"):
                self.ev("record", 2 if "client" in tgt else (4 if "server" in tgt else 1))
                return
            if tgt == "resuming":
                v = st.value
                code = 2
                if isinstance(v, ast.Constant) and v.value is False:
                    code = 0
                elif isinstance(v, ast.Constant) and v.value is True:
                    code = 1
                elif val == "not external":
                    code = 3
                self.ev("setResuming", code)
                return
            if isinstance(st.value, ast.Call) and _call_name(st.value) == "_sigHashesToList" and "sig" in tgt.lower():
                c = st.value
                a0 = _src(c.args[0]) if c.args else ""
                kws = [k.arg for k in c.keywords]
                code = 0
                if a0 in ("settings", "cr_settings") and "certList" in kws:
                    code = 1
                elif a0 in ("settings", "cr_settings") and "certList" not in kws and len(c.args) == 1:
                    code = 2
                elif a0 == "HandshakeSettings()" and len(c.args) >= 3:
                    code = 3
                self.ev("sigList", code)
                return
            if tgt == "self.resumed":
                self.ev("setResumed", 0)
                return
            if isinstance(st.targets[0], ast.Subscript) and "sessionCache" in tgt:
                self.ev("cacheInsert", 1 if val == "self.session" else 0)
                return
            if tgt == "client_cert_chain" and val == "resumed_client_cert_chain":
                self.ev("useResumed", 0)
                return
            self.expr_events(st.value)
            return
        if isinstance(st, ast.Expr):
            v = st.value
            if isinstance(v, (ast.Yield, ast.YieldFrom)) and v.value is not None:
                s = _src(v.value)
                if isinstance(v.value, ast.Tuple) and "ertChain" in s:
                    self.ev("yieldChain", 0)
                self.expr_events(v.value)
                return
            if isinstance(v, ast.Call) and self.is_verify(v):
                self.handled_calls.add(id(v))
                self.sites.append((_call_name(v) or "alias", 0))
                self.ev("odd", 3)
                return
            self.expr_events(v)
            return
        if isinstance(st, ast.Raise):
            return
        # anything else: look for calls only
        for child in ast.iter_child_nodes(st):
            if isinstance(child, ast.expr):
                self.expr_events(child)

    def block(self, stmts, in_loop):
        for st in stmts or []:
            self.stmt(st, in_loop)


def checker_shape(trees):
    """(skip, clientChain, serverChain, compare, eeIndex, missing) as small integers; 0 = not recognised"""
    res = {"skip": 0, "client": 0, "server": 0, "compare": 0, "ee": 99, "missing": 0, "before": 0}
    fn = _find_func(trees["checker"], "Checker.__call__")
    if fn is not None and fn.body:
        body = [s for s in fn.body if not (isinstance(s, ast.Expr) and isinstance(s.value, ast.Constant))]
        first = body[0] if body else None
        if isinstance(first, ast.If) and _src(first.test) == "not self.checkResumedSession and connection.resumed" and \
                len(first.body) == 1 and isinstance(first.body[0], ast.Return) and first.body[0].value is None \
                and not first.orelse:
            res["skip"] = 1
        for n in ast.walk(fn):
            if isinstance(n, ast.If) and _src(n.test) == "connection._client" and n.body and n.orelse:
                a, b = _src(n.body[0]), _src(n.orelse[0])
                if a == "chain = connection.session.serverCertChain":
                    res["client"] = 1
                if b == "chain = connection.session.clientCertChain":
                    res["server"] = 1
            if isinstance(n, ast.If) and _src(n.test) == "chain.getFingerprint() != self.x509Fingerprint" and \
                    n.body and isinstance(n.body[0], ast.Raise):
                res["compare"] = 1
        raises = [_src(n.exc) for n in ast.walk(fn) if isinstance(n, ast.Raise) and n.exc is not None]
        if any("TLSNoAuthenticationError" in r for r in raises):
            res["missing"] = 1
        # nothing but the skip may return without raising before the fingerprint comparison
        if len([n for n in ast.walk(fn) if isinstance(n, ast.Return)]) == (1 if res["skip"] else 0) + 0:
            res["before"] = 1
    gf = _find_func(trees["chain"], "X509CertChain.getFingerprint")
    if gf is not None:
        rets = [n for n in ast.walk(gf) if isinstance(n, ast.Return) and n.value is not None]
        if len(rets) == 1 and _src(rets[0].value) == "self.x509List[0].getFingerprint()":
            res["ee"] = 0
    return res


def generate(repo):
    problems = []
    trees = {}
    for k, rel in FILES.items():
        try:
            with open(os.path.join(repo, rel)) as f:
                trees[k] = ast.parse(f.read())
        except Exception as e:
            problems.append("%s: %s" % (rel, type(e).__name__))
            trees[k] = ast.parse("")
    out = []
    allsites = []
    names = []
    for fk, qual in FUNCS:
        fn = _find_func(trees[fk], qual)
        nm = qual.replace(".", "_").lstrip("_")
        nm = "f_" + nm
        names.append(nm)
        if fn is None:
            problems.append("function %s not found" % qual)
            out.append((nm, [("odd", 9)]))
            continue
        ex = Extract(fn)
        out.append((nm, ex.events))
        for m, fate in ex.sites:
            allsites.append((nm, m, fate))
    # every verify call in the analysed FILES that is outside the analysed functions is listed too
    analysed = set()
    for fk, qual in FUNCS:
        fn = _find_func(trees[fk], qual)
        if fn is not None:
            analysed.add(id(fn))
    for fk in ("conn", "rec", "kex", "x509"):
        for fn in [n for n in ast.walk(trees[fk]) if isinstance(n, ast.FunctionDef)]:
            if id(fn) in analysed:
                continue
            ex = Extract(fn)
            for m, fate in ex.sites:
                allsites.append(("other_" + fn.name, m, fate))
    shape = checker_shape(trees)
    L = ["/- GENERATED by translate/gen_auth.py from the AST of tlsconnection.py, tlsrecordlayer.py, keyexchange.py,",
         "   x509.py, checker.py, x509certchain.py, handshakehelpers.py -- do not edit -/",
         "namespace Tls.Auth.Src", "",
         "inductive Ev", "  | schemeCheck (n : Nat) | sigVerify (f : Nat) | finCheck (f : Nat) | binderCheck (f : Nat)",
         "  | skeVerify (f : Nat) | kexProcess (f : Nat) | calcBytes (tag : Nat) | dcVerify (f : Nat) | certCheck (n : Nat)",
         "  | call (g : Nat) | skip (n : Nat) | selectPsk (n : Nat) | recordResumed (n : Nat) | useResumed (n : Nat)",
         "  | record (k : Nat) | yieldChain (n : Nat) | checkerCall (n : Nat) | ticketSend (n : Nat)",
         "  | cacheInsert (aliased : Nat) | done (n : Nat) | setResumed (n : Nat) | srpCheck (n : Nat)",
         "  | binderCompare (a : Nat) | setResuming (v : Nat) | sigList (a : Nat) | odd (n : Nat)",
         "  deriving DecidableEq, Repr", "",
         "def problems : List String := [%s]" % ", ".join('"%s"' % p.replace('"', "'") for p in problems), ""]
    for nm, evs in out:
        L.append("def %s : List Ev := [%s]" % (nm, ", ".join(".%s %d" % (e[0], e[1]) for e in evs)))
    L.append("")
    L.append("/-- every `.verify(` / `.hashAndVerify(` call: (in an analysed function?, fate of a False result:")
    L.append("    1 alert, 2 raise, 3 returned to the caller, 0 ignored / unknown shape) -/")
    L.append("def verifySites : List (Bool × Nat) := [%s]"
             % ", ".join("(%s, %d)" % ("false" if n.startswith("other_") else "true", f) for n, m, f in allsites))
    L.append("")
    L.append("/-- Checker.__call__ / X509CertChain.getFingerprint: skip = `not checkResumedSession and resumed: return` is the")
    L.append("    first statement and the only plain return; client looks at serverCertChain, server at clientCertChain;")
    L.append("    `chain.getFingerprint() != x509Fingerprint` raises; getFingerprint is `x509List[eeIndex]`; a missing chain raises -/")
    L.append("structure CheckerShape where")
    L.append("  skip : Nat\n  clientChain : Nat\n  serverChain : Nat\n  compare : Nat\n  eeIndex : Nat\n  missingRaises : Nat\n  onlySkipReturns : Nat")
    L.append("  deriving DecidableEq, Repr")
    L.append("def checkerShape : CheckerShape := { skip := %d, clientChain := %d, serverChain := %d, compare := %d, eeIndex := %d, "
             "missingRaises := %d, onlySkipReturns := %d }" % (shape["skip"], shape["client"], shape["server"],
                                                             shape["compare"], shape["ee"], shape["missing"], shape["before"]))
    L.append("")
    L.append("end Tls.Auth.Src")
    return {"TlsModel/Gen/AuthSrc.lean": "\n".join(L) + "\n"}
