"""tlslite/{keyexchange,tlsconnection,tlsrecordlayer}.py, tlslite/constants.py, tlslite/utils/rsakey.py
   -> lean/TlsModel/Gen/SignSites.lean

Read from the AST of the tree under check (and, for the scheme table, from the running
SignatureScheme class):

  signSites      every statement `T = X.sign(...)` / `X.hashAndSign(...)` / `sig_func(...)` outside
                 tlslite/utils: file, function, what is called, the statement that follows it
                 (optional `if not T: raise TLSInternalError`), and the guard
                 `if not X.verify(T, ...)` / `ver_func(T, ...)`: its callee, its arguments by parameter
                 name, what its body does (raise TLSInternalError / send internal_error)
  funcPairs      every branch that binds sig_func binds ver_func: (object, method) pairs
  paramChoices   every place that chooses (padding, hash, salt length) for a signature scheme, at
                 sign and at verify sites: the source of the three expressions and a classification
                 of the salt length (hashLength | zero | none | other)
  schemeTable    SignatureScheme name -> ((id), key type, padding, hash) as the static methods answer
  pssHashUses    the hash-name arguments of secureHash / MGF1 inside EMSA_PSS_encode / EMSA_PSS_verify

Anything of unexpected shape is emitted with kind "unknown" / guarded := false (poison): the
obligations `every_private_op_guarded`, `sign_and_verify_use_same_params`, … then fail.
"""
import ast
import json
import os
import subprocess

from . import lean_str

PY = "/venv/bin/python"
FILES = ["tlslite/keyexchange.py", "tlslite/tlsconnection.py", "tlslite/tlsrecordlayer.py"]
SIGN_ATTRS = {"sign": "verify", "hashAndSign": "hashAndVerify"}
SIGN_NAMES = {"sig_func": "ver_func", "sign_func": "verify_func"}
SIGN_PARAMS = ["bytes", "padding", "hashAlg", "saltLen"]
VERIFY_PARAMS = ["sigBytes", "bytes", "padding", "hashAlg", "saltLen"]

SCHEME_PROBE = r'''
import json
from tlslite.constants import SignatureScheme as S
rows = []
for name in sorted(vars(S)):
    v = vars(S)[name]
    if isinstance(v, tuple) and len(v) == 2 and all(isinstance(x, int) for x in v):
        def q(f):
            try:
                r = f(name)
                return r if isinstance(r, str) else "?" + type(r).__name__
            except Exception as e:
                return "!" + type(e).__name__
        rows.append([name, v[0], v[1], q(S.getKeyType), q(S.getPadding), q(S.getHash)])
print(json.dumps(rows))
'''


def src(node):
    try:
        return ast.unparse(node)
    except Exception:
        return "<?>"


def sign_call(node):
    """(callee source, object source, method, expected verify name) if `node` is a signing call"""
    if not isinstance(node, ast.Call):
        return None
    f = node.func
    if isinstance(f, ast.Attribute) and f.attr in SIGN_ATTRS:
        return src(f), src(f.value), f.attr, SIGN_ATTRS[f.attr]
    if isinstance(f, ast.Name) and f.id in SIGN_NAMES:
        return f.id, "", f.id, SIGN_NAMES[f.id]
    return None


def args_by_name(call, names):
    out = {}
    for i, a in enumerate(call.args):
        out[names[i] if i < len(names) else "extra%d" % i] = src(a)
    for kw in call.keywords:
        out[kw.arg or "**"] = src(kw.value)
    return out


def classify_abort(body):
    """what the guard's body does"""
    if len(body) == 1 and isinstance(body[0], ast.Raise):
        exc = body[0].exc
        if isinstance(exc, ast.Call) and src(exc.func) == "TLSInternalError":
            return "raiseInternalError"
        return "unknown"
    if len(body) == 1 and isinstance(body[0], ast.For):
        it = body[0].iter
        if isinstance(it, ast.Call) and src(it.func) == "self._sendError" and it.args and \
                src(it.args[0]) == "AlertDescription.internal_error" and \
                len(body[0].body) == 1 and isinstance(body[0].body[0], ast.Expr) and \
                isinstance(body[0].body[0].value, ast.Yield):
            return "sendInternalError"
    return "unknown"


def stmt_lists(fn):
    """every statement list inside a function (bodies, else branches, handlers, ...)"""
    for node in ast.walk(fn):
        for field in ("body", "orelse", "finalbody"):
            lst = getattr(node, field, None)
            if isinstance(lst, list) and lst and isinstance(lst[0], ast.stmt):
                yield lst
        if isinstance(node, ast.Try):
            for h in node.handlers:
                yield h.body


def analyse_file(repo, rel):
    with open(os.path.join(repo, rel)) as f:
        tree = ast.parse(f.read())
    sites, pairs, choices = [], [], []
    funcs = [n for n in ast.walk(tree) if isinstance(n, (ast.FunctionDef, ast.AsyncFunctionDef))]
    for fn in funcs:
        nested = set()
        for sub in ast.walk(fn):
            if sub is not fn and isinstance(sub, (ast.FunctionDef, ast.AsyncFunctionDef)):
                nested.update(id(x) for x in ast.walk(sub))
        for lst in stmt_lists(fn):
            if id(lst[0]) in nested:
                continue
            # ---- signing statements
            for i, st in enumerate(lst):
                if not (isinstance(st, ast.Assign) and len(st.targets) == 1):
                    if isinstance(st, (ast.Expr, ast.Return)) and sign_call(getattr(st, "value", None)):
                        sites.append({"file": rel, "func": fn.name, "line": st.lineno, "callee": sign_call(st.value)[0],
                                      "target": "", "emptyCheck": False, "guardCallee": "", "sameObject": False,
                                      "dataSign": "", "dataVerify": "", "sigArg": "", "common": [], "abort": "unknown",
                                      "shape": "result-not-bound"})
                    continue
                sc = sign_call(st.value)
                if not sc:
                    continue
                callee, obj, meth, vname = sc
                target = src(st.targets[0])
                sargs = args_by_name(st.value, SIGN_PARAMS)
                rec = {"file": rel, "func": fn.name, "line": st.lineno, "callee": callee, "target": target,
                       "emptyCheck": False, "guardCallee": "", "sameObject": False, "dataSign": sargs.get("bytes", ""),
                       "dataVerify": "", "sigArg": "", "common": [], "abort": "unknown", "shape": "no-guard"}
                j = i + 1
                if j < len(lst) and isinstance(lst[j], ast.If) and isinstance(lst[j].test, ast.UnaryOp) and \
                        isinstance(lst[j].test.op, ast.Not) and src(lst[j].test.operand) == target and not lst[j].orelse and \
                        classify_abort(lst[j].body) == "raiseInternalError":
                    rec["emptyCheck"] = True
                    j += 1
                if j < len(lst) and isinstance(lst[j], ast.If) and isinstance(lst[j].test, ast.UnaryOp) and \
                        isinstance(lst[j].test.op, ast.Not) and isinstance(lst[j].test.operand, ast.Call) and not lst[j].orelse:
                    vc = lst[j].test.operand
                    f = vc.func
                    if isinstance(f, ast.Attribute):
                        vcallee, vobj, vmeth = src(f), src(f.value), f.attr
                    elif isinstance(f, ast.Name):
                        vcallee, vobj, vmeth = f.id, "", f.id
                    else:
                        vcallee, vobj, vmeth = src(f), "?", "?"
                    vargs = args_by_name(vc, VERIFY_PARAMS)
                    rec["guardCallee"] = vcallee
                    rec["sameObject"] = (vobj == obj and vmeth == vname)
                    rec["sigArg"] = vargs.get("sigBytes", "")
                    rec["dataVerify"] = vargs.get("bytes", "")
                    rec["common"] = [[k, sargs[k], vargs[k]] for k in ("padding", "hashAlg", "saltLen") if k in sargs and k in vargs]
                    rec["abort"] = classify_abort(lst[j].body)
                    rec["shape"] = "sign-then-verify"
                sites.append(rec)
            # ---- sig_func / ver_func bindings and parameter choices in this statement list
            binds = {}
            for st in lst:
                if isinstance(st, ast.Assign) and len(st.targets) == 1 and isinstance(st.targets[0], ast.Name):
                    binds[st.targets[0].id] = (st.value, st.lineno)
            for sname, vname in SIGN_NAMES.items():
                if sname in binds or vname in binds:
                    sv = binds.get(sname, (None, 0))[0]
                    vv = binds.get(vname, (None, 0))[0]

                    def split(n):
                        if isinstance(n, ast.Attribute):
                            return src(n.value), n.attr
                        return ("<missing>", "<missing>") if n is None else (src(n), "<?>")
                    so, sm = split(sv)
                    vo, vm = split(vv)
                    pairs.append({"file": rel, "func": fn.name, "line": (binds.get(sname) or binds.get(vname))[1],
                                  "signObj": so, "signMethod": sm, "verObj": vo, "verMethod": vm})
            salt = next((n for n in ("saltLen", "salt_len") if n in binds), None)
            if salt is not None:
                pad = next((n for n in ("padType", "pad_type", "padding") if n in binds), None)
                hsh = next((n for n in ("hashName", "hash_name") if n in binds), None)
                sv = binds[salt][0]
                ssrc = src(sv)
                hvar = hsh or ""
                if isinstance(sv, ast.Constant) and sv.value is None:
                    cls = "none"
                elif isinstance(sv, ast.Constant) and sv.value == 0:
                    cls = "zero"
                elif hvar and ssrc == "getattr(hashlib, %s)().digest_size" % hvar:
                    cls = "hashLength"
                else:
                    cls = "other"
                def kind(node, fname):
                    """('call', arg) for SignatureScheme.<fname>(arg), else a coarse class"""
                    if node is None:
                        return "unbound", ""
                    if isinstance(node, ast.Call) and src(node.func) == "SignatureScheme." + fname and len(node.args) == 1:
                        return "scheme", src(node.args[0])
                    if isinstance(node, ast.Constant) and node.value is None:
                        return "none", ""
                    if isinstance(node, ast.Constant) and isinstance(node.value, str):
                        return "literal", node.value
                    return "other", src(node)
                pk, pa = kind(binds[pad][0] if pad else None, "getPadding")
                hk, ha = kind(binds[hsh][0] if hsh else None, "getHash")
                choices.append({"file": rel, "func": fn.name, "line": binds[salt][1],
                                "pad": src(binds[pad][0]) if pad else "<unbound>",
                                "hash": src(binds[hsh][0]) if hsh else "<unbound>",
                                "salt": cls, "saltSrc": ssrc, "padKind": pk, "padArg": pa, "hashKind": hk, "hashArg": ha})
    return sites, pairs, choices


def pss_hash_uses(repo):
    """hash-name argument of every secureHash / self.MGF1 call in EMSA_PSS_encode / EMSA_PSS_verify / MGF1"""
    out = []
    with open(os.path.join(repo, "tlslite/utils/rsakey.py")) as f:
        tree = ast.parse(f.read())
    for fn in ast.walk(tree):
        if isinstance(fn, ast.FunctionDef) and fn.name in ("EMSA_PSS_encode", "EMSA_PSS_verify", "MGF1"):
            params = [a.arg for a in fn.args.args]
            for c in ast.walk(fn):
                if isinstance(c, ast.Call):
                    name = src(c.func)
                    if name == "secureHash" and len(c.args) == 2:
                        out.append([fn.name, "secureHash", src(c.args[1]), "hAlg" in params])
                    elif name == "self.MGF1" and len(c.args) == 3:
                        out.append([fn.name, "MGF1", src(c.args[2]), "hAlg" in params])
                    elif name == "getattr" and len(c.args) == 2 and src(c.args[0]) == "hashlib":
                        out.append([fn.name, "digest_size", src(c.args[1]), "hAlg" in params])
    return out


def generate(repo):
    problems = []
    sites, pairs, choices, uses, schemes = [], [], [], [], []
    try:
        for rel in FILES:
            s, p, c = analyse_file(repo, rel)
            sites += s
            pairs += p
            choices += c
        # any other module outside tlslite/utils that signs is reported as an unknown site
        for root, dirs, files in os.walk(os.path.join(repo, "tlslite")):
            if os.path.relpath(root, repo).startswith(os.path.join("tlslite", "utils")):
                continue
            for fname in files:
                rel = os.path.relpath(os.path.join(root, fname), repo)
                if fname.endswith(".py") and rel not in FILES:
                    s, p, c = analyse_file(repo, rel)
                    sites += s
                    pairs += p
        uses = pss_hash_uses(repo)
    except Exception as e:
        problems.append("ast: %s: %s" % (type(e).__name__, e))
    try:
        p = subprocess.run([PY, "-c", SCHEME_PROBE], env=dict(os.environ, PYTHONPATH=repo), cwd="/", stdout=subprocess.PIPE,
                           stderr=subprocess.PIPE, universal_newlines=True, timeout=120)
        if p.returncode != 0:
            problems.append("scheme probe failed: " + p.stderr.strip().split("\n")[-1][:200])
        else:
            schemes = json.loads(p.stdout.strip().split("\n")[-1])
    except Exception as e:  # pragma: no cover
        problems.append("scheme probe: %s" % e)
    if problems:
        sites = [{"file": "?", "func": "?", "line": 0, "callee": "?", "target": "?", "emptyCheck": False, "guardCallee": "",
                  "sameObject": False, "dataSign": "", "dataVerify": "", "sigArg": "", "common": [], "abort": "unknown",
                  "shape": "translator-problem"}]
    sites.sort(key=lambda r: (r["file"], r["line"]))
    pairs.sort(key=lambda r: (r["file"], r["line"]))
    choices.sort(key=lambda r: (r["file"], r["line"]))
    q = lean_str
    L = ["/- GENERATED by translate/gen_signsites.py from the AST of tlslite/keyexchange.py, tlsconnection.py,",
         "   tlsrecordlayer.py, utils/rsakey.py and from the running SignatureScheme class; do not edit. -/",
         "namespace Tls.Gen.SignSites", "",
         "def translatorProblems : List String := [" + ", ".join(q(x) for x in problems) + "]", "",
         "inductive Abort where",
         "  | raiseInternalError | sendInternalError | unknown",
         "  deriving DecidableEq, Repr", "",
         "structure Site where",
         "  file : String",
         "  func : String",
         "  callee : String          -- what is called to sign",
         "  target : String          -- where the signature is bound",
         "  shape : String           -- \"sign-then-verify\" or what was found instead",
         "  emptyCheck : Bool        -- `if not T: raise TLSInternalError` in between",
         "  guardCallee : String     -- what the `if not …(T, …)` that follows calls",
         "  sameObject : Bool        -- same key object, sign↔verify / hashAndSign↔hashAndVerify / sig_func↔ver_func",
         "  sigArg : String          -- first argument of the verification call",
         "  dataSign : String        -- the bytes that are signed",
         "  dataVerify : String      -- the bytes that are verified",
         "  common : List (String × String × String)   -- (parameter, value at sign, value at verify)",
         "  abort : Abort            -- what the guard's body does",
         "  deriving Repr", "",
         "/-- every signing statement outside tlslite/utils, in source order -/",
         "def signSites : List Site := ["]
    rows = []
    for r in sites:
        rows.append("  { file := %s, func := %s, callee := %s, target := %s, shape := %s, emptyCheck := %s,\n"
                    "    guardCallee := %s, sameObject := %s, sigArg := %s, dataSign := %s, dataVerify := %s,\n"
                    "    common := [%s], abort := .%s }" %
                    (q(r["file"]), q(r["func"]), q(r["callee"]), q(r["target"]), q(r["shape"]), "true" if r["emptyCheck"] else "false",
                     q(r["guardCallee"]), "true" if r["sameObject"] else "false", q(r["sigArg"]), q(r["dataSign"]), q(r["dataVerify"]),
                     ", ".join("(%s, %s, %s)" % (q(a), q(b), q(c)) for a, b, c in r["common"]), r["abort"]))
    L.append(",\n".join(rows))
    L += ["]", "",
          "/-- (file, function, sign object, sign method, verify object, verify method) for every branch binding sig_func / ver_func -/",
          "def funcPairs : List (String × String × String × String × String × String) := ["]
    L.append(",\n".join("  (%s, %s, %s, %s, %s, %s)" % (q(r["file"]), q(r["func"]), q(r["signObj"]), q(r["signMethod"]),
                                                      q(r["verObj"]), q(r["verMethod"])) for r in pairs))
    L += ["]", "",
          "structure Choice where",
          "  file : String",
          "  func : String",
          "  pad : String             -- source of the padding expression bound next to the salt length",
          "  hash : String            -- source of the hash-name expression",
          "  saltSrc : String",
          "  padKind : String         -- scheme = SignatureScheme.getPadding(padArg) | literal | none | unbound | other",
          "  padArg : String",
          "  hashKind : String        -- scheme = SignatureScheme.getHash(hashArg) | literal | none | unbound | other",
          "  hashArg : String",
          "  salt : String            -- hashLength = getattr(hashlib, <the hash variable>)().digest_size | zero | none | other",
          "  deriving Repr", "",
          "/-- wherever a salt length is chosen (signing and verifying sites) -/",
          "def paramChoices : List Choice := ["]
    L.append(",\n".join("  { file := %s, func := %s, pad := %s, hash := %s, saltSrc := %s,\n    padKind := %s, padArg := %s, hashKind := %s, hashArg := %s, salt := %s }"
                        % (q(r["file"]), q(r["func"]), q(r["pad"]), q(r["hash"]), q(r["saltSrc"]), q(r["padKind"]), q(r["padArg"]),
                           q(r["hashKind"]), q(r["hashArg"]), q(r["salt"])) for r in choices))
    L += ["]", "",
          "/-- (name, id.0, id.1, getKeyType, getPadding, getHash); `!Exc` = the method raised Exc -/",
          "def schemeTable : List (String × Nat × Nat × String × String × String) := ["]
    L.append(",\n".join("  (%s, %d, %d, %s, %s, %s)" % (q(r[0]), r[1], r[2], q(r[3]), q(r[4]), q(r[5])) for r in schemes))
    L += ["]", "",
          "/-- (function, call, hash-name argument, function has a parameter hAlg) inside the PSS code of rsakey.py -/",
          "def pssHashUses : List (String × String × String × Bool) := ["]
    L.append(",\n".join("  (%s, %s, %s, %s)" % (q(a), q(b), q(c), "true" if d else "false") for a, b, c, d in uses))
    L += ["]", "", "end Tls.Gen.SignSites", ""]
    return {"TlsModel/Gen/SignSites.lean": "\n".join(L)}
