"""tlslite/tlsconnection.py (AST of the tree under check) -> lean/TlsModel/Gen/KexChains.lean

Reads, as data, the places where TLSConnection turns the negotiated suite into a key-exchange path:

  clientKexChain          the if/elif/else chain whose every branch does `keyExchange = <Class>(...)`
                          (client, _handshakeClientAsyncHelper)
  serverKexChain          the chain one of whose branches calls self._serverCertKeyExchange
                          (server, _handshakeServerAsyncHelper), nested chains included; a leaf is the
                          helper it delegates to + the KeyExchange class built (in the branch, or the only
                          one built inside the helper) or `assert False`
  clientExpectsCertificateCond / clientExpectsSKECond / clientChecksChainCond
                          test of the `if` guarding _getMsg(.., HandshakeType.certificate ..),
                          _getMsg(.., HandshakeType.server_key_exchange ..), _clientGetKeyFromChain(..)
  serverRecordsChainCond  test of the `if` whose body is `serverCertChain = cert_chain`
  serverPathSendsCert     per _server*KeyExchange helper: under which suite condition it builds a
                          Certificate / CompressedCertificate message

The sites are found by what they do, not by line number or function name.  Conditions are rendered in
a tiny language (membership in a generated CipherSuite list, not/and/or); whatever is not understood, is
missing or is ambiguous becomes `unknown`, which evaluates to none in Lean and falsifies the obligations.
`extract(repo)` returns the same data as JSON-able python for the harness's independent evaluator.
"""
import ast
import os

from . import lean_str
from . import gen_suites

KEX_CLASSES = ["RSAKeyExchange", "DHE_RSAKeyExchange", "ECDHE_RSAKeyExchange", "SRPKeyExchange", "ADHKeyExchange",
               "AECDHKeyExchange"]
SERVER_PATHS = {"_serverSRPKeyExchange": "srp", "_serverCertKeyExchange": "cert", "_serverAnonKeyExchange": "anon"}
SUITE_VARS = ("cipherSuite", "cipher_suite")


# ---- conditions -------------------------------------------------------------------------------

def is_suite_var(n):
    return isinstance(n, ast.Name) and n.id in SUITE_VARS


def cond(n):
    """python test -> nested tuple ('mem', name) | ('not', c) | ('and', a, b) | ('or', a, b) | ('unknown', text)"""
    if isinstance(n, ast.BoolOp):
        op = "and" if isinstance(n.op, ast.And) else "or"
        parts = [cond(v) for v in n.values]
        r = parts[0]
        for p in parts[1:]:
            r = (op, r, p)
        return r
    if isinstance(n, ast.UnaryOp) and isinstance(n.op, ast.Not):
        return ("not", cond(n.operand))
    if isinstance(n, ast.Compare) and len(n.ops) == 1 and is_suite_var(n.left):
        c = n.comparators[0]
        if isinstance(c, ast.Attribute) and isinstance(c.value, ast.Name) and c.value.id == "CipherSuite":
            if isinstance(n.ops[0], ast.In):
                return ("mem", c.attr)
            if isinstance(n.ops[0], ast.NotIn):
                return ("not", ("mem", c.attr))
    return ("unknown", ast.unparse(n)[:80])


def mentions_suite(n):
    return any(is_suite_var(x) for x in ast.walk(n))


# ---- statements -------------------------------------------------------------------------------

def kex_assign(stmt):
    """class name if stmt is `keyExchange = Name(...)`"""
    if isinstance(stmt, ast.Assign) and len(stmt.targets) == 1 and isinstance(stmt.targets[0], ast.Name) \
            and stmt.targets[0].id == "keyExchange" and isinstance(stmt.value, ast.Call) \
            and isinstance(stmt.value.func, ast.Name):
        return stmt.value.func.id
    return None


def is_assert_false(stmt):
    if isinstance(stmt, ast.Assert):
        t = stmt.test
        return isinstance(t, ast.Constant) and t.value is False
    if isinstance(stmt, ast.Raise) and stmt.exc is not None:
        return "AssertionError" in ast.unparse(stmt.exc)
    return False


def server_path_called(stmts):
    found = []
    for s in stmts:
        for n in ast.walk(s):
            if isinstance(n, ast.Call) and isinstance(n.func, ast.Attribute) and n.func.attr in SERVER_PATHS:
                found.append(n.func.attr)
    return sorted(set(found))


def suite_chain_in(stmts):
    """the (single) if-chain on the suite directly among stmts that assigns keyExchange somewhere"""
    out = []
    for s in stmts:
        if isinstance(s, ast.If) and mentions_suite(s.test) and any(kex_assign(x) for x in ast.walk(s)):
            out.append(s)
    return out


def branch_tree(stmts, helper_class, role):
    """tree for the statements of one branch"""
    direct = [kex_assign(s) for s in stmts if kex_assign(s)]
    nested = suite_chain_in(stmts)
    paths = server_path_called(stmts) if role == "server" else []
    if any(is_assert_false(s) for s in stmts) and not direct and not nested:
        return ("leaf", None)
    if role == "client":
        if len(direct) == 1 and not nested:
            return ("leaf", direct[0])
        if not direct and len(nested) == 1:
            return chain_tree(nested[0], helper_class, role)
        return ("unknown", "client branch without a single keyExchange assignment")
    # server
    if len(paths) != 1:
        return ("unknown", "server branch calling %s" % (paths or "no _server*KeyExchange helper"))
    path = paths[0]
    if len(direct) == 1 and not nested:
        return ("leaf", (path, direct[0]))
    if not direct and len(nested) == 1:
        return chain_tree(nested[0], helper_class, role, path)
    if not direct and not nested:
        cls = helper_class.get(path)
        if cls is None:
            return ("unknown", "%s builds no single KeyExchange class" % path)
        return ("leaf", (path, cls))
    return ("unknown", "server branch with several keyExchange assignments")


def chain_tree(ifnode, helper_class, role, path=None):
    def leafify(t):
        # inner chain of a server branch: attach the helper the branch delegates to
        if path is None or t[0] != "leaf" or t[1] is None or isinstance(t[1], tuple):
            return t
        return ("leaf", (path, t[1]))

    def inner_branch(stmts):
        if path is None:
            return branch_tree(stmts, helper_class, role)
        direct = [kex_assign(s) for s in stmts if kex_assign(s)]
        if any(is_assert_false(s) for s in stmts) and not direct:
            return ("leaf", None)
        if len(direct) == 1:
            return ("leaf", (path, direct[0]))
        return ("unknown", "inner server branch without a single keyExchange assignment")

    then = inner_branch(ifnode.body)
    if len(ifnode.orelse) == 1 and isinstance(ifnode.orelse[0], ast.If) and mentions_suite(ifnode.orelse[0].test):
        els = chain_tree(ifnode.orelse[0], helper_class, role, path)
    elif ifnode.orelse:
        els = inner_branch(ifnode.orelse)
    else:
        els = ("unknown", "chain without else")
    return ("ite", cond(ifnode.test), leafify(then), leafify(els))


# ---- site discovery ------------------------------------------------------------------------------

def chain_heads(fn):
    """If nodes that start a chain (are not the sole orelse of another If) inside fn"""
    conts = set()
    for n in ast.walk(fn):
        if isinstance(n, ast.If) and len(n.orelse) == 1 and isinstance(n.orelse[0], ast.If):
            conts.add(id(n.orelse[0]))
    return [n for n in ast.walk(fn) if isinstance(n, ast.If) and id(n) not in conts]


def branches(ifnode):
    out = [ifnode.body]
    n = ifnode
    while len(n.orelse) == 1 and isinstance(n.orelse[0], ast.If):
        n = n.orelse[0]
        out.append(n.body)
    out.append(n.orelse)
    return out


def calls_in(stmts, pred):
    for s in stmts:
        for n in ast.walk(s):
            if isinstance(n, ast.Call) and pred(n):
                return True
    return False


def getmsg_of(kind):
    def pred(c):
        if not (isinstance(c.func, ast.Attribute) and c.func.attr == "_getMsg"):
            return False
        for a in c.args[1:2]:
            if isinstance(a, ast.Attribute) and a.attr == kind and isinstance(a.value, ast.Name) \
                    and a.value.id == "HandshakeType":
                return True
        return False
    return pred


def unique_if(cls, body_pred, what):
    """test of the only `if` (anywhere in the class) that mentions the suite and whose own body
    (not a nested if's) satisfies body_pred"""
    hits = []
    for n in ast.walk(cls):
        if isinstance(n, ast.If) and mentions_suite(n.test) and body_pred(n.body):
            hits.append(n)
    if len(hits) != 1:
        return ("unknown", "%d sites for %s" % (len(hits), what))
    return cond(hits[0].test)


def direct_calls(stmts, pred):
    """pred holds for a call in stmts that is not inside a nested suite-if"""
    def walk(n):
        if isinstance(n, ast.If) and mentions_suite(n.test):
            return False
        if isinstance(n, ast.Call) and pred(n):
            return True
        return any(walk(c) for c in ast.iter_child_nodes(n))
    return any(walk(s) for s in stmts)


def sends_cert_cond(fn):
    """under which suite condition the helper builds a Certificate message: OR over creation sites of
    the AND of the enclosing suite conditions (other enclosing tests do not concern the suite)"""
    sites = []

    def is_cert_build(c):
        f = c.func
        return (isinstance(f, ast.Name) and f.id in ("Certificate", "CompressedCertificate")) or \
               (isinstance(f, ast.Attribute) and f.attr == "_create_cert_msg")

    def walk(node, stack):
        if isinstance(node, ast.If):
            inner = stack + [cond(node.test)] if mentions_suite(node.test) else stack
            neg = stack + [("not", cond(node.test))] if mentions_suite(node.test) else stack
            for s in node.body:
                walk(s, inner)
            for s in node.orelse:
                walk(s, neg)
            return
        if isinstance(node, ast.Call) and is_cert_build(node):
            sites.append(list(stack))
        for c in ast.iter_child_nodes(node):
            walk(c, stack)
    for s in fn.body:
        walk(s, [])
    if not sites:
        return ("not", ("tt",))
    res = None
    for st in sites:
        c = ("tt",)
        for x in st:
            c = x if c == ("tt",) else ("and", c, x)
        if c == ("tt",):
            return ("tt",)
        res = c if res is None else ("or", res, c)
    return res


def extract(repo):
    """dict with the chains / conditions as nested tuples (see module docstring)"""
    out = {"problems": []}
    try:
        with open(os.path.join(repo, "tlslite", "tlsconnection.py")) as f:
            tree = ast.parse(f.read())
        cls = [c for c in tree.body if isinstance(c, ast.ClassDef) and c.name == "TLSConnection"][0]
    except Exception as e:
        out["problems"].append("cannot parse tlsconnection.py: %r" % (e,))
        unk = ("unknown", "no source")
        out.update(clientKexChain=unk, serverKexChain=unk, clientExpectsCertificateCond=unk, clientExpectsSKECond=unk,
                   clientChecksChainCond=unk, serverRecordsChainCond=unk, serverPathSendsCert={})
        return out
    fns = {f.name: f for f in cls.body if isinstance(f, ast.FunctionDef)}
    # KeyExchange class built inside each helper (only if it is the single one)
    helper_class = {}
    for name in SERVER_PATHS:
        if name in fns:
            ks = [kex_assign(n) for n in ast.walk(fns[name]) if kex_assign(n)]
            if len(set(ks)) == 1:
                helper_class[name] = ks[0]
    # client chain: every branch (else included) assigns keyExchange directly
    client = []
    server = []
    for fn in fns.values():
        for h in chain_heads(fn):
            if not mentions_suite(h.test):
                continue
            brs = branches(h)
            if len(brs) >= 3 and all(any(kex_assign(s) for s in b) for b in brs):
                client.append(h)
            if any(server_path_called(b) == ["_serverCertKeyExchange"] for b in brs):
                server.append(h)
    out["clientKexChain"] = chain_tree(client[0], helper_class, "client") if len(client) == 1 \
        else ("unknown", "%d candidate client key-exchange chains" % len(client))
    out["serverKexChain"] = chain_tree(server[0], helper_class, "server") if len(server) == 1 \
        else ("unknown", "%d candidate server key-exchange chains" % len(server))
    out["clientExpectsCertificateCond"] = unique_if(cls, lambda b: direct_calls(b, getmsg_of("certificate")),
                                                    "_getMsg(certificate)")
    out["clientExpectsSKECond"] = unique_if(cls, lambda b: direct_calls(b, getmsg_of("server_key_exchange")),
                                            "_getMsg(server_key_exchange)")
    out["clientChecksChainCond"] = unique_if(
        cls, lambda b: direct_calls(b, lambda c: isinstance(c.func, ast.Attribute) and c.func.attr == "_clientGetKeyFromChain"),
        "_clientGetKeyFromChain")

    def records_chain(b):
        return any(isinstance(s, ast.Assign) and len(s.targets) == 1 and isinstance(s.targets[0], ast.Name)
                   and s.targets[0].id == "serverCertChain" and isinstance(s.value, ast.Name)
                   and s.value.id == "cert_chain" for s in b)
    out["serverRecordsChainCond"] = unique_if(cls, records_chain, "serverCertChain = cert_chain")
    out["serverPathSendsCert"] = {}
    for name, short in SERVER_PATHS.items():
        out["serverPathSendsCert"][short] = sends_cert_cond(fns[name]) if name in fns else ("unknown", name + " missing")
    return out


# ---- independent evaluator (python) for the harness --------------------------------------------

def eval_cond(c, s, lists):
    k = c[0]
    if k == "mem":
        if c[1] not in lists:
            return None
        return s in lists[c[1]]
    if k == "tt":
        return True
    if k == "not":
        x = eval_cond(c[1], s, lists)
        return None if x is None else not x
    if k in ("and", "or"):
        x, y = eval_cond(c[1], s, lists), eval_cond(c[2], s, lists)
        if x is None or y is None:
            return None
        return (x and y) if k == "and" else (x or y)
    return None


def eval_tree(t, s, lists):
    """('ok', leaf) or ('unknown', None)"""
    if t[0] == "leaf":
        return ("ok", t[1])
    if t[0] == "ite":
        b = eval_cond(t[1], s, lists)
        if b is None:
            return ("unknown", None)
        return eval_tree(t[2] if b else t[3], s, lists)
    return ("unknown", None)


# ---- lean emission --------------------------------------------------------------------------------

def lean_cond(c, listnames):
    k = c[0]
    if k == "mem":
        if c[1] in listnames:
            return "(.mem %s Tls.Gen.Suites.%s)" % (lean_str(c[1]), gen_suites.ident(c[1]))
        return "(.unknown %s)" % lean_str("CipherSuite.%s is not a generated list" % c[1])
    if k == "tt":
        return ".tt"
    if k == "not":
        return "(.not %s)" % lean_cond(c[1], listnames)
    if k in ("and", "or"):
        return "(.%s %s %s)" % (k, lean_cond(c[1], listnames), lean_cond(c[2], listnames))
    return "(.unknown %s)" % lean_str(str(c[1]))


def lean_tree(t, listnames, leaf, indent="  "):
    if t[0] == "leaf":
        return leaf(t[1])
    if t[0] == "ite":
        return "(.ite %s\n%s%s\n%s%s)" % (lean_cond(t[1], listnames), indent, lean_tree(t[2], listnames, leaf, indent + "  "),
                                         indent, lean_tree(t[3], listnames, leaf, indent + "  "))
    return "(.unknown %s)" % lean_str(str(t[1]))


def client_leaf(x):
    if x in KEX_CLASSES:
        return "(.leaf (some .%s))" % x
    if x is None:
        return "(.leaf none)"
    return "(.unknown %s)" % lean_str("class %s" % x)


def server_leaf(x):
    if x is None:
        return "(.leaf none)"
    path, cls = x
    if path in SERVER_PATHS and cls in KEX_CLASSES:
        return "(.leaf (some (.%s, .%s)))" % (SERVER_PATHS[path], cls)
    return "(.unknown %s)" % lean_str("leaf %s/%s" % (path, cls))


def generate(repo):
    data = extract(repo)
    probe, err = gen_suites.probe(repo)
    listnames = set(probe["lists"]) if probe else set()
    L = []
    L.append("import TlsModel.SuitesBase")
    L.append("import TlsModel.Gen.Suites")
    L.append("/- GENERATED by translate/gen_kexchains.py from the AST of tlslite/tlsconnection.py of the tree under")
    L.append("   check; do not edit.  Leaf `none` = `assert False`. -/")
    L.append("namespace Tls.Gen.KexChains")
    L.append("open Tls.Suites")
    L.append("")
    L.append("def translatorProblems : List String := [%s]" % ", ".join(lean_str(p) for p in data["problems"]))
    L.append("")
    L.append("/-- client: which KeyExchange class `keyExchange` is bound to -/")
    L.append("def clientKexChain : Tree (Option KexClass) :=\n  " + lean_tree(data["clientKexChain"], listnames, client_leaf, "    "))
    L.append("")
    L.append("/-- server: which helper runs the key exchange and which KeyExchange class it uses -/")
    L.append("def serverKexChain : Tree (Option (ServerPath × KexClass)) :=\n  "
             + lean_tree(data["serverKexChain"], listnames, server_leaf, "    "))
    L.append("")
    for k, doc in (("clientExpectsCertificateCond", "client reads a Certificate message"),
                   ("clientExpectsSKECond", "client reads a ServerKeyExchange message"),
                   ("clientChecksChainCond", "client takes the server key from the certificate chain"),
                   ("serverRecordsChainCond", "server stores its chain in Session.serverCertChain")):
        L.append("/-- %s -/" % doc)
        L.append("def %s : BExpr := %s" % (k, lean_cond(data[k], listnames)))
        L.append("")
    L.append("/-- per server helper: the suite condition under which it builds a Certificate message -/")
    L.append("def serverPathSendsCert : ServerPath → BExpr")
    for short in ("srp", "cert", "anon"):
        c = data["serverPathSendsCert"].get(short, ("unknown", "missing"))
        L.append("  | .%s => %s" % (short, lean_cond(c, listnames)))
    L.append("")
    L.append("end Tls.Gen.KexChains")
    L.append("")
    return {"TlsModel/Gen/KexChains.lean": "\n".join(L)}
