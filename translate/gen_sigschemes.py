"""tlslite/constants.py (SignatureScheme, HashAlgorithm, SignatureAlgorithm, TLS_1_3_BRAINPOOL_SIG_SCHEMES)
and tlslite/utils/ecc.py (curve_name_to_hash_name)  ->  lean/TlsModel/Gen/SigSchemes.lean      (C05)

Read from the *running* classes of the tree under check (subprocess, PYTHONPATH=<repo>):

  schemeRepr a b      SignatureScheme.toRepr((a, b)) with getKeyType / getPadding / getHash of that name
  hashRepr n          HashAlgorithm.toRepr(n)
  hashId h            getattr(HashAlgorithm, h)
  sigRsa/Dsa/Ecdsa    SignatureAlgorithm.rsa / dsa / ecdsa
  rsaAttr pad v h     getattr(SignatureScheme, "rsa_{pad}_{rsae|pss}_{h}")  (None = AttributeError),
                      exactly the lookups `_sigHashesToList` performs
  moreAttr m          getattr(SignatureScheme, m) falling back to m.lower()   (the more_sig_schemes loop)
  brainpool13         TLS_1_3_BRAINPOOL_SIG_SCHEMES (sorted)
  curveHash c         curve_name_to_hash_name(<python-ecdsa name>)            (None = raises)

Anything of unexpected shape poisons the tables (everything `none`), which makes the C05 table
obligations (Props/C05.lean: gen_* theorems) false: the translator never guesses.
"""
import json
import subprocess

from . import lean_str

PY = "/venv/bin/python"

HASHES = ["none", "md5", "sha1", "sha224", "sha256", "sha384", "sha512", "intrinsic"]
FAMS = ["rsa", "ecdsa", "dsa", "eddsa", "mldsa"]
MORE = [("ed25519", "Ed25519"), ("ed448", "Ed448"),
        ("bp256", "ecdsa_brainpoolP256r1tls13_sha256"),
        ("bp384", "ecdsa_brainpoolP384r1tls13_sha384"),
        ("bp512", "ecdsa_brainpoolP512r1tls13_sha512"),
        ("mldsa44", "mldsa44"), ("mldsa65", "mldsa65"), ("mldsa87", "mldsa87")]
CURVES = [("nist256", "NIST256p"), ("nist384", "NIST384p"), ("nist521", "NIST521p"),
          ("bp256", "BRAINPOOLP256r1"), ("bp384", "BRAINPOOLP384r1"), ("bp512", "BRAINPOOLP512r1"),
          ("other", "SECP256k1")]

PROBE = r'''
import json
out = {"problems": []}
try:
    from tlslite.constants import SignatureScheme, HashAlgorithm, SignatureAlgorithm, \
        TLS_1_3_BRAINPOOL_SIG_SCHEMES
    from tlslite.utils.ecc import curve_name_to_hash_name
    reprs = []
    for a in range(0, 16):
        for b in range(0, 64):
            n = SignatureScheme.toRepr((a, b))
            if n is None:
                continue
            try:
                fam = SignatureScheme.getKeyType(n)
            except Exception as e:
                fam = "!" + type(e).__name__
            try:
                pad = SignatureScheme.getPadding(n)
            except Exception:
                pad = None
            try:
                h = SignatureScheme.getHash(n)
            except Exception as e:
                h = "!" + type(e).__name__
            reprs.append([a, b, n, fam, pad, h])
    out["reprs"] = reprs
    out["hashrepr"] = [[n, HashAlgorithm.toRepr(n)] for n in range(0, 16)]
    out["hashid"] = {}
    for h in HASHES:
        try:
            out["hashid"][h] = int(getattr(HashAlgorithm, h))
        except Exception:
            out["hashid"][h] = None
    out["sig"] = [int(SignatureAlgorithm.rsa), int(SignatureAlgorithm.dsa), int(SignatureAlgorithm.ecdsa)]
    rsa = []
    for pad in ("pkcs1", "pss"):
        for var in ("rsae", "pss"):
            for h in HASHES:
                try:
                    v = getattr(SignatureScheme, "rsa_{0}_{1}_{2}".format(pad, var, h))
                    v = [int(v[0]), int(v[1])]
                except AttributeError:
                    v = None
                rsa.append([pad, var, h, v])
    out["rsa"] = rsa
    more = []
    for tag, name in MORE:
        try:
            v = getattr(SignatureScheme, name)
        except AttributeError:
            try:
                v = getattr(SignatureScheme, name.lower())
            except AttributeError:
                v = None
        more.append([tag, [int(v[0]), int(v[1])] if v is not None else None])
    out["more"] = more
    out["bp"] = sorted([int(a), int(b)] for (a, b) in TLS_1_3_BRAINPOOL_SIG_SCHEMES)
    ch = []
    for tag, name in CURVES:
        try:
            v = curve_name_to_hash_name(name)
        except Exception:
            v = None
        ch.append([tag, v])
    out["curvehash"] = ch
except Exception as e:
    out["problems"].append("%s: %s" % (type(e).__name__, e))
print(json.dumps(out))
'''


def _probe(repo):
    src = "HASHES=%r\nMORE=%r\nCURVES=%r\n" % (HASHES, MORE, CURVES) + PROBE
    p = subprocess.run([PY, "-c", src], env={"PYTHONPATH": repo, "PATH": "/usr/bin:/bin"},
                       stdout=subprocess.PIPE, stderr=subprocess.PIPE, universal_newlines=True, timeout=120)
    if p.returncode != 0:
        return {"problems": ["probe failed: " + p.stderr[-300:]]}
    try:
        return json.loads(p.stdout.strip().split("\n")[-1])
    except Exception as e:
        return {"problems": ["probe output unreadable: %s" % e]}


def _opt_pair(v):
    return "none" if v is None else "some (%d, %d)" % (v[0], v[1])


def generate(repo):
    d = _probe(repo)
    problems = list(d.get("problems", []))
    reprs = d.get("reprs", [])
    for a, b, n, fam, pad, h in reprs:
        if fam not in FAMS:
            problems.append("scheme %s: key type %r" % (n, fam))
        if pad not in (None, "pkcs1", "pss"):
            problems.append("scheme %s: padding %r" % (n, pad))
        if h not in HASHES:
            problems.append("scheme %s: hash %r" % (n, h))
    for n, r in d.get("hashrepr", []):
        if r is not None and r not in HASHES:
            problems.append("HashAlgorithm %d: %r" % (n, r))
    for tag, v in d.get("curvehash", []):
        if v is not None and v not in HASHES:
            problems.append("curve %s: hash %r" % (tag, v))
    L = []
    L.append("import TlsModel.AuthBase")
    L.append("/- GENERATED by translate/gen_sigschemes.py from tlslite/constants.py and tlslite/utils/ecc.py -- do not edit -/")
    L.append("namespace Tls.Auth.Gen")
    L.append("open Tls.Auth")
    L.append("")
    L.append("def problems : List String := [%s]" % ", ".join(lean_str(x) for x in problems))
    L.append("")
    if problems:
        L.append("def schemeRepr (_a _b : Nat) : Option SchemeInfo := none")
        L.append("def hashRepr (_n : Nat) : Option HashName := none")
        L.append("def hashId (_h : HashName) : Nat := 0")
        L.append("def sigRsa : Nat := 0\ndef sigDsa : Nat := 0\ndef sigEcdsa : Nat := 0")
        L.append("def rsaAttr (_p : RsaPad) (_pssVariant : Bool) (_h : HashName) : Option SchemeId := none")
        L.append("def moreAttr (_m : MoreScheme) : Option SchemeId := none")
        L.append("def brainpool13 : List SchemeId := []")
        L.append("def curveHash (_c : Curve) : Option HashName := none")
    else:
        L.append("/-- `SignatureScheme.toRepr((a, b))` with `getKeyType`, `getPadding`, `getHash` of that name -/")
        L.append("def schemeRepr (a b : Nat) : Option SchemeInfo :=")
        L.append("  match a, b with")
        for a, b, n, fam, pad, h in reprs:
            L.append("  | %d, %d => some { name := %s, fam := .%s, pad := %s, hash := .%s }"
                     % (a, b, lean_str(n), fam, "none" if pad is None else "some .%s" % pad, h))
        L.append("  | _, _ => none")
        L.append("")
        L.append("/-- `HashAlgorithm.toRepr(n)` -/")
        L.append("def hashRepr (n : Nat) : Option HashName :=")
        L.append("  match n with")
        for n, r in d["hashrepr"]:
            if r is not None:
                L.append("  | %d => some .%s" % (n, r))
        L.append("  | _ => none")
        L.append("")
        L.append("/-- `getattr(HashAlgorithm, h)` -/")
        L.append("def hashId (h : HashName) : Nat :=")
        L.append("  match h with")
        for h in HASHES:
            v = d["hashid"].get(h)
            L.append("  | .%s => %d" % (h, v if v is not None else 255))
        L.append("")
        L.append("def sigRsa : Nat := %d\ndef sigDsa : Nat := %d\ndef sigEcdsa : Nat := %d" % tuple(d["sig"]))
        L.append("")
        L.append("/-- `getattr(SignatureScheme, \"rsa_{pad}_{rsae|pss}_{hash}\")`; `none` = AttributeError -/")
        L.append("def rsaAttr (p : RsaPad) (pssVariant : Bool) (h : HashName) : Option SchemeId :=")
        L.append("  match p, pssVariant, h with")
        for pad, var, h, v in d["rsa"]:
            if v is not None:
                L.append("  | .%s, %s, .%s => some (%d, %d)" % (pad, "true" if var == "pss" else "false", h, v[0], v[1]))
        L.append("  | _, _, _ => none")
        L.append("")
        L.append("/-- the `more_sig_schemes` lookup: `getattr(SignatureScheme, m)` falling back to `m.lower()` -/")
        L.append("def moreAttr (m : MoreScheme) : Option SchemeId :=")
        L.append("  match m with")
        for tag, v in d["more"]:
            L.append("  | .%s => %s" % (tag, _opt_pair(v)))
        L.append("")
        L.append("/-- `TLS_1_3_BRAINPOOL_SIG_SCHEMES` -/")
        L.append("def brainpool13 : List SchemeId := [%s]" % ", ".join("(%d, %d)" % (a, b) for a, b in d["bp"]))
        L.append("")
        L.append("/-- `curve_name_to_hash_name`; `none` = raises TLSIllegalParameterException -/")
        L.append("def curveHash (c : Curve) : Option HashName :=")
        L.append("  match c with")
        for tag, v in d["curvehash"]:
            L.append("  | .%s => %s" % (tag, "none" if v is None else "some .%s" % v))
    L.append("")
    L.append("end Tls.Auth.Gen")
    return {"TlsModel/Gen/SigSchemes.lean": "\n".join(L) + "\n"}
