"""tlslite/tlsconnection.py, messages.py, session.py, tlsrecordlayer.py -> lean/TlsModel/Gen/Resume.lean

Read from the AST of the tree under check, what the resumption code says NOW:

  outerCond / ticketCallCond / echoSidCond / cacheCond   conditions of the resumption block of
                     _serverGetClientHello (when it runs; when the ticket is tried; when the client's
                     session_id is echoed into the ticket session; when the cache is consulted)
  checkGuards        the chain of `if`s between "a session was found" and "If a session is found..",
                     in source order, each with its effect (full handshake / alert / AssertionError)
  resumeServerHello  arguments of serverHello.create(...) on the resumption path
  resumeSessionValue what `self.session = ...` is assigned on the resumption path
  resumeKeyArgs      arguments of _calcPendingStates on the resumption path
  ticketToSessionGuards   the guards of _ticket_to_session (each returns None)
  ticketToSessionArgs     Session.create(...) arguments of _ticket_to_session (parameter -> source)
  tryDecryptShape    facts about _tryDecrypt: iterates settings.ticketKeys in order, `continue`s on a
                     failed open / parse, returns at the first success
  pskOuterCond, pskLoopEvents   the TLS 1.3 PSK loop of _serverTLS13Handshake: ordered events
                     (assignments, decrypt, `continue` guards, conditional assignments, binder check, break)
  pskResumedFlag     what `resuming` is assigned
  ticketCreateArgs   SessionTicketPayload.create(...) arguments in _serverSendTickets (parameter -> source)
  ticketKeyUsed      which key _serverSendTickets passes to _derive_key_iv
  kdfUsesUserKey     _derive_key_iv mixes `user_key` into the secret
  payloadWrite / payloadParse   fields of SessionTicketPayload.write / .parse in order (with width)
  sessionCreateStores     `self.X = X` assignments of Session.create
  resumableCleared   every statement in the package that assigns `.resumable` (file, function, text)

Unknown shapes are reported in `translatorProblems` and as `Atom.unknown` / `Effect.unknown` /
`PskEvent.unknown` entries, which make the obligations over this file false: nothing is guessed.
"""
import ast
import os

from . import lean_str

ATOMS = {
    "clientHello.session_id": "helloSid",
    "sessionCache": "hasCache",
    "ticket_ext": "ticketExt",
    "ticket_ext.ticket": "ticketNonEmpty",
    "session": "sessionFound",
    "session.resumable": "resumable",
    "session.cipherSuite in cipherSuites": "suiteAllowed",
    "session.cipherSuite in clientHello.cipher_suites": "suiteOffered",
    "clientHello.srp_username": "helloSrp",
    "session.srpUsername": "sessSrp",
    "clientHello.srp_username == bytearray(session.srpUsername, 'utf-8')": "srpEqual",
    "clientHello.server_name": "helloSni",
    "session.serverName": "sessSni",
    "clientHello.server_name == bytearray(session.serverName, 'utf-8')": "sniEqual",
    "session.encryptThenMAC": "sessEtm",
    "clientHello.getExtension(ExtensionType.encrypt_then_mac)": "helloEtm",
    "session.extendedMasterSecret": "sessEms",
    "clientHello.getExtension(ExtensionType.extended_master_secret)": "helloEms",
    "ticket": "ticketOpened",
    "ticket.creation_time + settings.ticketLifetime < time.time()": "expired",
    "match": "matched",
    "self.version == ticket.protocol_version": "versionEqual",
    "psk_hash == prf_name": "hashEqual",
    "psks": "pskExt",
    "PskKeyExchangeMode.psk_dhe_ke in psk_types.modes": "helloDhe",
    "PskKeyExchangeMode.psk_ke in psk_types.modes": "helloKe",
    "settings.pskConfigs": "hasPskConfigs",
    "settings.ticketKeys": "hasTicketKeys",
}


class T(object):
    def __init__(self):
        self.problems = []

    def problem(self, s):
        self.problems.append(s)

    # ---- conditions
    def atom(self, text):
        if text in ATOMS:
            return "(.atom .%s)" % ATOMS[text]
        self.problem("unknown condition atom: " + text)
        return "(.atom (.unknown %s))" % lean_str(text)

    def cond(self, e):
        if isinstance(e, ast.BoolOp):
            op = ".and" if isinstance(e.op, ast.And) else ".or"
            parts = [self.cond(v) for v in e.values]
            out = parts[0]
            for p in parts[1:]:
                out = "(%s %s %s)" % (op, out, p)
            return out
        if isinstance(e, ast.UnaryOp) and isinstance(e.op, ast.Not):
            return "(.not %s)" % self.cond(e.operand)
        if isinstance(e, ast.Compare) and len(e.ops) == 1:
            l, r = ast.unparse(e.left), ast.unparse(e.comparators[0])
            op = e.ops[0]
            if isinstance(op, ast.NotIn):
                return "(.not %s)" % self.atom("%s in %s" % (l, r))
            if isinstance(op, ast.NotEq):
                return "(.not %s)" % self.atom("%s == %s" % (l, r))
        return self.atom(ast.unparse(e))

    # ---- effects
    def effect(self, body):
        """effect of the body of a guard; returns (effect, nested) where nested is an inner If to flatten"""
        if len(body) == 1 and isinstance(body[0], ast.If) and not body[0].orelse:
            return None, body[0]
        texts = [ast.unparse(s) for s in body]
        if texts in (["raise KeyError()"], ["session = None", "raise KeyError()"], ["session = None"]):
            return ".full", None
        if texts == ["raise AssertionError()"]:
            return ".assertionError", None
        if texts == ["continue"]:
            return ".skip", None
        if texts == ["return None"]:
            return ".none", None
        if len(body) == 1 and isinstance(body[0], ast.For):
            f = body[0]
            it = f.iter
            if (isinstance(it, ast.Call) and ast.unparse(it.func) == "self._sendError" and it.args
                    and ast.unparse(it.args[0]).startswith("AlertDescription.")
                    and [ast.unparse(s) for s in f.body] == ["yield result"]):
                return ".alert %s" % lean_str(ast.unparse(it.args[0]).split(".", 1)[1]), None
        self.problem("unknown guard body: " + " ; ".join(texts)[:200])
        return ".unknown %s" % lean_str(" ; ".join(texts)[:200]), None

    def guards_of_if(self, node, prefix=None):
        """flatten `if a: if b: X` to (a and b, X) and `if .. elif ..` to consecutive guards"""
        out = []
        c = self.cond(node.test)
        if prefix is not None:
            c = "(.and %s %s)" % (prefix, c)
        eff, nested = self.effect(node.body)
        if nested is not None:
            out += self.guards_of_if(nested, c)
        else:
            out.append((c, eff))
        if node.orelse:
            if len(node.orelse) == 1 and isinstance(node.orelse[0], ast.If) and eff is not None \
                    and (eff.startswith(".alert") or eff in (".assertionError",)) and prefix is None:
                out += self.guards_of_if(node.orelse[0])
            else:
                self.problem("unsupported else branch at line %d" % node.lineno)
                out.append(("(.atom (.unknown \"else\"))", ".unknown \"else\""))
        return out


def fmt_guards(gs):
    return "[\n" + ",\n".join("  { cond := %s, effect := %s }" % g for g in gs) + "]"


def fmt_pairs(ps):
    return "[" + ", ".join("(%s, %s)" % (lean_str(a), lean_str(b)) for a, b in ps) + "]"


def fmt_strs(xs):
    return "[" + ", ".join(lean_str(x) for x in xs) + "]"


def find_func(tree, cls, name):
    for n in ast.walk(tree):
        if isinstance(n, ast.ClassDef) and n.name == cls:
            for f in n.body:
                if isinstance(f, ast.FunctionDef) and f.name == name:
                    return f
    return None


def call_args(call, params):
    """(parameter name, source text) of a call given the positional parameter names"""
    out = []
    for i, a in enumerate(call.args):
        out.append((params[i] if i < len(params) else "?%d" % i, ast.unparse(a)))
    for k in call.keywords:
        out.append((k.arg or "**", ast.unparse(k.value)))
    return out


def func_params(f):
    return [a.arg for a in f.args.args if a.arg != "self"]


def generate(repo):
    t = T()
    P = t.problem
    src = {}
    trees = {}
    for rel in ("tlslite/tlsconnection.py", "tlslite/messages.py", "tlslite/session.py", "tlslite/tlsrecordlayer.py",
                "tlslite/sessioncache.py", "tlslite/recordlayer.py"):
        try:
            with open(os.path.join(repo, rel)) as f:
                src[rel] = f.read()
            trees[rel] = ast.parse(src[rel])
        except Exception as e:  # noqa: BLE001
            P("cannot parse %s: %s" % (rel, e))
            trees[rel] = ast.parse("")
    tc = trees["tlslite/tlsconnection.py"]
    D = {"outer": '(.atom (.unknown "missing"))', "ticketCall": '(.atom (.unknown "missing"))',
         "echo": '(.atom (.unknown "missing"))', "cache": '(.atom (.unknown "missing"))', "check": [],
         "sh": [], "sessval": "?", "keyargs": [], "t2sGuards": [], "t2sArgs": [], "tryDecrypt": [],
         "pskOuter": '(.atom (.unknown "missing"))', "pskEvents": [], "resumedFlag": "?", "createArgs": [],
         "ticketKey": "?", "kdfUserKey": False, "write": [], "parse": [], "stores": [], "cleared": []}

    # ---------------- resumption block of _serverGetClientHello
    f = find_func(tc, "TLSConnection", "_serverGetClientHello")
    blk = None
    if f is not None:
        for n in ast.walk(f):
            if isinstance(n, ast.If) and len(n.body) >= 2 and isinstance(n.body[1], ast.Try) and \
                    ast.unparse(n.body[0]) == "session = None":
                blk = n
                break
    if blk is None:
        P("resumption block of _serverGetClientHello not found")
    else:
        D["outer"] = t.cond(blk.test)
        tr = blk.body[1]
        if [ast.unparse(h.type) for h in tr.handlers] != ["KeyError"] or \
                [ast.unparse(s) for h in tr.handlers for s in h.body] != ["pass"] or tr.orelse or tr.finalbody:
            P("try/except of the resumption block has an unexpected shape")
        body = list(tr.body)
        # [0] ticket attempt
        ok = False
        if body and isinstance(body[0], ast.If) and not body[0].orelse and len(body[0].body) == 2:
            a, b = body[0].body
            if ast.unparse(a) == "session = self._ticket_to_session(settings, ticket_ext)" and isinstance(b, ast.If) \
                    and not b.orelse and [ast.unparse(s) for s in b.body] == ["session.sessionID = clientHello.session_id"]:
                D["ticketCall"] = t.cond(body[0].test)
                D["echo"] = t.cond(b.test)
                ok = True
        if not ok:
            P("ticket attempt of the resumption block has an unexpected shape")
        # [1] cache lookup
        ok = False
        if len(body) > 1 and isinstance(body[1], ast.If) and not body[1].orelse and \
                [ast.unparse(s) for s in body[1].body] == ["session = sessionCache[clientHello.session_id]"]:
            D["cache"] = t.cond(body[1].test)
            ok = True
        if not ok:
            P("cache lookup of the resumption block has an unexpected shape")
        gs = []
        for st in body[2:]:
            if isinstance(st, ast.If):
                gs += t.guards_of_if(st)
            else:
                P("statement between the guards of the resumption block: " + ast.unparse(st)[:120])
                gs.append(('(.atom (.unknown "stmt"))', ".unknown %s" % lean_str(ast.unparse(st)[:120])))
        D["check"] = gs
        # the `if session:` block
        rest = blk.body[2:]
        if len(rest) == 1 and isinstance(rest[0], ast.If) and ast.unparse(rest[0].test) == "session" and not rest[0].orelse:
            res = rest[0]
            for n in ast.walk(res):
                if isinstance(n, ast.Call) and ast.unparse(n.func) == "serverHello.create":
                    D["sh"] = [ast.unparse(a) for a in n.args] + ["%s=%s" % (k.arg, ast.unparse(k.value)) for k in n.keywords]
                if isinstance(n, ast.Call) and ast.unparse(n.func) == "self._calcPendingStates":
                    D["keyargs"] = [ast.unparse(a) for a in n.args]
            vals = [ast.unparse(n.value) for n in ast.walk(res) if isinstance(n, ast.Assign)
                    and [ast.unparse(x) for x in n.targets] == ["self.session"]]
            D["sessval"] = vals[0] if len(vals) == 1 else "?" + "|".join(vals)
            ys = [ast.unparse(n) for n in ast.walk(res) if isinstance(n, ast.Yield) and n.value is not None
                  and ast.unparse(n.value) == "None"]
            if len(ys) != 1:
                P("resumption path does not end with exactly one `yield None`")
        else:
            P("`if session:` block after the resumption checks not found")

    # ---------------- _ticket_to_session
    f = find_func(tc, "TLSConnection", "_ticket_to_session")
    if f is None:
        P("_ticket_to_session not found")
    else:
        gs = []
        seen_decrypt = False
        for st in f.body:
            if isinstance(st, ast.If):
                gs += t.guards_of_if(st)
            elif ast.unparse(st) == "_, ticket = self._tryDecrypt(settings, ticket=ticket_ext.ticket)":
                seen_decrypt = True
                gs.append(("(.atom .ticketNonEmpty)", ".unknown \"decrypt\""))   # position marker, removed below
            elif isinstance(st, ast.Expr) and isinstance(st.value, ast.Call) and ast.unparse(st.value.func) == "session.create":
                fs = find_func(trees["tlslite/session.py"], "Session", "create")
                D["t2sArgs"] = call_args(st.value, func_params(fs) if fs else [])
            elif ast.unparse(st) in ("session = Session()", "return session"):
                pass
            else:
                P("_ticket_to_session: unexpected statement " + ast.unparse(st)[:100])
        # the decrypt must sit between the first guard and the rest
        idx = [i for i, g in enumerate(gs) if g[1] == '.unknown "decrypt"']
        if not seen_decrypt or idx != [1]:
            P("_ticket_to_session: _tryDecrypt is not called right after the empty-ticket guard")
        D["t2sGuards"] = [g for g in gs if g[1] != '.unknown "decrypt"']

    # ---------------- _tryDecrypt
    f = find_func(tc, "TLSConnection", "_tryDecrypt")
    facts = []
    if f is None:
        P("_tryDecrypt not found")
    else:
        loops = [n for n in f.body if isinstance(n, ast.For)]
        if len(loops) == 1 and ast.unparse(loops[0].target) == "user_key" and ast.unparse(loops[0].iter) == "settings.ticketKeys":
            facts.append("for user_key in settings.ticketKeys")
            lp = loops[0]
            texts = [ast.unparse(s) for s in lp.body]
            if any(s.startswith("key, iv = self._derive_key_iv(nonce, user_key, settings)") for s in texts):
                facts.append("key from (nonce, user_key)")
            if "ticket = cipher.open(iv, encrypted_ticket, b'')" in texts:
                i = texts.index("ticket = cipher.open(iv, encrypted_ticket, b'')")
                if i + 1 < len(texts) and texts[i + 1] == "if not ticket:\n    continue":
                    facts.append("open failure -> continue")
            for s in lp.body:
                if isinstance(s, ast.Try) and [ast.unparse(x) for x in s.body] == ["ticket = SessionTicketPayload().parse(parser)"] \
                        and [ast.unparse(h.type) for h in s.handlers] == ["ValueError"] \
                        and [ast.unparse(x) for h in s.handlers for x in h.body] == ["continue"]:
                    facts.append("parse ValueError -> continue")
            rets = [ast.unparse(n) for n in ast.walk(lp) if isinstance(n, ast.Return)]
            if sorted(rets) == sorted(["return (None, ticket)", "return ((identity.identity, psk, prf), ticket)"]):
                facts.append("first success returns")
            brk = [n for n in ast.walk(lp) if isinstance(n, ast.Break)]
            if brk:
                P("_tryDecrypt: break inside the key loop")
            if ast.unparse(f.body[-1]) == "return (None, None)":
                facts.append("no key works -> (None, None)")
        else:
            P("_tryDecrypt: key loop not found")
        pre = [ast.unparse(s) for s in f.body]
        if "if not settings.ticketKeys:\n    return (None, None)" in pre:
            facts.append("no keys -> (None, None)")
        if any("nonce, encrypted_ticket = (ticket[:32], ticket[32:])" in s for s in pre):
            facts.append("<=1.2: nonce = ticket[:32]")
        if any("len(identity.identity) < 33" in s and "return (None, None)" in s for s in pre):
            facts.append("1.3: identity shorter than 33 -> (None, None)")
    D["tryDecrypt"] = facts

    # ---------------- TLS 1.3 PSK loop
    f = find_func(tc, "TLSConnection", "_serverTLS13Handshake")
    loop = None
    outer = None
    if f is not None:
        for n in ast.walk(f):
            if isinstance(n, ast.If):
                for s in n.body:
                    if isinstance(s, ast.For) and ast.unparse(s.iter) == "enumerate(psks.identities)":
                        loop, outer = s, n
    if loop is None:
        P("TLS 1.3 PSK loop not found")
    else:
        if len(outer.body) != 1 or outer.orelse or ast.unparse(loop.target) != "(i, ident)" or loop.orelse:
            P("TLS 1.3 PSK loop: unexpected surroundings")
        D["pskOuter"] = t.cond(outer.test)
        ev = []

        def events(stmts, top=True):
            for st in stmts:
                txt = ast.unparse(st)
                if isinstance(st, ast.Assign):
                    if txt in ("(match, ticket) = self._tryDecrypt(settings, ident)",
                               "match, ticket = self._tryDecrypt(settings, ident)"):
                        ev.append(".decrypt")
                    else:
                        for tg in st.targets:
                            ev.append(".assign %s" % lean_str(ast.unparse(tg)))
                        if ast.unparse(st.targets[0]) == "resuming":
                            D["resumedFlag"] = ast.unparse(st.value)
                elif isinstance(st, ast.If) and not st.orelse and [ast.unparse(x) for x in st.body] == ["continue"]:
                    ev.append(".guard { cond := %s, effect := .skip }" % t.cond(st.test))
                elif isinstance(st, ast.If) and not st.orelse and len(st.body) == 1 and isinstance(st.body[0], ast.Assign) \
                        and len(st.body[0].targets) == 1:
                    ev.append(".condAssign %s %s" % (t.cond(st.test), lean_str(ast.unparse(st.body[0].targets[0]))))
                elif isinstance(st, ast.If) and not st.orelse and top and ast.unparse(st.test) == "not match":
                    # the ticket branch: its statements are events under `not matched`
                    ev.append(".beginIf %s" % t.cond(st.test))
                    events(st.body, False)
                    ev.append(".endIf")
                elif isinstance(st, ast.Try):
                    okb = (len(st.body) == 1 and isinstance(st.body[0], ast.Expr) and isinstance(st.body[0].value, ast.Call)
                           and ast.unparse(st.body[0].value.func) == "HandshakeHelpers.verify_binder")
                    al = None
                    if len(st.handlers) == 1 and ast.unparse(st.handlers[0].type) == "TLSIllegalParameterException":
                        eff, _ = t.effect(st.handlers[0].body) if False else (None, None)
                        hb = st.handlers[0].body
                        if len(hb) == 1 and isinstance(hb[0], ast.For) and ast.unparse(hb[0].iter.func) == "self._sendError":
                            al = ast.unparse(hb[0].iter.args[0]).split(".", 1)[1]
                    if okb and al:
                        args = [ast.unparse(a) for a in st.body[0].value.args]
                        ev.append(".binder %s" % lean_str(al))
                        D["binderArgs"] = args
                    else:
                        P("PSK loop: unexpected try statement")
                        ev.append(".unknown %s" % lean_str(txt[:80]))
                elif isinstance(st, ast.Break):
                    ev.append(".brk")
                else:
                    P("PSK loop: unexpected statement " + txt[:100])
                    ev.append(".unknown %s" % lean_str(txt[:100]))
        events(loop.body)
        D["pskEvents"] = ev
    D.setdefault("binderArgs", [])

    # ---------------- _serverSendTickets / _derive_key_iv
    f = find_func(tc, "TLSConnection", "_serverSendTickets")
    if f is None:
        P("_serverSendTickets not found")
    else:
        fc = find_func(trees["tlslite/messages.py"], "SessionTicketPayload", "create")
        calls = [n for n in ast.walk(f) if isinstance(n, ast.Call) and ast.unparse(n.func) == "ticket.create"]
        if len(calls) == 1 and fc is not None:
            D["createArgs"] = call_args(calls[0], func_params(fc))
        else:
            P("_serverSendTickets: ticket.create call not found")
        ks = [ast.unparse(n.args[1]) for n in ast.walk(f) if isinstance(n, ast.Call)
              and ast.unparse(n.func) == "self._derive_key_iv" and len(n.args) >= 2]
        D["ticketKey"] = ks[0] if len(ks) == 1 else "?" + "|".join(ks)
        if not any(isinstance(n, ast.Call) and ast.unparse(n.func) == "cipher.seal"
                   and [ast.unparse(a) for a in n.args] == ["iv", "ticket.write()", "b''"] for n in ast.walk(f)):
            P("_serverSendTickets: cipher.seal(iv, ticket.write(), b'') not found")
    f = find_func(tc, "TLSConnection", "_derive_key_iv")
    if f is not None:
        D["kdfUserKey"] = any(ast.unparse(s) == "secret = secureHMAC(secret, user_key, prf_name)" for s in f.body) and \
            any(ast.unparse(s) == "secret = secureHMAC(secret, nonce, prf_name)" for s in f.body)
    else:
        P("_derive_key_iv not found")

    # ---------------- SessionTicketPayload write / parse field order
    msg = trees["tlslite/messages.py"]
    fw = find_func(msg, "SessionTicketPayload", "write")
    fp = find_func(msg, "SessionTicketPayload", "parse")
    if fw is None or fp is None:
        P("SessionTicketPayload.write/parse not found")
    else:
        w = []

        def wr(stmts, cond):
            for st in stmts:
                txt = ast.unparse(st)
                if isinstance(st, ast.If):
                    wr(st.body, ast.unparse(st.test))
                    if st.orelse:
                        P("SessionTicketPayload.write: else branch")
                elif txt.startswith("writer.") or txt.startswith("wcert.bytes +="):
                    w.append((cond, txt))
                elif txt in ("writer = Writer()", "wcert = Writer()", "return writer.bytes") or isinstance(st, ast.For):
                    if isinstance(st, ast.For):
                        w.append((cond, "for " + ast.unparse(st.target) + " in " + ast.unparse(st.iter) + ": " +
                                  "; ".join(ast.unparse(x) for x in st.body)))
                else:
                    P("SessionTicketPayload.write: unexpected statement " + txt[:80])
        wr(fw.body, "")
        D["write"] = w
        p = []

        def pr(stmts, cond):
            for st in stmts:
                txt = ast.unparse(st)
                if isinstance(st, ast.If):
                    pr(st.body, ast.unparse(st.test))
                    if st.orelse:
                        P("SessionTicketPayload.parse: else branch")
                elif txt == "return self":
                    pass
                else:
                    p.append((cond, txt))
        pr(fp.body, "")
        D["parse"] = p

    def attrs_of(fn, store):
        out = []
        for n in ast.walk(fn):
            pass
        # source order: walk statements
        def visit(stmts):
            for st in stmts:
                if isinstance(st, ast.If):
                    visit(st.body)
                    visit(st.orelse)
                    continue
                if isinstance(st, ast.For):
                    names = [ast.unparse(st.iter)]
                    for x in names:
                        if x.startswith("self."):
                            out.append(x[5:])
                    continue
                for n in ast.walk(st):
                    if isinstance(n, ast.Attribute) and isinstance(n.value, ast.Name) and n.value.id == "self" and \
                            isinstance(n.ctx, ast.Store if store else ast.Load):
                        if not store and isinstance(st, ast.Raise):
                            continue
                        if n.attr not in out or True:
                            out.append(n.attr)
        visit(fn.body)
        norm = []
        for a in out:
            a = {"_cert_chain": "client_cert_chain", "_parse_cert_chain": "client_cert_chain"}.get(a, a)
            if not norm or norm[-1] != a:
                norm.append(a)
        return norm
    D["writeFields"] = attrs_of(fw, False) if fw is not None else []
    D["parseFields"] = (attrs_of(fp, True) if fp is not None else [])
    if fp is not None:
        # the certificate chain is parsed through a helper call, not an attribute store
        pf = []
        for cond_, txt in D["parse"]:
            if txt.startswith("self._parse_cert_chain("):
                pf.append("client_cert_chain")
            elif txt.startswith("self.") and " = " in txt:
                pf.append(txt[5:].split(" = ")[0])
        D["parseFields"] = pf

    # ---------------- Session.create stores
    fs = find_func(trees["tlslite/session.py"], "Session", "create")
    if fs is None:
        P("Session.create not found")
    else:
        for st in fs.body:
            if isinstance(st, ast.Assign) and len(st.targets) == 1:
                D["stores"].append((ast.unparse(st.targets[0]), ast.unparse(st.value)))
            elif isinstance(st, ast.Expr) and isinstance(st.value, ast.Constant):
                pass
            else:
                P("Session.create: unexpected statement " + ast.unparse(st)[:80])
        dflt = {a.arg: ast.unparse(d) for a, d in zip(fs.args.args[len(fs.args.args) - len(fs.args.defaults):], fs.args.defaults)}
        D["createDefaults"] = sorted(dflt.items())
    D.setdefault("createDefaults", [])

    # ---------------- every place that assigns `.resumable`
    for rel, tree in sorted(trees.items()):
        for cls in [n for n in ast.walk(tree) if isinstance(n, ast.ClassDef)]:
            for fn in [n for n in cls.body if isinstance(n, ast.FunctionDef)]:
                for n in ast.walk(fn):
                    if isinstance(n, (ast.Assign, ast.AugAssign)):
                        tgts = n.targets if isinstance(n, ast.Assign) else [n.target]
                        if any(isinstance(x, ast.Attribute) and x.attr == "resumable" for x in tgts):
                            D["cleared"].append(("%s:%s.%s" % (rel, cls.name, fn.name), ast.unparse(n)))
    # _shutdown shape
    fsd = find_func(trees["tlslite/tlsrecordlayer.py"], "TLSRecordLayer", "_shutdown")
    sd = ""
    if fsd is not None and fsd.body and isinstance(fsd.body[-1], ast.If):
        sd = ast.unparse(fsd.body[-1])
    D["shutdownTail"] = sd
    # SessionCache.__getitem__ validity test
    fg = find_func(trees["tlslite/sessioncache.py"], "SessionCache", "__getitem__")
    D["cacheGet"] = []
    if fg is not None:
        for n in ast.walk(fg):
            if isinstance(n, ast.If):
                D["cacheGet"].append(ast.unparse(n.test) + " -> " + " ; ".join(ast.unparse(x) for x in n.body) +
                                     (" | else " + " ; ".join(ast.unparse(x) for x in n.orelse) if n.orelse else ""))
    fv = find_func(trees["tlslite/session.py"], "Session", "valid")
    D["valid"] = ""
    if fv is not None:
        rets = [ast.unparse(n.value) for n in ast.walk(fv) if isinstance(n, ast.Return)]
        D["valid"] = rets[0] if len(rets) == 1 else "?"

    fe = find_func(trees["tlslite/recordlayer.py"], "RecordLayer", "_get_pending_state_etm")
    D["pendingEtm"] = "?"
    if fe is not None:
        rets = [ast.unparse(n.value) for n in ast.walk(fe) if isinstance(n, ast.Return) and n.value is not None]
        D["pendingEtm"] = rets[0] if len(rets) == 1 else "?" + "|".join(rets)
    else:
        P("RecordLayer._get_pending_state_etm not found")

    L = []
    L.append("import TlsModel.ResumeGuards")
    L.append("/- GENERATED by translate/gen_resume.py from tlslite/tlsconnection.py, messages.py, session.py,")
    L.append("   tlsrecordlayer.py, sessioncache.py of the tree under check; do not edit. -/")
    L.append("namespace Tls.Gen.Resume")
    L.append("open Tls.Resume")
    L.append("")
    L.append("def translatorProblems : List String := " + fmt_strs(t.problems))
    L.append("")
    L.append("/-- `if <outerCond>:` around the resumption block of `_serverGetClientHello` -/")
    L.append("def outerCond : Cond := " + D["outer"])
    L.append("/-- `if <ticketCallCond>: session = self._ticket_to_session(settings, ticket_ext)` -/")
    L.append("def ticketCallCond : Cond := " + D["ticketCall"])
    L.append("/-- `if <echoSidCond>: session.sessionID = clientHello.session_id` -/")
    L.append("def echoSidCond : Cond := " + D["echo"])
    L.append("/-- `if <cacheCond>: session = sessionCache[clientHello.session_id]` -/")
    L.append("def cacheCond : Cond := " + D["cache"])
    L.append("/-- the checks between the lookup and `if session:` in source order -/")
    L.append("def checkGuards : List Guard := " + fmt_guards(D["check"]))
    L.append("def resumeServerHello : List String := " + fmt_strs(D["sh"]))
    L.append("def resumeSessionValue : String := " + lean_str(D["sessval"]))
    L.append("def resumeKeyArgs : List String := " + fmt_strs(D["keyargs"]))
    L.append("")
    L.append("def ticketToSessionGuards : List Guard := " + fmt_guards(D["t2sGuards"]))
    L.append("def ticketToSessionArgs : List (String × String) := " + fmt_pairs(D["t2sArgs"]))
    L.append("def tryDecryptShape : List String := " + fmt_strs(D["tryDecrypt"]))
    L.append("")
    L.append("def pskOuterCond : Cond := " + D["pskOuter"])
    L.append("def pskLoopEvents : List PskEvent := [\n" + ",\n".join("  " + e for e in D["pskEvents"]) + "]")
    L.append("def pskResumedFlag : String := " + lean_str(D["resumedFlag"]))
    L.append("def binderArgs : List String := " + fmt_strs(D["binderArgs"]))
    L.append("")
    L.append("def ticketCreateArgs : List (String × String) := " + fmt_pairs(D["createArgs"]))
    L.append("def ticketKeyUsed : String := " + lean_str(D["ticketKey"]))
    L.append("/-- what `_get_pending_state_etm()` (the ticket's encrypt_then_mac source) returns -/")
    L.append("def pendingEtmSource : String := " + lean_str(D["pendingEtm"]))
    L.append("def kdfUsesUserKey : Bool := " + ("true" if D["kdfUserKey"] else "false"))
    L.append("def payloadWrite : List (String × String) := " + fmt_pairs(D["write"]))
    L.append("def payloadParse : List (String × String) := " + fmt_pairs(D["parse"]))
    L.append("/-- attributes of the payload in the order `write` serialises them / `parse` assigns them -/")
    L.append("def payloadWriteFields : List String := " + fmt_strs(D["writeFields"]))
    L.append("def payloadParseFields : List String := " + fmt_strs(D["parseFields"]))
    L.append("def sessionCreateStores : List (String × String) := " + fmt_pairs(D["stores"]))
    L.append("def sessionCreateDefaults : List (String × String) := " + fmt_pairs(D["createDefaults"]))
    L.append("def resumableAssigned : List (String × String) := " + fmt_pairs(D["cleared"]))
    L.append("def shutdownTail : String := " + lean_str(D["shutdownTail"]).replace("\n", "\\n"))
    L.append("def cacheGetTests : List String := " + fmt_strs(D["cacheGet"]))
    L.append("def sessionValid : String := " + lean_str(D["valid"]))
    L.append("")
    L.append("end Tls.Gen.Resume")
    return {"TlsModel/Gen/Resume.lean": "\n".join(L) + "\n"}
