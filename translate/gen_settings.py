"""C19 translator: tlslite/handshakesettings.py -> lean/TlsModel/Gen/Settings.lean

Two independent parts, both read from the *source* of $VERIF_REPO on every run:

(a) Name lists, constants and the defaults set by `__init__`/`_init_*`, as Lean functions of `Env`
    (which optional backends exist).  The module-level statements are evaluated symbolically from
    the AST (list literals, `+`, `+=`, `.append`, `if <availability flag>:`), so the generated
    definitions are valid for every installation, not only this one.  Self-test: the symbolic value
    under this installation's flags must equal what importing the module in a subprocess gives;
    otherwise `constsOk := false`.

(b) The alias / copy / mutate structure of `HandshakeSettings.validate()` and every helper it calls,
    by abstract interpretation of the AST over "which object does this attribute refer to":
    `alias`, `copy`, `fresh`, `mutate`, `rebindSelf`, `mayRaise`, `unknown`.  Anything that is not
    positively classified becomes `unknown`, which makes `pureOps Gen.validateOps` false.
"""
import ast
import json
import os
import subprocess

from . import lean_str

PY = "/venv/bin/python"
OUT = "TlsModel/Gen/Settings.lean"

# ---------------------------------------------------------------------------------------------
# availability flags
# ---------------------------------------------------------------------------------------------
NAME_FLAGS = {"ML_KEM_AVAILABLE": "mlKem", "ML_DSA_AVAILABLE": "mlDsa", "ecdsaAllCurves": "ecdsaAllCurves"}
IMPL_FLAGS = {"brotli_compress": "brotliCompress", "zstd_compress": "zstdCompress",
              "brotli_decompress": "brotliDecompress", "zstd_decompress": "zstdDecompress"}
ATTR_FLAGS = {"cryptomath.m2cryptoLoaded": "m2crypto", "cryptomath.pycryptoLoaded": "pycrypto",
              "cipherfactory.tripleDESPresent": "tripleDES"}
ENV_FIELDS = ["m2crypto", "pycrypto", "tripleDES", "mlKem", "mlDsa", "ecdsaAllCurves",
              "brotliCompress", "zstdCompress", "brotliDecompress", "zstdDecompress"]

# field of HandshakeSettings -> how the Lean structure `Settings` represents it
FIELD_KINDS = {
    "minKeySize": "int", "maxKeySize": "int", "rsaSigHashes": "strlist", "rsaSchemes": "strlist",
    "dsaSigHashes": "strlist", "virtual_hosts": "emptylist", "eccCurves": "strlist",
    "dhParams": "dhparams", "dhGroups": "strlist", "defaultCurve": "str", "keyShares": "strlist",
    "padding_cb": "isset", "use_heartbeat_extension": "flag", "heartbeat_response_callback": "isset",
    "certificateTypes": "strlist", "useExperimentalTackExtension": "bool", "sendFallbackSCSV": "bool",
    "useEncryptThenMAC": "flag", "ecdsaSigHashes": "strlist", "more_sig_schemes": "strlist",
    "usePaddingExtension": "flag", "useExtendedMasterSecret": "flag",
    "requireExtendedMasterSecret": "flag", "pskConfigs": "emptylist", "psk_modes": "strlist",
    "ticketKeys": "emptylist", "ticketCipher": "str", "ticketLifetime": "int", "max_early_data": "int",
    "ticket_count": "int", "record_size_limit": "optint", "ec_point_formats": "natlist",
    "certificate_compression_send": "strlist", "certificate_compression_receive": "strlist",
    "dc_sig_algs": "dcalgs", "dc_valid_time": "int", "minVersion": "ver", "maxVersion": "ver",
    "versions": "pairlist", "cipherNames": "strlist", "macNames": "strlist",
    "keyExchangeNames": "strlist", "cipherImplementations": "strlist",
}
# order of the Lean structure (must match SettingsBase.lean)
FIELD_ORDER = [
    "minKeySize", "maxKeySize", "rsaSigHashes", "rsaSchemes", "dsaSigHashes", "virtual_hosts",
    "eccCurves", "dhParams", "dhGroups", "defaultCurve", "keyShares", "padding_cb",
    "use_heartbeat_extension", "heartbeat_response_callback", "certificateTypes",
    "useExperimentalTackExtension", "sendFallbackSCSV", "useEncryptThenMAC", "ecdsaSigHashes",
    "more_sig_schemes", "usePaddingExtension", "useExtendedMasterSecret",
    "requireExtendedMasterSecret", "pskConfigs", "psk_modes", "ticketKeys", "ticketCipher",
    "ticketLifetime", "max_early_data", "ticket_count", "record_size_limit", "ec_point_formats",
    "certificate_compression_send", "certificate_compression_receive", "dc_sig_algs",
    "dc_valid_time", "minVersion", "maxVersion", "versions", "cipherNames", "macNames",
    "keyExchangeNames", "cipherImplementations",
]
FALLBACK = {"int": "0", "strlist": "[]", "emptylist": "[]", "dhparams": ".none", "str": '""',
            "isset": "false", "flag": ".other", "bool": "false", "optint": "none", "natlist": "[]",
            "dcalgs": ".list []", "ver": "(0, 0)", "pairlist": "[]"}

# module constants the hand-written model refers to (all must be present and of the given kind)
REQUIRED_CONSTS = {
    "CIPHER_NAMES": "strlist", "ALL_CIPHER_NAMES": "strlist", "MAC_NAMES": "strlist",
    "ALL_MAC_NAMES": "strlist", "KEY_EXCHANGE_NAMES": "strlist", "CIPHER_IMPLEMENTATIONS": "strlist",
    "CERTIFICATE_TYPES": "strlist", "RSA_SIGNATURE_HASHES": "strlist", "DSA_SIGNATURE_HASHES": "strlist",
    "ECDSA_SIGNATURE_HASHES": "strlist", "ALL_RSA_SIGNATURE_HASHES": "strlist",
    "SIGNATURE_SCHEMES": "strlist", "RSA_SCHEMES": "strlist", "CURVE_NAMES": "strlist",
    "ALL_CURVE_NAMES": "strlist", "ALL_DH_GROUP_NAMES": "strlist", "TLS13_PERMITTED_GROUPS": "strlist",
    "KNOWN_VERSIONS": "pairlist", "TICKET_CIPHERS": "strlist", "PSK_MODES": "strlist",
    "EC_POINT_FORMATS": "natlist", "ALL_COMPRESSION_ALGOS_SEND": "strlist",
    "ALL_COMPRESSION_ALGOS_RECEIVE": "strlist", "DELEGETED_CREDENTIAL_FORBIDDEN_ALG": "pairlist",
    "DC_VALID_TIME": "int",
}


class Unsupported(Exception):
    pass


# ---------------------------------------------------------------------------------------------
# symbolic values: ("lit", value) | ("cat", a, b) | ("ite", flag, a, b)
# ---------------------------------------------------------------------------------------------
def sym_eval(s, env):
    if s[0] == "lit":
        return s[1]
    if s[0] == "cat":
        a, b = sym_eval(s[1], env), sym_eval(s[2], env)
        return list(a) + list(b)
    if s[0] == "ite":
        return sym_eval(s[2] if env[s[1]] else s[3], env)
    raise Unsupported(s[0])


def norm(v):
    """canonical python value: tuples -> lists, recursively"""
    if isinstance(v, (list, tuple)):
        return [norm(x) for x in v]
    return v


def lit_kind(v):
    if isinstance(v, bool) or v is None:
        return None
    if isinstance(v, int):
        return "int"
    if isinstance(v, str):
        return "str"
    if isinstance(v, (list, tuple)):
        if all(isinstance(x, str) for x in v):
            return "strlist"
        if all(isinstance(x, int) and not isinstance(x, bool) for x in v):
            return "natlist"
        if all(isinstance(x, (list, tuple)) and len(x) == 2 and
               all(isinstance(y, int) and not isinstance(y, bool) for y in x) for x in v):
            return "pairlist"
    return None


def render_lit(v, kind):
    if kind == "strlist":
        if not (isinstance(v, (list, tuple)) and all(isinstance(x, str) for x in v)):
            raise Unsupported("strlist")
        return "[" + ", ".join(lean_str(x) for x in v) + "]"
    if kind == "natlist":
        if not (isinstance(v, (list, tuple)) and all(isinstance(x, int) and not isinstance(x, bool) and x >= 0 for x in v)):
            raise Unsupported("natlist")
        return "[" + ", ".join(str(x) for x in v) + "]"
    if kind == "pairlist":
        if not (isinstance(v, (list, tuple)) and all(isinstance(x, (list, tuple)) and len(x) == 2 and
                all(isinstance(y, int) and not isinstance(y, bool) and y >= 0 for y in x) for x in v)):
            raise Unsupported("pairlist")
        return "[" + ", ".join("(%d, %d)" % (x[0], x[1]) for x in v) + "]"
    if kind == "int":
        if isinstance(v, bool) or not isinstance(v, int):
            raise Unsupported("int")
        return "(%d : Int)" % v if v >= 0 else "(-%d : Int)" % (-v)
    if kind == "str":
        if not isinstance(v, str):
            raise Unsupported("str")
        return lean_str(v)
    if kind == "flag":
        if v is True:
            return "Flag.t"
        if v is False:
            return "Flag.f"
        raise Unsupported("flag")
    if kind == "bool":
        if v is True:
            return "true"
        if v is False:
            return "false"
        raise Unsupported("bool")
    if kind == "isset":
        return "false" if v is None else "true"
    if kind == "optint":
        if v is None:
            return "none"
        if isinstance(v, bool) or not isinstance(v, int):
            raise Unsupported("optint")
        return "some (%d : Int)" % v
    if kind == "ver":
        if not (isinstance(v, (list, tuple)) and len(v) == 2 and all(isinstance(y, int) and y >= 0 for y in v)):
            raise Unsupported("ver")
        return "(%d, %d)" % (v[0], v[1])
    if kind == "dhparams":
        if v is None:
            return "DhParams.none"
        raise Unsupported("dhparams")
    if kind == "emptylist":
        if isinstance(v, (list, tuple)) and len(v) == 0:
            return "[]"
        raise Unsupported("emptylist")
    if kind == "dcalgs":
        if isinstance(v, (list, tuple)) and len(v) == 0:
            return "DcAlgs.list []"
        raise Unsupported("dcalgs")
    raise Unsupported(kind)


def sym_render(s, kind):
    if s[0] == "lit":
        return render_lit(s[1], kind)
    if s[0] == "cat":
        if kind not in ("strlist", "natlist", "pairlist"):
            raise Unsupported("cat of " + kind)
        return "(" + sym_render(s[1], kind) + " ++ " + sym_render(s[2], kind) + ")"
    if s[0] == "ite":
        return "(if e.%s then %s else %s)" % (s[1], sym_render(s[2], kind), sym_render(s[3], kind))
    raise Unsupported(s[0])


def flag_of_test(node):
    """availability flag tested by an `if`, with polarity; None if it is not one"""
    pol = True
    if isinstance(node, ast.UnaryOp) and isinstance(node.op, ast.Not):
        node = node.operand
        pol = False
    if isinstance(node, ast.Name) and node.id in NAME_FLAGS:
        return NAME_FLAGS[node.id], pol
    if isinstance(node, ast.Subscript) and isinstance(node.value, ast.Name) and \
            node.value.id == "compression_algo_impls" and isinstance(node.slice, ast.Constant) and \
            node.slice.value in IMPL_FLAGS:
        return IMPL_FLAGS[node.slice.value], pol
    if isinstance(node, ast.Attribute) and isinstance(node.value, ast.Name) and \
            (node.value.id + "." + node.attr) in ATTR_FLAGS:
        return ATTR_FLAGS[node.value.id + "." + node.attr], pol
    return None


class ConstEval(object):
    """symbolic execution of straight-line assignments to names (module level) or to `self.x`"""

    def __init__(self, class_consts, names=None):
        self.class_consts = class_consts        # "ECPointFormat.uncompressed" -> value
        self.names = dict(names or {})          # name -> sym | ("bad", why)
        self.problems = []

    def expr(self, node):
        if isinstance(node, ast.Constant):
            return ("lit", node.value)
        if isinstance(node, (ast.List, ast.Tuple)):
            vals = []
            for e in node.elts:
                s = self.expr(e)
                if s[0] != "lit":
                    raise Unsupported("non-literal list element")
                vals.append(s[1])
            return ("lit", vals if isinstance(node, ast.List) else tuple(vals))
        if isinstance(node, ast.Name):
            if node.id in self.names:
                s = self.names[node.id]
                if s[0] == "bad":
                    raise Unsupported("reference to unsupported name " + node.id)
                return s
            raise Unsupported("unknown name " + node.id)
        if isinstance(node, ast.Attribute) and isinstance(node.value, ast.Name):
            k = node.value.id + "." + node.attr
            if k in self.class_consts:
                return ("lit", self.class_consts[k])
            raise Unsupported("unknown attribute " + k)
        if isinstance(node, ast.UnaryOp) and isinstance(node.op, ast.USub):
            s = self.expr(node.operand)
            if s[0] == "lit" and isinstance(s[1], int):
                return ("lit", -s[1])
            raise Unsupported("unary minus")
        if isinstance(node, ast.BinOp):
            a, b = self.expr(node.left), self.expr(node.right)
            if a[0] == "lit" and b[0] == "lit" and isinstance(a[1], int) and isinstance(b[1], int) \
                    and not isinstance(a[1], bool) and not isinstance(b[1], bool):
                if isinstance(node.op, ast.Add):
                    return ("lit", a[1] + b[1])
                if isinstance(node.op, ast.Sub):
                    return ("lit", a[1] - b[1])
                if isinstance(node.op, ast.Mult):
                    return ("lit", a[1] * b[1])
                if isinstance(node.op, ast.Pow) and 0 <= b[1] <= 128:
                    return ("lit", a[1] ** b[1])
                raise Unsupported("int operator")
            if isinstance(node.op, ast.Add):
                return ("cat", a, b)
            raise Unsupported("binary operator")
        if isinstance(node, ast.Call) and isinstance(node.func, ast.Name) and node.func.id in ("list", "tuple") \
                and len(node.args) == 1 and not node.keywords:
            return self.expr(node.args[0])
        raise Unsupported(type(node).__name__)

    def target_name(self, node, selfname):
        if selfname is None and isinstance(node, ast.Name):
            return node.id
        if selfname is not None and isinstance(node, ast.Attribute) and isinstance(node.value, ast.Name) \
                and node.value.id == selfname:
            return node.attr
        return None

    def run(self, stmts, selfname=None, call=None):
        for st in stmts:
            self.stmt(st, selfname, call)

    def set(self, name, fn):
        try:
            self.names[name] = fn()
        except Unsupported as e:
            self.names[name] = ("bad", str(e))

    def stmt(self, st, selfname, call):
        if isinstance(st, (ast.Import, ast.ImportFrom, ast.Pass, ast.ClassDef, ast.FunctionDef)):
            return
        if isinstance(st, ast.Expr):
            v = st.value
            if isinstance(v, ast.Constant):
                return
            if isinstance(v, ast.Call) and isinstance(v.func, ast.Attribute):
                tgt = self.target_name(v.func.value, selfname)
                if tgt is not None and v.func.attr == "append" and len(v.args) == 1:
                    old = self.names.get(tgt, ("bad", "append to undefined"))
                    self.set(tgt, lambda: ("cat", self._ok(old), ("lit", [self._lit(v.args[0])])))
                    return
                # self._init_xxx()
                if selfname is not None and isinstance(v.func.value, ast.Name) and v.func.value.id == selfname \
                        and call is not None and not v.args and not v.keywords:
                    call(v.func.attr)
                    return
            self.problems.append("unclassified expression statement at line %d" % st.lineno)
            return
        if isinstance(st, ast.Assign):
            for t in st.targets:
                name = self.target_name(t, selfname)
                if name is None:
                    self.problems.append("unclassified assignment target at line %d" % st.lineno)
                    continue
                self.set(name, lambda: self.expr(st.value))
            return
        if isinstance(st, ast.AugAssign) and isinstance(st.op, ast.Add):
            name = self.target_name(st.target, selfname)
            if name is None:
                self.problems.append("unclassified augmented assignment at line %d" % st.lineno)
                return
            old = self.names.get(name, ("bad", "+= on undefined"))
            self.set(name, lambda: ("cat", self._ok(old), self.expr(st.value)))
            return
        if isinstance(st, ast.If):
            fl = flag_of_test(st.test)
            before = dict(self.names)
            self.run(st.body, selfname, call)
            after_then = self.names
            self.names = dict(before)
            self.run(st.orelse, selfname, call)
            after_else = self.names
            merged = {}
            for k in set(after_then) | set(after_else):
                a, b = after_then.get(k), after_else.get(k)
                if a == b:
                    merged[k] = a
                elif fl is None:
                    merged[k] = ("bad", "assigned under a condition that is not an availability flag (line %d)" % st.lineno)
                elif a is None or b is None or a[0] == "bad" or b[0] == "bad":
                    merged[k] = ("bad", "defined on one branch only (line %d)" % st.lineno)
                else:
                    merged[k] = ("ite", fl[0], a, b) if fl[1] else ("ite", fl[0], b, a)
            self.names = merged
            return
        self.problems.append("unclassified statement %s at line %d" % (type(st).__name__, st.lineno))

    def _ok(self, s):
        if s[0] == "bad":
            raise Unsupported(s[1])
        return s

    def _lit(self, node):
        s = self.expr(node)
        if s[0] != "lit":
            raise Unsupported("non literal")
        return s[1]


# ---------------------------------------------------------------------------------------------
# (b) alias structure of validate()
# ---------------------------------------------------------------------------------------------
MUTATORS = {"append", "extend", "insert", "remove", "pop", "clear", "sort", "reverse", "update", "add",
            "discard", "setdefault", "popitem", "__setitem__", "__delitem__", "__iadd__", "__imul__",
            "difference_update", "intersection_update", "symmetric_difference_update"}
READERS = {"count", "index", "copy", "get", "keys", "values", "items", "startswith", "endswith", "format",
           "lower", "upper", "join", "split", "strip", "__len__", "__contains__", "__getitem__", "encode",
           "decode", "isdisjoint", "issubset", "issuperset"}
PURE_BUILTINS = {"len", "set", "any", "all", "isinstance", "sorted", "tuple", "frozenset", "str", "int",
                 "bool", "min", "max", "sum", "repr", "enumerate", "zip", "range", "iter", "next", "list",
                 "dict", "type", "bytes", "bytearray", "hasattr", "getattr", "callable", "id", "hash",
                 "reversed", "filter", "map", "abs", "format", "issubclass"}
PURE_GLOBAL_CALLS = {"ECPointFormat.toStr"}
SETTINGS_CLASS = "HandshakeSettings"


def readonly_function(fdef, depth=0):
    """True iff the function body cannot modify anything: no assignment to attributes/subscripts, no
    deletion, only calls to exception constructors, pure builtins, `.validate()` / reader methods."""
    for node in ast.walk(fdef):
        if isinstance(node, (ast.AugAssign, ast.Delete, ast.With, ast.Global, ast.Nonlocal, ast.Lambda,
                             ast.Yield, ast.YieldFrom, ast.Await, ast.NamedExpr)):
            return False
        if isinstance(node, ast.Assign):
            for t in node.targets:
                if not isinstance(t, ast.Name):
                    return False
        if isinstance(node, ast.Call):
            f = node.func
            if isinstance(f, ast.Name):
                if f.id in PURE_BUILTINS or f.id.endswith("Error") or f.id.endswith("Exception"):
                    continue
                return False
            if isinstance(f, ast.Attribute):
                if f.attr in READERS or f.attr == "validate":
                    continue
                return False
            return False
    return True


class AliasInterp(object):
    def __init__(self, module, immutable_fields, init_fields):
        self.module = module
        self.immutable = immutable_fields
        self.init_fields = init_fields
        self.ops = []                 # [guards(list of (cid, pol)), act(tuple)]
        self.conds = []               # description per condition id (None = released)
        self.guards = []
        self.k = 0
        self.depth = 0
        self.have_other = False
        self.classes = {}
        for st in module.body:
            if isinstance(st, ast.ClassDef):
                ms = {}
                for b in st.body:
                    if isinstance(b, ast.FunctionDef):
                        static = any(isinstance(d, ast.Name) and d.id == "staticmethod" for d in b.decorator_list)
                        other_dec = [d for d in b.decorator_list if not (isinstance(d, ast.Name) and d.id == "staticmethod")]
                        ms[b.name] = (b, static, bool(other_dec))
                self.classes[st.name] = ms
        self.methods = self.classes.get(SETTINGS_CLASS, {})
        self.frames = []

    # ---- emission
    def emit(self, *act):
        self.ops.append([list(self.guards), tuple(act)])

    def unknown(self, what, node=None):
        ln = getattr(node, "lineno", None)
        self.emit("unknown", what + (" (line %d)" % ln if ln else ""))

    def fresh_k(self):
        self.k += 1
        return self.k - 1

    def rebound(self, owner, field):
        """attribute owner.field now refers to another object: locals naming the old one go stale"""
        for fr in self.frames:
            for n, v in list(fr.items()):
                if v == ("obj", owner, field):
                    fr[n] = ("unk",)

    # ---- expressions
    def ev(self, node, env):
        m = getattr(self, "ev_" + type(node).__name__, None)
        if m is None:
            for ch in ast.iter_child_nodes(node):
                if isinstance(ch, ast.expr):
                    self.ev(ch, env)
            return ("unk",)
        return m(node, env)

    def ev_Constant(self, node, env):
        return ("fresh",)

    def ev_Name(self, node, env):
        if node.id in env:
            return env[node.id]
        return ("global", node.id)

    def ev_Attribute(self, node, env):
        b = self.ev(node.value, env)
        if b[0] == "settings":
            if node.attr in self.methods:
                return ("func", node.attr, b)
            return ("obj", b[1], node.attr)
        if b[0] == "global":
            if b[1] == SETTINGS_CLASS and node.attr in self.methods:
                return ("func", node.attr, None)
            return ("global", b[1] + "." + node.attr)
        if b[0] in ("obj", "elem", "unk"):
            return ("elem", b)
        return ("fresh",)

    def ev_Subscript(self, node, env):
        b = self.ev(node.value, env)
        if isinstance(node.slice, ast.Slice):
            for x in (node.slice.lower, node.slice.upper, node.slice.step):
                if x is not None:
                    self.ev(x, env)
            return ("copyof", b)
        self.ev(node.slice, env)
        if b[0] in ("obj", "elem", "unk", "copyof"):
            return ("elem", b)
        if b[0] == "global":
            return ("global", b[1] + "[]")
        return ("fresh",)

    def _comp(self, node, env, elts):
        env2 = dict(env)
        self.frames.append(env2)
        try:
            for g in node.generators:
                it = self.ev(g.iter, env2)
                self.bind_target(g.target, ("elem", it) if it[0] in ("obj", "elem", "unk", "copyof") else ("fresh",), env2)
                for c in g.ifs:
                    self.ev(c, env2)
            for e in elts:
                self.ev(e, env2)
        finally:
            self.frames.pop()
        return ("fresh",)

    def ev_ListComp(self, node, env):
        return self._comp(node, env, [node.elt])

    def ev_SetComp(self, node, env):
        return self._comp(node, env, [node.elt])

    def ev_GeneratorExp(self, node, env):
        return self._comp(node, env, [node.elt])

    def ev_DictComp(self, node, env):
        return self._comp(node, env, [node.key, node.value])

    def _children_fresh(self, node, env):
        for ch in ast.iter_child_nodes(node):
            if isinstance(ch, ast.expr):
                self.ev(ch, env)
        return ("fresh",)

    ev_List = ev_Tuple = ev_Set = ev_Dict = ev_BinOp = ev_Compare = ev_UnaryOp = ev_JoinedStr = \
        ev_FormattedValue = _children_fresh

    def ev_BoolOp(self, node, env):
        vals = [self.ev(v, env) for v in node.values]
        if all(v[0] in ("fresh", "global") for v in vals):
            return ("fresh",)
        return ("unk",)

    def ev_IfExp(self, node, env):
        self.ev(node.test, env)
        a, b = self.ev(node.body, env), self.ev(node.orelse, env)
        return a if a == b else ("unk",)

    def ev_Starred(self, node, env):
        self.ev(node.value, env)
        return ("unk",)

    def ev_Call(self, node, env):
        f = node.func
        args = [self.ev(a, env) for a in node.args]
        kws = {k.arg: self.ev(k.value, env) for k in node.keywords}
        allargs = args + list(kws.values())
        if isinstance(f, ast.Name) and f.id not in env:
            if f.id == SETTINGS_CLASS:
                if allargs:
                    self.unknown("HandshakeSettings(...) with arguments", node)
                return ("newsettings",)
            if f.id == "list" and len(args) == 1 and not kws:
                return ("copyof", args[0])
            if f.id in PURE_BUILTINS or f.id.endswith("Error") or f.id.endswith("Exception"):
                return ("fresh",)
            if any(a[0] in ("obj", "elem", "unk", "settings", "copyof") for a in allargs):
                self.unknown("call of %s with a settings-reachable argument" % f.id, node)
            return ("unk",)
        fv = self.ev(f, env) if not isinstance(f, ast.Attribute) else None
        if isinstance(f, ast.Attribute):
            base = self.ev(f.value, env)
            meth = f.attr
            if base[0] == "settings":
                if meth in self.methods:
                    return self.inline(meth, base, args, kws, node)
                self.unknown("call of unknown method %s on a settings object" % meth, node)
                return ("unk",)
            if base[0] == "global":
                dotted = base[1] + "." + meth
                if base[1] == SETTINGS_CLASS and meth in self.methods:
                    return self.inline(meth, None, args, kws, node)
                if dotted in PURE_GLOBAL_CALLS:
                    return ("fresh",)
                if any(a[0] in ("obj", "elem", "unk", "settings", "copyof") for a in allargs):
                    self.unknown("call of %s with a settings-reachable argument" % dotted, node)
                return ("unk",)
            if base[0] in ("fresh", "copyof", "newsettings"):
                return ("fresh",)
            if base[0] == "obj":
                if meth in MUTATORS:
                    self.emit("mutate", base[1], base[2], self.fresh_k())
                    return ("fresh",)
                if meth in READERS:
                    return ("copyof", base) if meth == "copy" else ("fresh",)
                self.unknown("call of method %s on %s.%s" % (meth, base[1], base[2]), node)
                return ("unk",)
            if base[0] == "elem":
                if meth in READERS:
                    return ("fresh",)
                if meth == "validate":
                    bad = [c for c, ms in self.classes.items() if c != SETTINGS_CLASS and "validate" in ms
                           and not readonly_function(ms["validate"][0])]
                    if bad:
                        self.unknown("%s.validate() is not read-only" % ",".join(sorted(bad)), node)
                    return ("fresh",)
                self.unknown("call of method %s on an element of a settings attribute" % meth, node)
                return ("unk",)
            if base[0] == "func":
                self.unknown("call of attribute of a function", node)
                return ("unk",)
            # unk
            if meth in READERS:
                return ("fresh",)
            self.unknown("call of method %s on an unclassified object" % meth, node)
            return ("unk",)
        if fv[0] == "func":
            return self.inline(fv[1], fv[2], args, kws, node)
        self.unknown("call through an unclassified callee", node)
        return ("unk",)

    # ---- helper inlining
    def inline(self, name, bound, args, kws, node):
        fdef, static, other_dec = self.methods[name]
        if other_dec:
            self.unknown("decorated helper %s" % name, node)
            return ("unk",)
        if self.depth > 10:
            self.unknown("helper recursion at %s" % name, node)
            return ("unk",)
        params = [a.arg for a in fdef.args.args]
        env = {}
        vals = list(args)
        if not static:
            if bound is None:
                # HandshakeSettings.method(obj, ...): first positional is the instance
                pass
            else:
                vals = [bound] + vals
        if fdef.args.vararg or fdef.args.kwarg or fdef.args.kwonlyargs or len(vals) > len(params):
            self.unknown("helper %s: unsupported signature" % name, node)
            return ("unk",)
        for p, v in zip(params, vals):
            env[p] = self.normal(v)
        for p in params[len(vals):]:
            env[p] = self.normal(kws[p]) if p in kws else ("fresh",)
        self.depth += 1
        self.frames.append(env)
        try:
            ret = self.block(fdef.body, env, toplevel=True)
        finally:
            self.frames.pop()
            self.depth -= 1
        return ret if ret is not None else ("fresh",)

    def normal(self, v):
        """value as stored in a local variable"""
        if v[0] == "copyof":
            return ("fresh",)
        return v

    # ---- statements
    def bind_target(self, t, v, env):
        if isinstance(t, ast.Name):
            env[t.id] = self.normal(v)
        elif isinstance(t, (ast.Tuple, ast.List)):
            for e in t.elts:
                self.bind_target(e, ("unk",) if v[0] != "fresh" else v, env)
        else:
            self.assign_target(t, v, env)

    def assign_target(self, t, v, env):
        if isinstance(t, ast.Name):
            if v[0] == "newsettings":
                if self.have_other:
                    self.unknown("second HandshakeSettings() object", t)
                    env[t.id] = ("unk",)
                    return
                self.have_other = True
                self.emit("initOther", tuple(self.init_fields))
                env[t.id] = ("settings", "other")
                return
            env[t.id] = self.normal(v)
            return
        if isinstance(t, (ast.Tuple, ast.List)):
            for e in t.elts:
                self.assign_target(e, ("unk",) if v[0] != "fresh" else v, env)
            return
        if isinstance(t, ast.Attribute):
            b = self.ev(t.value, env)
            if b == ("settings", "self"):
                self.emit("rebindSelf", t.attr)
                self.rebound("self", t.attr)
                return
            if b == ("settings", "other"):
                f = t.attr
                if v[0] == "obj":
                    self.emit("alias", f, v[1], v[2])
                elif v[0] == "copyof" and v[1][0] == "obj":
                    self.emit("copy", f, v[1][1], v[1][2])
                elif v[0] in ("fresh", "copyof", "global", "func"):
                    self.emit("fresh", f, self.fresh_k())
                else:
                    self.unknown("other.%s bound to an unclassified value (%s)" % (f, v[0]), t)
                self.rebound("other", f)
                return
            self.unknown("assignment to an attribute of a non-settings object", t)
            return
        if isinstance(t, ast.Subscript):
            b = self.ev(t.value, env)
            self.ev(t.slice, env) if not isinstance(t.slice, ast.Slice) else None
            if b[0] == "obj":
                self.emit("mutate", b[1], b[2], self.fresh_k())
            elif b[0] in ("fresh", "copyof"):
                pass
            else:
                self.unknown("item/slice assignment on an unclassified object", t)
            return
        self.unknown("unclassified assignment target", t)

    def only_raises(self, start):
        return all(op[1][0] == "mayRaise" for op in self.ops[start:])

    def branch(self, bodies, desc, env, node):
        """bodies: list of (statements, polarity) executed under one new condition"""
        cid = len(self.conds)
        self.conds.append(desc)
        start = len(self.ops)
        envs = []
        for stmts, pol in bodies:
            e2 = dict(env)
            self.frames.append(e2)
            self.guards.append((cid, pol))
            try:
                self.block(stmts, e2)
            finally:
                self.guards.pop()
                self.frames.pop()
            envs.append(e2)
        if self.only_raises(start):
            # nothing but raise sites: no need to distinguish the paths
            for op in self.ops[start:]:
                op[0] = [g for g in op[0] if g[0] != cid]
            self.conds[cid] = None
        # merge local bindings
        keys = set()
        for e2 in envs:
            keys |= set(e2)
        for k in keys:
            vs = [e2.get(k) for e2 in envs]
            if all(v == vs[0] for v in vs) and vs[0] is not None:
                env[k] = vs[0]
            else:
                env[k] = ("unk",)

    def block(self, stmts, env, toplevel=False):
        ret = None
        for i, st in enumerate(stmts):
            last = (i == len(stmts) - 1)
            if isinstance(st, ast.Return):
                v = self.ev(st.value, env) if st.value is not None else ("fresh",)
                if not (toplevel and last):
                    self.unknown("return that is not the last statement of its function", st)
                ret = self.normal(v) if v[0] != "copyof" else ("fresh",)
                break
            if isinstance(st, ast.Raise):
                if st.exc is not None:
                    self.ev(st.exc, env)
                self.emit("mayRaise", self.fresh_k())
                break
            self.stmt(st, env)
        return ret

    def stmt(self, st, env):
        if isinstance(st, (ast.Pass, ast.Import, ast.ImportFrom)):
            return
        if isinstance(st, ast.Expr):
            self.ev(st.value, env)
            return
        if isinstance(st, ast.Assert):
            self.ev(st.test, env)
            self.emit("mayRaise", self.fresh_k())
            return
        if isinstance(st, ast.Assign):
            v = self.ev(st.value, env)
            for t in st.targets:
                self.assign_target(t, v, env)
            return
        if isinstance(st, ast.AnnAssign):
            if st.value is not None:
                self.assign_target(st.target, self.ev(st.value, env), env)
            return
        if isinstance(st, ast.AugAssign):
            self.ev(st.value, env)
            t = st.target
            if isinstance(t, ast.Name):
                v = env.get(t.id, ("global", t.id))
                if v[0] == "obj":
                    if v[2] in self.immutable:
                        env[t.id] = ("fresh",)
                    else:
                        self.emit("mutate", v[1], v[2], self.fresh_k())
                elif v[0] in ("fresh",):
                    pass
                else:
                    self.unknown("augmented assignment to an unclassified local", st)
                return
            if isinstance(t, ast.Attribute):
                b = self.ev(t.value, env)
                if b == ("settings", "self"):
                    self.emit("rebindSelf", t.attr)
                    return
                if b == ("settings", "other"):
                    if t.attr in self.immutable:
                        self.emit("fresh", t.attr, self.fresh_k())
                        self.rebound("other", t.attr)
                    else:
                        self.emit("mutate", "other", t.attr, self.fresh_k())
                    return
                self.unknown("augmented assignment to an attribute of a non-settings object", st)
                return
            if isinstance(t, ast.Subscript):
                b = self.ev(t.value, env)
                if b[0] == "obj":
                    self.emit("mutate", b[1], b[2], self.fresh_k())
                elif b[0] not in ("fresh", "copyof"):
                    self.unknown("augmented item assignment on an unclassified object", st)
                return
            self.unknown("unclassified augmented assignment", st)
            return
        if isinstance(st, ast.Delete):
            for t in st.targets:
                if isinstance(t, ast.Subscript):
                    b = self.ev(t.value, env)
                    if b[0] == "obj":
                        self.emit("mutate", b[1], b[2], self.fresh_k())
                    elif b[0] not in ("fresh", "copyof"):
                        self.unknown("del on an unclassified object", st)
                elif isinstance(t, ast.Name) and t.id in env:
                    del env[t.id]
                else:
                    self.unknown("del of an attribute", st)
            return
        if isinstance(st, ast.If):
            self.ev(st.test, env)
            self.branch([(st.body, True), (st.orelse, False)], ast.unparse(st.test), env, st)
            return
        if isinstance(st, (ast.For, ast.While)):
            start = len(self.ops)
            e2 = dict(env)
            self.frames.append(e2)
            try:
                if isinstance(st, ast.For):
                    it = self.ev(st.iter, e2)
                    self.bind_target(st.target, ("elem", it) if it[0] in ("obj", "elem", "unk", "copyof") else ("fresh",), e2)
                else:
                    self.ev(st.test, e2)
                self.block(st.body, e2)
                self.block(st.orelse, e2)
            finally:
                self.frames.pop()
            if not self.only_raises(start):
                del self.ops[start:]
                self.unknown("object-store effect inside a loop", st)
            for k in set(e2):
                if env.get(k) != e2[k]:
                    env[k] = ("unk",)
            return
        if isinstance(st, ast.Try):
            self.block(st.body, env)
            for h in st.handlers:
                if h.type is not None:
                    self.ev(h.type, env)
                e2env = env
                if h.name:
                    e2env[h.name] = ("fresh",)
                self.branch([(h.body, True)], "except at line %d" % h.lineno, env, h)
            self.block(st.orelse, env)
            self.block(st.finalbody, env)
            return
        self.unknown("unclassified statement " + type(st).__name__, st)

    def run_validate(self):
        if "validate" not in self.methods:
            self.unknown("HandshakeSettings.validate not found")
            return
        fdef, static, other_dec = self.methods["validate"]
        if static or other_dec or [a.arg for a in fdef.args.args] != ["self"]:
            self.unknown("validate has an unexpected signature")
            return
        env = {"self": ("settings", "self")}
        self.frames.append(env)
        ret = self.block(fdef.body, env, toplevel=True)
        self.frames.pop()
        if ret != ("settings", "other"):
            self.unknown("validate() does not return the object created by HandshakeSettings()")
        # compact the condition ids
        remap = {}
        descs = []
        for i, d in enumerate(self.conds):
            if d is not None and any(g[0] == i for op in self.ops for g in op[0]):
                remap[i] = len(descs)
                descs.append(d)
        for op in self.ops:
            op[0] = [(remap[c], p) for c, p in op[0] if c in remap]
        self.conds = descs
        if len(descs) > 10:
            self.ops.insert(0, [[], ("unknown", "more than 10 effectful branch conditions: %d" % len(descs))])


def render_act(act):
    k = act[0]
    if k == "initOther":
        return ".initOther [" + ", ".join(lean_str(f) for f in act[1]) + "]"
    if k in ("alias", "copy"):
        return ".%s %s .%s %s" % (k, lean_str(act[1]), act[2], lean_str(act[3]))
    if k == "fresh":
        return ".fresh %s %d" % (lean_str(act[1]), act[2])
    if k == "mutate":
        return ".mutate .%s %s %d" % (act[1], lean_str(act[2]), act[3])
    if k == "rebindSelf":
        return ".rebindSelf %s" % lean_str(act[1])
    if k == "mayRaise":
        return ".mayRaise %d" % act[1]
    return ".unknown %s" % lean_str(act[1])


def render_ops(ops):
    lines = []
    for guards, act in ops:
        g = "[" + ", ".join("(%d, %s)" % (c, "true" if p else "false") for c, p in guards) + "]"
        lines.append("  ⟨%s, %s⟩" % (g, render_act(act)))
    return "[\n" + ",\n".join(lines) + "\n]"



# ---------------------------------------------------------------------------------------------
# (c) in-place changes of settings lists by the code that USES a validated copy
# ---------------------------------------------------------------------------------------------
# validate() hands out a copy whose list attributes are mostly the receiver's own list objects.  Any
# `settings.<field>.remove(...)`, `.append`, `.sort`, `del settings.<field>[i]`, `settings.<field>[:] = ...`,
# `settings.<field> += ...` in the rest of the library (also through a local alias `x = settings.<field>`)
# therefore changes the caller's object.  A settings list stored by reference into another object cannot
# be followed and is reported as a problem (which fails the obligation).
USE_MUTATORS = {"append","extend","insert","remove","pop","clear","sort","reverse","update","add","discard","setdefault","popitem"}
def _settingsish(node, sobj):
    if isinstance(node, ast.Name):
        return "settings" in node.id.lower() or node.id in sobj
    if isinstance(node, ast.Attribute):
        return "settings" in node.attr.lower()
    return False
def scan_use(repo, fields):
    mutated, problems, reads = [], [], 0
    root = os.path.join(repo, "tlslite")
    for dp, dn, fn in os.walk(root):
        for f in sorted(fn):
            if not f.endswith(".py") or f == "handshakesettings.py": continue
            path = os.path.join(dp, f); rel = os.path.relpath(path, repo)
            tree = ast.parse(open(path).read())
            scopes = [n for n in ast.walk(tree) if isinstance(n, (ast.FunctionDef, ast.AsyncFunctionDef))] + [tree]
            for sc in scopes:
                body_nodes = list(ast.walk(sc)) if sc is not tree else [n for n in ast.iter_child_nodes(tree)]
                sobj, alias = set(), {}
                def field_ref(node):
                    if isinstance(node, ast.Attribute) and node.attr in fields and _settingsish(node.value, sobj):
                        return node.attr
                    if isinstance(node, ast.Name) and node.id in alias:
                        return alias[node.id]
                    return None
                # two passes so that aliases defined later in loops are known
                for _ in range(2):
                    for n in body_nodes:
                        if isinstance(n, ast.Assign):
                            fr = field_ref(n.value)
                            for t in n.targets:
                                if isinstance(t, ast.Name):
                                    if fr: alias[t.id] = fr
                                    elif _settingsish(n.value, sobj) and not isinstance(n.value, ast.Call): sobj.add(t.id)
                for n in body_nodes:
                    if isinstance(n, ast.Assign):
                        fr = field_ref(n.value)
                        for t in n.targets:
                            if fr and not isinstance(t, ast.Name):
                                if isinstance(t, ast.Attribute) and _settingsish(t.value, sobj):
                                    continue   # settings.x = settings.y on a settings object: alias inside settings (validate-like)
                                problems.append("%s:%d settings.%s stored by reference" % (rel, n.lineno, fr))
                            if isinstance(t, ast.Subscript):
                                f2 = field_ref(t.value)
                                if f2: mutated.append((f2, "%s:%d" % (rel, n.lineno)))
                    elif isinstance(n, ast.AugAssign):
                        f2 = field_ref(n.target) or (field_ref(n.target.value) if isinstance(n.target, ast.Subscript) else None)
                        if f2: mutated.append((f2, "%s:%d" % (rel, n.lineno)))
                    elif isinstance(n, ast.Delete):
                        for t in n.targets:
                            if isinstance(t, ast.Subscript):
                                f2 = field_ref(t.value)
                                if f2: mutated.append((f2, "%s:%d" % (rel, n.lineno)))
                    elif isinstance(n, ast.Call) and isinstance(n.func, ast.Attribute) and n.func.attr in USE_MUTATORS:
                        f2 = field_ref(n.func.value)
                        if f2: mutated.append((f2, "%s:%d" % (rel, n.lineno)))
    return sorted(set(mutated)), sorted(set(problems))


# ---------------------------------------------------------------------------------------------
# driver
# ---------------------------------------------------------------------------------------------
PROBE = r'''
import json, sys
import tlslite.handshakesettings as hs
from tlslite import constants as C
from tlslite.utils import cryptomath, cipherfactory, compat
from tlslite.utils.compression import compression_algo_impls as impls
def norm(v):
    if isinstance(v, (list, tuple)):
        return [norm(x) for x in v]
    if isinstance(v, (int, str, bool)) or v is None:
        return v
    return "<" + type(v).__name__ + ">"
cc = {}
for cls in ("ECPointFormat", "SignatureScheme", "CertificateType"):
    k = getattr(C, cls)
    for a in dir(k):
        if a.startswith("_"):
            continue
        v = getattr(k, a)
        if isinstance(v, int) and not isinstance(v, bool):
            cc[cls + "." + a] = v
        elif isinstance(v, tuple) and all(isinstance(x, int) for x in v):
            cc[cls + "." + a] = list(v)
consts = {n: norm(getattr(hs, n)) for n in dir(hs) if n.isupper()}
env = {"m2crypto": bool(cryptomath.m2cryptoLoaded), "pycrypto": bool(cryptomath.pycryptoLoaded),
       "tripleDES": bool(cipherfactory.tripleDESPresent), "mlKem": bool(compat.ML_KEM_AVAILABLE),
       "mlDsa": bool(compat.ML_DSA_AVAILABLE), "ecdsaAllCurves": bool(compat.ecdsaAllCurves),
       "brotliCompress": bool(impls["brotli_compress"]), "zstdCompress": bool(impls["zstd_compress"]),
       "brotliDecompress": bool(impls["brotli_decompress"]), "zstdDecompress": bool(impls["zstd_decompress"])}
defaults = {k: norm(v) for k, v in hs.HandshakeSettings().__dict__.items()}
json.dump({"class_consts": cc, "consts": consts, "env": env, "defaults": defaults}, sys.stdout)
'''


def probe(repo):
    envv = dict(os.environ)
    envv["PYTHONPATH"] = repo
    p = subprocess.run([PY, "-c", PROBE], cwd="/", env=envv, stdout=subprocess.PIPE, stderr=subprocess.PIPE,
                       universal_newlines=True, timeout=120)
    if p.returncode != 0:
        raise RuntimeError("cannot import tlslite.handshakesettings from %s: %s" % (repo, p.stderr[-800:]))
    return json.loads(p.stdout)


def camel(name):
    parts = name.lower().split("_")
    return parts[0] + "".join(x[:1].upper() + x[1:] for x in parts[1:])


def analyse(repo):
    """everything the generator derives; also used by the harness for reporting"""
    path = os.path.join(repo, "tlslite", "handshakesettings.py")
    with open(path) as f:
        src = f.read()
    module = ast.parse(src)
    info = probe(repo)
    problems = []

    # ---- (a) module-level constants
    ce = ConstEval({k: (tuple(v) if isinstance(v, list) else v) for k, v in info["class_consts"].items()})
    ce.run(module.body)
    problems += ["module level: " + p for p in ce.problems]
    consts = {}
    for name, kind in sorted(REQUIRED_CONSTS.items()):
        s = ce.names.get(name)
        if s is None or s[0] == "bad":
            problems.append("constant %s: %s" % (name, "missing" if s is None else s[1]))
            continue
        try:
            text = sym_render(s, kind)
            got = norm(sym_eval(s, info["env"]))
        except Unsupported as e:
            problems.append("constant %s: not representable as %s (%s)" % (name, kind, e))
            continue
        if got != info["consts"].get(name):
            problems.append("constant %s: symbolic value %r differs from the imported module's %r"
                            % (name, got, info["consts"].get(name)))
        consts[name] = (kind, text)

    # ---- defaults from __init__ and the helpers it calls
    cls = [st for st in module.body if isinstance(st, ast.ClassDef) and st.name == SETTINGS_CLASS]
    defaults = {}
    init_fields = []
    dproblems = []
    if not cls:
        problems.append("class HandshakeSettings not found")
    else:
        methods = {b.name: b for b in cls[0].body if isinstance(b, ast.FunctionDef)}
        # attribute values may refer to module constants: evaluate expressions with module names,
        # store results under attribute names (kept apart by a prefix)
        class InitEval(ConstEval):
            def target_name(self2, node, selfname):
                n = ConstEval.target_name(self2, node, selfname)
                return None if n is None else "self." + n
        ie = InitEval(ce.class_consts, names=ce.names)
        seen = []

        def call(mname):
            if mname in seen or mname not in methods:
                ie.problems.append("__init__ calls unknown or recursive helper " + mname)
                return
            seen.append(mname)
            f = methods[mname]
            ie.run(f.body, selfname=f.args.args[0].arg, call=call)
            seen.pop()
        if "__init__" in methods:
            seen.append("__init__")
            f = methods["__init__"]
            if len(f.args.args) != 1:
                ie.problems.append("__init__ takes arguments")
            ie.run(f.body, selfname=f.args.args[0].arg, call=call)
        else:
            ie.problems.append("no __init__")
        dproblems += ["__init__: " + p for p in ie.problems]
        attrs = {k[5:]: v for k, v in ie.names.items() if k.startswith("self.")}
        init_fields = sorted(attrs)
        for fld in sorted(set(attrs) | set(info["defaults"])):
            if fld not in attrs:
                dproblems.append("attribute %s exists on a fresh object but no assignment was found in __init__" % fld)
        for fld, kind in FIELD_KINDS.items():
            s = attrs.get(fld)
            if s is None or s[0] == "bad":
                dproblems.append("default of %s: %s" % (fld, "not set by __init__" if s is None else s[1]))
                continue
            try:
                text = sym_render(s, kind)
                got = norm(sym_eval(s, info["env"]))
            except Unsupported as e:
                dproblems.append("default of %s: not representable as %s (%s)" % (fld, kind, e))
                continue
            if got != info["defaults"].get(fld):
                dproblems.append("default of %s: symbolic value %r differs from a fresh object's %r"
                                 % (fld, got, info["defaults"].get(fld)))
            defaults[fld] = text
        unmodelled = sorted(set(attrs) - set(FIELD_KINDS))
    immutable = set()
    for fld, v in info["defaults"].items():
        if v is None or isinstance(v, (int, str, bool)):
            immutable.add(fld)
    for fld in ("minVersion", "maxVersion"):          # tuples
        if isinstance(info["defaults"].get(fld), list):
            immutable.add(fld)

    # ---- (b) alias structure
    ai = AliasInterp(module, immutable, init_fields)
    ai.run_validate()
    if not isinstance(info["class_consts"].get("ECPointFormat.uncompressed"), int):
        problems.append("ECPointFormat.uncompressed not found")
    # tuples (minVersion, maxVersion) are immutable: sharing them is harmless
    list_fields = sorted(f for f, v in info["defaults"].items() if isinstance(v, list) and
                         FIELD_KINDS.get(f, "strlist") in ("strlist", "natlist", "pairlist", "emptylist", "dcalgs"))
    try:
        use_mut, use_prob = scan_use(repo, list_fields)
    except Exception as e:      # an unparsable module: nothing is known
        use_mut, use_prob = [], ["scan failed: %s" % e]
    return {"use_mutated": use_mut, "use_problems": use_prob, "list_fields": list_fields,
            "info": info, "problems": problems, "dproblems": dproblems, "consts": consts,
            "defaults": defaults, "init_fields": init_fields,
            "unmodelled": unmodelled if cls else [], "ops": ai.ops, "conds": ai.conds}


def generate(repo):
    a = analyse(repo)
    out = []
    w = out.append
    w("/- GENERATED by translate/gen_settings.py from tlslite/handshakesettings.py — do not edit. -/")
    w("import TlsModel.SettingsBase")
    w("namespace Tls.Settings.Gen")
    w("open Tls.Settings")
    w("")
    w("/-- every module-level statement was classified and the symbolic values agree with the imported module -/")
    w("def constsOk : Bool := %s" % ("true" if not a["problems"] else "false"))
    for p in a["problems"]:
        w("-- PROBLEM: " + p.replace("\n", " "))
    w("/-- every attribute set by `__init__` is modelled and its default was classified -/")
    dok = not a["dproblems"] and not a["unmodelled"]
    w("def defaultsOk : Bool := %s" % ("true" if dok else "false"))
    for p in a["dproblems"]:
        w("-- PROBLEM: " + p.replace("\n", " "))
    w("def unmodelledFields : List String := [" + ", ".join(lean_str(x) for x in a["unmodelled"]) + "]")
    w("")
    lean_ty = {"strlist": "List String", "natlist": "List Nat", "pairlist": "List (Nat × Nat)", "int": "Int"}
    for name, kind in sorted(REQUIRED_CONSTS.items()):
        if name in a["consts"]:
            text = a["consts"][name][1]
        else:
            text = FALLBACK[kind]
        w("/-- `%s` -/" % name)
        w("def %s (%s : Env) : %s := %s" % (camel(name), "e" if "e." in text else "_e", lean_ty[kind], text))
    unc = a["info"]["class_consts"].get("ECPointFormat.uncompressed")
    w("/-- `ECPointFormat.uncompressed` (tlslite/constants.py) -/")
    if isinstance(unc, int) and unc >= 0:
        w("def ecPointUncompressed : Nat := %d" % unc)
    else:
        w("def ecPointUncompressed : Nat := 0")
        w("-- PROBLEM: ECPointFormat.uncompressed not found")
    w("")
    w("/-- attributes assigned by `HandshakeSettings.__init__` -/")
    w("def initFields : List String := [" + ", ".join(lean_str(x) for x in a["init_fields"]) + "]")
    w("")
    w("/-- the object `HandshakeSettings()` creates -/")
    w("def defaults (e : Env) : Settings where")
    for fld in FIELD_ORDER:
        w("  %s := %s" % (fld, a["defaults"].get(fld, FALLBACK[FIELD_KINDS[fld]])))
    w("")
    env = a["info"]["env"]
    w("/-- the installation this file was generated on -/")
    w("def hereEnv : Env where")
    for f in ENV_FIELDS:
        w("  %s := %s" % (f, "true" if env[f] else "false"))
    w("")
    w("/-- branch conditions that guard object-store effects inside validate() -/")
    w("def validateConds : List String := [" + ", ".join(lean_str(c) for c in a["conds"]) + "]")
    w("")
    w("/-- effects of `validate()` and its helpers on attribute bindings and list objects, in program order -/")
    w("def validateOps : List AliasOp := " + render_ops(a["ops"]))
    w("")
    w("/-- list-valued attributes of HandshakeSettings -/")
    w("def listFields : List String := [" + ", ".join(lean_str(x) for x in a["list_fields"]) + "]")
    w("/-- settings lists that some module of tlslite other than handshakesettings.py changes in place -/")
    for f, loc in a["use_mutated"]:
        w("-- %s at %s" % (f, loc))
    w("def useMutatedFields : List String := [" + ", ".join(lean_str(x) for x in sorted(set(f for f, _ in a["use_mutated"]))) + "]")
    w("/-- settings lists stored by reference where the scan cannot follow them -/")
    w("def useScanProblems : List String := [" + ", ".join(lean_str(x) for x in a["use_problems"]) + "]")
    w("")
    w("end Tls.Settings.Gen")
    return {OUT: "\n".join(out) + "\n"}


if __name__ == "__main__":
    import sys
    r = sys.argv[1] if len(sys.argv) > 1 else "/repo"
    print(generate(r)[OUT])
