"""Lock structure of the thread-safe classes -> lean/TlsModel/Gen/Locks.lean   (property C18)

Read from the AST of
    tlslite/sessioncache.py        class SessionCache
    tlslite/utils/python_rsakey.py class Python_RSAKey   (entry: _rawPrivateKeyOp)
    tlslite/basedb.py + tlslite/verifierdb.py   class VerifierDB(BaseDB)

For every method: the flattened list of statements (compound statements contribute their header
expression and then their bodies, in source order); for each statement
    line, role (plain | acquire L | release L | unknown), the lock section it is nested in,
    the `self.*` accesses with their mode (refRead refWrite contentRead contentWrite unknown),
    the methods of the same object it calls (resolved through the class and its bases here).
`time.time()` is an access to pseudo field 0 ("@clock").  A local bound directly to the result of a
method of a field (`x = self.F.m(...)`, e.g. a dict view from `.keys()`) is treated as an alias of the
field's content: every later use of `x` is a content read of F (a copy such as `list(self.F.m())` is not).

The translator decides nothing about correctness: which fields are shared, whether an access is
covered, the shape of each method are all computed in Lean (TlsModel/Locks.lean) and checked by
`decide` in Props/C18.lean.  Whatever is not recognised becomes `unknown`, which makes the
obligation false:  lock sections other than
      self.L.acquire()                     with self.L:
      try: ...                                 ...
      finally: self.L.release()
(not inside a loop, not nested), bare `self` escaping, getattr/setattr/hasattr/vars on self,
dunder attributes of self, nested functions / lambdas / generators that mention self, a call of a
`self.` attribute that is not a method of the class, unresolvable classes or methods.
"""
import ast
import os

from . import lean_str

CLOCK = "@clock"

# class name -> (file, [base (file, class)], setup methods, extra entry methods)
TARGETS = [
    {"var": "sessionCache", "cls": "SessionCache", "file": "tlslite/sessioncache.py", "bases": [],
     "setup": ["__init__"], "extra_entries": []},
    {"var": "pythonRSAKey", "cls": "Python_RSAKey", "file": "tlslite/utils/python_rsakey.py", "bases": [],
     "setup": ["__init__"], "extra_entries": ["_rawPrivateKeyOp", "_rawPublicKeyOp"],
     # inherited from RSAKey (rsakey.py) and not part of the anchored blinding section
     "only_entries": ["_rawPrivateKeyOp", "_rawPublicKeyOp", "hasPrivateKey"]},
    {"var": "verifierDB", "cls": "VerifierDB", "file": "tlslite/verifierdb.py",
     "bases": [("tlslite/basedb.py", "BaseDB")], "setup": ["__init__", "create", "open"], "extra_entries": []},
]

READ_METHODS = {"get", "keys", "values", "items", "copy", "startswith", "endswith", "index", "count",
                "locked", "has_key", "__contains__", "__getitem__"}
REFLECT = {"getattr", "setattr", "hasattr", "delattr", "vars", "id", "dir", "super"}


class Unresolved(Exception):
    pass


def find_class(tree, name):
    for n in ast.walk(tree):
        if isinstance(n, ast.ClassDef) and n.name == name:
            return n
    raise Unresolved("class %s not found" % name)


def is_static(fn):
    """"static" for @staticmethod (no receiver at all: the body cannot touch the object),
    "class" for @classmethod, None otherwise"""
    for d in fn.decorator_list:
        if isinstance(d, ast.Name) and d.id == "staticmethod":
            return "static"
        if isinstance(d, ast.Name) and d.id == "classmethod":
            return "class"
    return None


class MethodScan(object):
    """flatten one method"""

    def __init__(self, owner, fn, resolver, lock_fields, field_id):
        self.owner = owner
        self.fn = fn
        self.resolve = resolver            # (kind, clsname_or_None, method) -> method id or None
        self.lock_fields = lock_fields
        self.field_id = field_id
        args = fn.args.posonlyargs + fn.args.args
        self.static = is_static(fn) == "static"
        self.selfname = None if self.static else (args[0].arg if args else None)
        self.stmts = []
        # local name -> field: `x = self.F.m(...)` may hand out a live view of the shared object
        # (dict.keys(), .items(), ...); every later use of x counts as a content read of F
        self.views = {}

    # ---- helpers -------------------------------------------------------------
    def is_self(self, n):
        return isinstance(n, ast.Name) and n.id == self.selfname

    def self_attr(self, n):
        """field name if n is `self.F`"""
        if isinstance(n, ast.Attribute) and self.is_self(n.value):
            return n.attr
        return None

    def lock_call(self, n, what):
        """lock field name if n is the expression `self.L.<what>()`"""
        if isinstance(n, ast.Call) and not n.args and not n.keywords and isinstance(n.func, ast.Attribute) \
                and n.func.attr == what:
            f = self.self_attr(n.func.value)
            if f is not None:
                return f
        return None

    def emit(self, line, role, lock, acc, calls):
        self.stmts.append({"line": line, "role": role, "inLock": lock, "acc": acc, "calls": calls})

    # ---- expressions ---------------------------------------------------------
    def expr(self, node, acc, calls):
        """collect accesses / calls of an expression tree"""
        if node is None:
            return
        if isinstance(node, (ast.Lambda, ast.Yield, ast.YieldFrom, ast.Await, ast.NamedExpr)):
            if any(self.is_self(x) for x in ast.walk(node)):
                acc.append(("?", "unknown"))
                return
        if isinstance(node, ast.Call):
            f = node.func
            # time.time()
            if isinstance(f, ast.Attribute) and f.attr == "time" and isinstance(f.value, ast.Name) and f.value.id == "time":
                acc.append((CLOCK, "contentRead"))
            if isinstance(f, ast.Name) and f.id in REFLECT and any(self.is_self(x) for a in node.args for x in ast.walk(a)):
                acc.append(("?", "unknown"))
            args = list(node.args) + [k.value for k in node.keywords]
            # self.m(...)
            m = self.self_attr(f)
            if m is not None:
                mid = self.resolve("self", None, m)
                if mid is None:
                    acc.append((m, "unknown"))      # callable attribute or unknown method
                else:
                    calls.append(mid)
                for a in args:
                    self.expr(a, acc, calls)
                return
            # Base.m(self, ...)
            if isinstance(f, ast.Attribute) and isinstance(f.value, ast.Name) and args and self.is_self(args[0]):
                mid = self.resolve("base", f.value.id, f.attr)
                if mid is None:
                    acc.append(("?", "unknown"))
                else:
                    calls.append(mid)
                for a in args[1:]:
                    self.expr(a, acc, calls)
                return
            # self.F.m(...)
            if isinstance(f, ast.Attribute):
                fld = self.self_attr(f.value)
                if fld is not None:
                    if fld in self.lock_fields:
                        acc.append((fld, "unknown"))   # lock used outside the recognised patterns
                    else:
                        acc.append((fld, "contentRead" if f.attr in READ_METHODS else "contentWrite"))
                        acc.append((fld, "refRead"))
                    for a in args:
                        self.expr(a, acc, calls)
                    return
            self.expr(f, acc, calls)
            for a in args:
                self.expr(a, acc, calls)
            return
        if isinstance(node, ast.Compare):
            # self.F == None / is None / != None: reference only;  x in self.F: content
            operands = [node.left] + list(node.comparators)
            ops = node.ops
            handled = set()
            for i, op in enumerate(ops):
                l, r = operands[i], operands[i + 1]
                if isinstance(op, (ast.Eq, ast.NotEq, ast.Is, ast.IsNot)):
                    for a, b in ((l, r), (r, l)):
                        if self.self_attr(a) is not None and isinstance(b, ast.Constant) and b.value is None:
                            acc.append((self.self_attr(a), "refRead"))
                            handled.add(id(a))
                if isinstance(op, (ast.In, ast.NotIn)) and self.self_attr(r) is not None:
                    acc.append((self.self_attr(r), "refRead"))
                    acc.append((self.self_attr(r), "contentRead"))
                    handled.add(id(r))
            for o in operands:
                if id(o) not in handled:
                    self.expr(o, acc, calls)
            return
        if isinstance(node, ast.Subscript):
            fld = self.self_attr(node.value)
            if fld is not None:
                acc.append((fld, "refRead"))
                if isinstance(node.ctx, ast.Load):
                    acc.append((fld, "contentRead"))
                else:
                    acc.append((fld, "contentWrite"))
                self.expr(node.slice, acc, calls)
                return
            self.expr(node.value, acc, calls)
            self.expr(node.slice, acc, calls)
            return
        if isinstance(node, ast.Attribute):
            fld = self.self_attr(node)
            if fld is not None:
                if fld.startswith("__") and fld.endswith("__"):
                    acc.append((fld, "unknown"))
                elif fld in self.lock_fields:
                    acc.append((fld, "unknown"))
                elif isinstance(node.ctx, ast.Load):
                    acc.append((fld, "refRead"))
                    acc.append((fld, "contentRead"))
                else:
                    acc.append((fld, "refWrite"))
                return
            inner = self.self_attr(node.value)
            if inner is not None:                    # self.F.attr
                if inner in self.lock_fields:
                    acc.append((inner, "unknown"))
                else:
                    acc.append((inner, "refRead"))
                    acc.append((inner, "contentRead" if isinstance(node.ctx, ast.Load) else "contentWrite"))
                return
            self.expr(node.value, acc, calls)
            return
        if self.is_self(node):
            acc.append(("?", "unknown"))             # bare self escapes
            return
        if isinstance(node, ast.Name) and isinstance(node.ctx, ast.Load) and node.id in self.views:
            acc.append((self.views[node.id], "contentRead"))
            return
        for ch in ast.iter_child_nodes(node):
            if isinstance(ch, (ast.expr, ast.comprehension, ast.keyword, ast.Starred, ast.slice if hasattr(ast, "slice") else ast.expr)):
                self.expr(ch, acc, calls)
            elif isinstance(ch, ast.AST) and not isinstance(ch, (ast.expr_context, ast.operator, ast.unaryop,
                                                                 ast.boolop, ast.cmpop)):
                self.expr(ch, acc, calls)

    def simple(self, st, lock, exprs, extra_acc=()):
        acc, calls = list(extra_acc), []
        for e in exprs:
            self.expr(e, acc, calls)
        self.emit(st.lineno, "plain", lock, acc, calls)

    # ---- statements ----------------------------------------------------------
    def block(self, body, lock, in_loop):
        i = 0
        while i < len(body):
            st = body[i]
            nxt = body[i + 1] if i + 1 < len(body) else None
            # self.L.acquire(); try: ... finally: self.L.release()
            L = self.lock_call(st.value, "acquire") if isinstance(st, ast.Expr) else None
            if L is not None:
                ok = (lock is None and not in_loop and L in self.lock_fields and isinstance(nxt, ast.Try)
                      and len(nxt.finalbody) == 1 and isinstance(nxt.finalbody[0], ast.Expr)
                      and self.lock_call(nxt.finalbody[0].value, "release") == L)
                if not ok:
                    self.emit(st.lineno, "unknown", lock, [], [])
                    i += 1
                    continue
                self.emit(st.lineno, ("acquire", L), None, [], [])
                self.block(nxt.body, L, in_loop)
                for h in nxt.handlers:
                    if h.type is not None:
                        self.simple(h, L, [h.type])
                    self.block(h.body, L, in_loop)
                self.block(nxt.orelse, L, in_loop)
                self.emit(nxt.finalbody[0].lineno, ("release", L), None, [], [])
                i += 2
                continue
            if isinstance(st, ast.Expr) and self.lock_call(st.value, "release") is not None:
                self.emit(st.lineno, "unknown", lock, [], [])       # release outside the pattern
                i += 1
                continue
            if isinstance(st, ast.With):
                L = self.self_attr(st.items[0].context_expr) if len(st.items) == 1 else None
                if L is not None and L in self.lock_fields and st.items[0].optional_vars is None \
                        and lock is None and not in_loop:
                    self.emit(st.lineno, ("acquire", L), None, [], [])
                    self.block(st.body, L, in_loop)
                    last = st.body[-1]
                    self.emit(getattr(last, "end_lineno", last.lineno), ("release", L), None, [], [])
                else:
                    self.emit(st.lineno, "unknown", lock, [], [])
                    self.block(st.body, lock, in_loop)
                i += 1
                continue
            if isinstance(st, ast.If):
                self.simple(st, lock, [st.test])
                self.block(st.body, lock, in_loop)
                self.block(st.orelse, lock, in_loop)
            elif isinstance(st, ast.While):
                self.simple(st, lock, [st.test])
                self.block(st.body, lock, True)
                self.block(st.orelse, lock, in_loop)
            elif isinstance(st, ast.For):
                self.simple(st, lock, [st.iter, st.target])
                self.block(st.body, lock, True)
                self.block(st.orelse, lock, in_loop)
            elif isinstance(st, ast.Try):
                self.block(st.body, lock, in_loop)
                for h in st.handlers:
                    if h.type is not None:
                        self.simple(h, lock, [h.type])
                    self.block(h.body, lock, in_loop)
                self.block(st.orelse, lock, in_loop)
                self.block(st.finalbody, lock, in_loop)
            elif isinstance(st, ast.Return):
                self.simple(st, lock, [st.value])
            elif isinstance(st, ast.Expr):
                if isinstance(st.value, ast.Constant):
                    pass                                             # docstring
                else:
                    self.simple(st, lock, [st.value])
            elif isinstance(st, ast.Assign):
                self.simple(st, lock, [st.value] + list(st.targets))
                for tg in st.targets:
                    if isinstance(tg, ast.Name):
                        v = st.value
                        fld = None
                        if isinstance(v, ast.Call) and isinstance(v.func, ast.Attribute):
                            fld = self.self_attr(v.func.value)
                        if fld is not None and fld not in self.lock_fields:
                            self.views[tg.id] = fld
                        else:
                            self.views.pop(tg.id, None)
            elif isinstance(st, ast.AugAssign):
                # target is read and written
                acc = []
                fld = self.self_attr(st.target)
                if fld is not None:
                    acc.append((fld, "refRead"))
                    acc.append((fld, "contentRead"))
                elif isinstance(st.target, ast.Subscript) and self.self_attr(st.target.value) is not None:
                    acc.append((self.self_attr(st.target.value), "contentRead"))
                self.simple(st, lock, [st.value, st.target], acc)
            elif isinstance(st, ast.AnnAssign):
                self.simple(st, lock, [st.value, st.target])
            elif isinstance(st, ast.Raise):
                self.simple(st, lock, [st.exc, st.cause])
            elif isinstance(st, ast.Assert):
                self.simple(st, lock, [st.test, st.msg])
            elif isinstance(st, ast.Delete):
                self.simple(st, lock, list(st.targets))
            elif isinstance(st, (ast.Pass, ast.Break, ast.Continue)):
                self.emit(st.lineno, "plain", lock, [], [])
            elif isinstance(st, (ast.Import, ast.ImportFrom)):
                self.emit(st.lineno, "plain", lock, [], [])
            else:
                # nested def / class / global / nonlocal / match / async ...
                self.emit(st.lineno, "unknown", lock, [], [])
            i += 1

    def run(self):
        if self.selfname is None and not self.static:
            self.emit(self.fn.lineno, "unknown", None, [], [])
        else:
            self.block(self.fn.body, None, False)
        return self.stmts


def scan_target(repo, tgt):
    """-> dict(name, lockField, lockOK, entries, methods[{name, setup, stmts}], problems)"""
    problems = []
    classes = []          # most derived first: (clsname, ClassDef)
    try:
        for path, cname in [(tgt["file"], tgt["cls"])] + list(tgt["bases"]):
            with open(os.path.join(repo, path)) as f:
                tree = ast.parse(f.read())
            classes.append((cname, find_class(tree, cname), path))
    except (OSError, SyntaxError, Unresolved) as e:
        return {"name": tgt["cls"], "fatal": "%s: %s" % (type(e).__name__, e)}
    # declared bases must be exactly what we loaded (object allowed); anything else is outside the analysis
    known = set(c for c, _, _ in classes)
    for cname, cd, _ in classes:
        for b in cd.bases:
            bn = b.id if isinstance(b, ast.Name) else None
            if bn not in known and bn not in ("object",) and not (tgt["cls"] == "Python_RSAKey" and bn == "RSAKey"):
                problems.append("base class %r of %s not analysed" % (ast.dump(b) if bn is None else bn, cname))
    methods = []          # (qualified name, owner, FunctionDef)
    for cname, cd, _ in classes:
        for n in cd.body:
            if isinstance(n, (ast.FunctionDef,)) and is_static(n) != "class":
                methods.append((cname + "." + n.name, cname, n))
            elif isinstance(n, ast.AsyncFunctionDef):
                problems.append("async method %s" % n.name)
    index = {q: i for i, (q, _, _) in enumerate(methods)}

    def resolver(kind, cname, m):
        if kind == "self":
            for c, _, _ in classes:
                if c + "." + m in index:
                    return index[c + "." + m]
            return None
        if cname in known and cname + "." + m in index:
            return index[cname + "." + m]
        return None

    # lock fields: `self.X = threading.Lock()` / RLock in the setup methods
    lock_fields = {}
    for q, owner, fn in methods:
        if fn.name in tgt["setup"]:
            for n in ast.walk(fn):
                if isinstance(n, ast.Assign) and len(n.targets) == 1 and isinstance(n.targets[0], ast.Attribute) \
                        and isinstance(n.targets[0].value, ast.Name) and isinstance(n.value, ast.Call) \
                        and isinstance(n.value.func, ast.Attribute) and n.value.func.attr in ("Lock", "RLock") \
                        and isinstance(n.value.func.value, ast.Name) and n.value.func.value.id == "threading" \
                        and not n.value.args and not n.value.keywords:
                    lock_fields[n.targets[0].attr] = lock_fields.get(n.targets[0].attr, 0) + 1
    field_names = [CLOCK]

    def field_id(name):
        if name not in field_names:
            field_names.append(name)
        return field_names.index(name)

    out_methods = []
    for q, owner, fn in methods:
        sc = MethodScan(owner, fn, resolver, set(lock_fields), field_id)
        stmts = sc.run()
        out_methods.append({"name": q, "setup": fn.name in tgt["setup"], "stmts": stmts})
    # the lock: exactly one field, assigned exactly once
    lock_ok = len(lock_fields) == 1 and list(lock_fields.values()) == [1] and not problems
    lock_field = sorted(lock_fields)[0] if lock_fields else "?"
    # entries: most-derived public (non single-underscore) operation methods + extras
    entries = []
    seen = set()
    for q, owner, fn in methods:
        if fn.name in seen:
            continue
        seen.add(fn.name)
        if fn.name in tgt["setup"]:
            continue
        public = not (fn.name.startswith("_") and not fn.name.startswith("__"))
        if "only_entries" in tgt:
            if fn.name in tgt["only_entries"]:
                entries.append(index[q])
        elif public or fn.name in tgt["extra_entries"]:
            entries.append(index[q])
    for e in tgt.get("only_entries", tgt["extra_entries"]):
        if resolver("self", None, e) is None:
            problems.append("entry method %s not found" % e)
            lock_ok = False
    return {"name": tgt["cls"], "var": tgt["var"], "lockField": lock_field, "lockOK": lock_ok, "entries": entries,
            "methods": out_methods, "problems": problems, "fields": field_names, "field_id": field_id}


def lean_access(fid, mode):
    return "⟨%d, .%s⟩" % (fid, mode)


def emit_class(info):
    if "fatal" in info:
        # a class that cannot be read: one entry, no methods -> shape [bad]
        return ('def %s : ClassInfo :=\n  { name := %s, lockField := 0, lockIsThreadingLock := false,\n'
                '    entries := [0], methods := [] }  -- %s\n' % (info.get("var", "broken"), lean_str(info["name"]), info["fatal"]))
    fid = info["field_id"]
    lines = []
    lockid = fid(info["lockField"])
    meths = []
    for m in info["methods"]:
        st_l = []
        for s in m["stmts"]:
            role = s["role"]
            if role == "plain":
                r = ".plain"
            elif role == "unknown":
                r = ".unknown"
            else:
                r = ".%s %d" % (role[0], fid(role[1]))
            inl = "none" if s["inLock"] is None else "some %d" % fid(s["inLock"])
            seen = []
            for f, mode in s["acc"]:
                if (f, mode) not in seen:
                    seen.append((f, mode))
            acc = "[" + ", ".join(lean_access(fid(f), mode) for f, mode in seen) + "]"
            calls = "[" + ", ".join(str(c) for c in s["calls"]) + "]"
            st_l.append("      { line := %d, role := %s, inLock := %s, acc := %s, calls := %s }"
                        % (s["line"], r, inl, acc, calls))
        meths.append("    { name := %s, setup := %s, stmts := [\n%s] }"
                     % (lean_str(m["name"]), "true" if m["setup"] else "false", ",\n".join(st_l)))
    lines.append("def %s : ClassInfo :=" % info["var"])
    lines.append("  { name := %s, lockField := %d, lockIsThreadingLock := %s," %
                 (lean_str(info["name"]), lockid, "true" if info["lockOK"] else "false"))
    lines.append("    entries := [%s]," % ", ".join(str(e) for e in info["entries"]))
    lines.append("    methods := [\n%s] }" % ",\n".join(meths))
    for p in info["problems"]:
        lines.append("-- problem: " + p)
    names = ", ".join(lean_str(x) for x in info["fields"])
    lines.append("def %sFields : List String := [%s]" % (info["var"], names))
    multi = len(set(m["name"].split(".")[0] for m in info["methods"])) > 1
    for i, m in enumerate(info["methods"]):
        owner, meth = m["name"].split(".", 1)
        ident = info["var"] + "_" + (owner + "_" if multi else "") + meth.strip("_")
        lines.append("def %s : Nat := %d" % (ident, i))
    return "\n".join(lines) + "\n"


def method_ids(info):
    """python-side view used by the harness: qualified name -> id"""
    return {m["name"]: i for i, m in enumerate(info["methods"])}


def analyse(repo):
    return [scan_target(repo, t) for t in TARGETS]


def generate(repo):
    parts = ["import TlsModel.Locks",
             "/- GENERATED by translate/gen_locks.py from the Python AST of the repository under check; do not edit. -/",
             "namespace Tls.Gen.Locks", "open Tls.Locks", ""]
    for t in TARGETS:
        info = scan_target(repo, t)
        info.setdefault("var", t["var"])
        parts.append(emit_class(info))
    parts.append("end Tls.Gen.Locks\n")
    return {"TlsModel/Gen/Locks.lean": "\n".join(parts)}
