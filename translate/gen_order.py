"""tlslite/tlsconnection.py, tlsrecordlayer.py -> lean/TlsModel/Gen/Order.lean   (C06, tie by regeneration)

Read from the AST of the tree under check, nothing is executed.  For every flow function
(_handshakeClientAsyncHelper, _clientGetServerHello, _clientTLS13Handshake, _clientResume,
_clientKeyExchange, _clientFinished, _handshakeServerAsyncHelper, _serverGetClientHello,
_serverTLS13Handshake, _serverCertKeyExchange, _serverSRPKeyExchange, _serverAnonKeyExchange,
_serverFinished, _getFinished, _sendFinished) the body is transcribed, in source order, into a flat
token list (vocabulary: lean/TlsModel/OrderTok.lean):

  get cts hts          every `_getMsg(expected content types, expected handshake types)`; an argument
                       is a literal (tuple) or one of the tracked local variables
  assignCT/HT/Bool     assignments to the tracked variables expected_msg, expected_types,
                       expect_ccs_message
  ifB g / elseB / endB the `if`s these sit under; the condition becomes a term over NAMED guard atoms
                       (looked up by the exact source text of the condition or of its and/or/not
                       operands); blocks that only send get an `opaque` guard
  send / writeChange / readChange     `_sendMsg/_sendMsgs/_queue_message`, `_changeWriteState`,
                       `_changeReadState`
  defragCheck          `if <defragmenter holds handshake bytes>: _sendError(unexpected_message)`
  abort                a `_sendError` whose guard consists of known atoms only (order-level refusals:
                       CertificateRequest with an incompatible suite, a second HelloRetryRequest, an HRR
                       for a group already sent); `_sendError`s under other guards are content checks
                       and are left out
  call f [binds]       a call of another flow function (keyword arguments that bind tracked variables)
  complete / ret / done               `_handshakeDone`, `return` (helpers), `yield None`
  clearCompat          `self._middlebox_compat_mode = False` (TLS 1.3: a CCS is no longer dropped)

plus from tlsrecordlayer.py: `alignedTypes` (the handshake types `_getMsg` requires to end their
record in TLS 1.3) and `postDispatch` (the if/elif chain of readAsync that fixes the acceptable
post-handshake handshake types, with its guards).

Anything the translator does not understand — a condition with unknown text around an
acceptance-relevant statement, an argument of unknown shape, a loop or try around such statements —
becomes a `poison` token / atom; the evaluator rejects everything then and every generated
obligation of Props/C06.lean is false.  Nothing is guessed.
"""
import ast
import os

from . import lean_str

FUNCS = {
    "_handshakeClientAsyncHelper": "clientHelper", "_clientGetServerHello": "clientGetServerHello",
    "_clientTLS13Handshake": "clientTLS13Handshake", "_clientResume": "clientResume",
    "_clientKeyExchange": "clientKeyExchange", "_clientFinished": "clientFinished",
    "_handshakeServerAsyncHelper": "serverHelper", "_serverGetClientHello": "serverGetClientHello",
    "_serverTLS13Handshake": "serverTLS13Handshake", "_serverCertKeyExchange": "serverCertKeyExchange",
    "_serverSRPKeyExchange": "serverSRPKeyExchange", "_serverAnonKeyExchange": "serverAnonKeyExchange",
    "_serverFinished": "serverFinished", "_getFinished": "getFinished", "_sendFinished": "sendFinished",
}
HELPERS = ("_handshakeClientAsyncHelper", "_handshakeServerAsyncHelper")
VARS = ("expected_msg", "expected_types", "expect_ccs_message", "expect_next_protocol")
SENDS = ("_sendMsg", "_sendMsgs", "_queue_message", "_queue_flush", "_serverSendTickets")
KINDS = ("hello_request", "client_hello", "server_hello", "new_session_ticket", "end_of_early_data",
         "encrypted_extensions", "certificate", "server_key_exchange", "certificate_request",
         "server_hello_done", "certificate_verify", "client_key_exchange", "finished", "certificate_status",
         "key_update", "compressed_certificate", "next_protocol")
CTS = {"handshake": "handshake", "change_cipher_spec": "ccs", "alert": "alert", "application_data": "appdata"}
CLASS_KIND = {"CertificateRequest": "certificate_request", "NewSessionTicket1_0": "new_session_ticket"}

CERT_SUITE = ("cipherSuite in CipherSuite.certAllSuites or cipherSuite in CipherSuite.ecdheEcdsaSuites or "
              "cipherSuite in CipherSuite.dheDsaSuites")
ATOMS = {
    "version > (3, 3)": "tls13", "ext and ext.version > (3, 3)": "tls13", "real_version > (3, 3)": "tls13",
    "self.version == (3, 0)": "ssl3", "self.version in ((3, 1), (3, 2), (3, 3))": "tls10to12",
    "self._client and getattr(self, '_expect_new_session_ticket', True)": "isClientNST",
    CERT_SUITE: "certSuite",
    "cipherSuite not in CipherSuite.certSuites": "skeSuite",
    "cipherSuite in CipherSuite.srpAllSuites": "kxSrp",
    "cipherSuite in CipherSuite.certSuites or cipherSuite in CipherSuite.dheCertSuites or cipherSuite in "
    "CipherSuite.dheDsaSuites or (cipherSuite in CipherSuite.ecdheCertSuites) or (cipherSuite in "
    "CipherSuite.ecdheEcdsaSuites)": "kxCertFamily",
    "cipherSuite in CipherSuite.anonSuites or cipherSuite in CipherSuite.ecdhAnonSuites": "kxAnon",
    "cipherSuite not in CipherSuite.certAllSuites and cipherSuite not in CipherSuite.ecdheEcdsaSuites and "
    "(cipherSuite not in CipherSuite.dheDsaSuites) or cipherSuite in CipherSuite.srpAllSuites": "certReqIncompatible",
    "session and (session.sessionID and serverHello.session_id == session.sessionID or (session.tls_1_0_tickets "
    "and sent_session_id and (serverHello.session_id == sent_session_id)))": "resuming",
    "clientHello.session_id and sessionCache or (ticket_ext and ticket_ext.ticket)": "resuming",
    "session": "resuming",
    "result == 'resumed_and_finished'": "subflowResumed",
    "result in ['finished', 'resumed_and_finished']": "subflowFinished",
    "result in ('finished', 'resumed_and_finished')": "subflowFinished",
    "result == None": "calleeDone", "result is None": "calleeDone",
    "result == 'finished'": "subflowFinished",
    "reqCert": "reqCert", "nextProtos is not None": "npnOffered",
    "not sr_psk": "notPsk", "selected_psk is None": "notPsk",
    "result.random == TLS_1_3_HRR and ext and (ext.version > (3, 3))": "hrrSeen",
    "result.random == TLS_1_3_HRR": "hrrSeen",
    "hrr_ext": "hrrNeeded", "sr_key_share_ext": "hrrHasKeyShare",
    "next((entry for entry in cl_key_share_ext.client_shares if entry.group == group_id), None)": "hrrShareAlreadySent",
    "comp_cert_ext": "compOffered", "cert_req_comp_cert_ext": "compOffered",
    "clientCertChain": "clientCertGot", "client_cert_chain and client_cert_chain.getNumCerts()": "clientCertGot",
}


def src(n):
    try:
        return " ".join(ast.unparse(n).split())
    except Exception:
        return "<?>"


def self_call(n):
    """name of `self.<name>(...)` or None"""
    if isinstance(n, ast.Call) and isinstance(n.func, ast.Attribute) and isinstance(n.func.value, ast.Name) \
            and n.func.value.id == "self":
        return n.func.attr
    return None


def calls_in(node):
    return [n for n in ast.walk(node) if self_call(n)]


class Fun(object):
    def __init__(self, name, node):
        self.name = name
        self.node = node
        self.helper = name in HELPERS

    # -- classification of statements ------------------------------------------------------
    def kind_of_call(self, c):
        a = self_call(c)
        if a == "_getMsg":
            return "get"
        if a in ("_changeReadState",):
            return "rel"
        if a in ("_handshakeDone",):
            return "rel"
        if a in FUNCS:
            return "rel"
        if a == "_sendError":
            return "abort"
        if a in SENDS or a == "_changeWriteState":
            return "send"
        return None

    def relevance(self, node):
        """'rel' if the subtree contains an acceptance-relevant statement, else 'send' / 'abort' / None"""
        best = None
        for n in ast.walk(node):
            k = None
            if isinstance(n, ast.Call):
                k = self.kind_of_call(n)
                if k == "get":
                    k = "rel"
            elif isinstance(n, ast.Assign) and len(n.targets) == 1 and isinstance(n.targets[0], ast.Name) \
                    and n.targets[0].id in VARS:
                k = "rel"
            elif isinstance(n, ast.Attribute) and n.attr == "_defragmenter":
                k = "rel"
            elif isinstance(n, ast.Assign) and len(n.targets) == 1 and src(n.targets[0]) == "self._middlebox_compat_mode":
                k = "rel"
            elif self.helper and isinstance(n, ast.Return):
                k = "rel"
            elif isinstance(n, ast.Yield) and isinstance(n.value, ast.Constant) and n.value.value is None:
                k = "rel"
            if k == "rel":
                return "rel"
            if k == "send":
                best = "send"
            elif k == "abort" and best is None:
                best = "abort"
        return best

    # -- guards --------------------------------------------------------------------------------
    def guard(self, n):
        t = src(n)
        if t in ATOMS:
            return "(.atom .%s)" % ATOMS[t], True
        if isinstance(n, ast.Name) and n.id in VARS:
            return "(.atom (.var .%s))" % n.id, True
        if isinstance(n, ast.Call) and isinstance(n.func, ast.Name) and n.func.id == "isinstance" and len(n.args) == 2 \
                and src(n.args[0]) == "result" and isinstance(n.args[1], ast.Name) and n.args[1].id in CLASS_KIND:
            return "(.atom (.lastIs .%s))" % CLASS_KIND[n.args[1].id], True
        if isinstance(n, ast.BoolOp):
            parts = [self.guard(v) for v in n.values]
            ok = all(p[1] for p in parts)
            op = ".and" if isinstance(n.op, ast.And) else ".or"
            term = parts[0][0]
            for p in parts[1:]:
                term = "(%s %s %s)" % (op, term, p[0])
            return term, ok
        if isinstance(n, ast.UnaryOp) and isinstance(n.op, ast.Not):
            g, ok = self.guard(n.operand)
            return "(.not %s)" % g, ok
        return "(.atom (.poison %s))" % lean_str(t), False

    # -- arguments of _getMsg -----------------------------------------------------------------
    def cts(self, n):
        def one(x):
            if isinstance(x, ast.Attribute) and src(x.value) == "ContentType" and x.attr in CTS:
                return "." + CTS[x.attr]
            return ".poison"
        if isinstance(n, ast.Name) and n.id in VARS:
            return "(.var .%s)" % n.id
        if isinstance(n, ast.Tuple):
            return "(.lit [%s])" % ", ".join(one(e) for e in n.elts)
        return "(.lit [%s])" % one(n)

    def hts_list(self, n):
        def one(x):
            if isinstance(x, ast.Attribute) and src(x.value) == "HandshakeType" and x.attr in KINDS:
                return "." + x.attr
            return None
        elts = n.elts if isinstance(n, ast.Tuple) else [n]
        out = [one(e) for e in elts]
        return None if any(o is None for o in out) else out

    def hts(self, n):
        if n is None:
            return "(.lit [])"
        if isinstance(n, ast.Name) and n.id in VARS:
            return "(.var .%s)" % n.id
        l = self.hts_list(n)
        if l is None:
            return None
        return "(.lit [%s])" % ", ".join(l)

    # -- statements ----------------------------------------------------------------------------
    def call_tok(self, c):
        a = self_call(c)
        if a == "_getMsg":
            if not c.args:
                return ".poison %s" % lean_str(src(c))
            h = self.hts(c.args[1] if len(c.args) > 1 else None)
            if h is None or c.keywords and any(k.arg in ("expectedType", "secondaryType") for k in c.keywords):
                return ".poison %s" % lean_str(src(c))
            return ".get %s %s" % (self.cts(c.args[0]), h)
        if a == "_changeReadState":
            return ".readChange"
        if a == "_changeWriteState":
            return ".writeChange"
        if a == "_handshakeDone":
            return ".complete"
        if a in SENDS:
            return ".send %s" % lean_str(a + "(" + ", ".join(src(x) for x in c.args)[:60] + ")")
        if a in FUNCS:
            binds = []
            for k in c.keywords:
                if k.arg in VARS:
                    g, ok = self.guard(k.value)
                    binds.append("(.%s, %s)" % (k.arg, g))
            # positional binding of tracked parameters
            params = [p.arg for p in FUN_NODES[a].args.args][1:]
            for i, arg in enumerate(c.args):
                if i < len(params) and params[i] in VARS:
                    g, ok = self.guard(arg)
                    binds.append("(.%s, %s)" % (params[i], g))
            return ".call .%s [%s]" % (FUNCS[a], ", ".join(binds))
        return None

    def stmt_calls(self, st, out):
        """tokens of the self-calls of a simple statement, in source order"""
        for c in sorted(calls_in(st), key=lambda n: (n.lineno, n.col_offset)):
            a = self_call(c)
            if a == "_sendError":
                continue
            t = self.call_tok(c)
            if t is not None:
                out.append(t)

    def walk(self, stmts, out):
        for st in stmts:
            if isinstance(st, ast.If):
                self.walk_if(st, out)
            elif isinstance(st, ast.For):
                hdr = calls_in(st.iter)
                if hdr:
                    self.stmt_calls(st.iter, out)      # `for result in self._x(...)`: the call
                    # the pump body `if result in (0, 1): yield result / elif ... / else: break`:
                    # what hangs on its elif branches runs after the callee produced its result
                    for b in st.body:
                        if isinstance(b, ast.If) and src(b.test) == "result in (0, 1)":
                            self.walk([x for x in b.orelse if not isinstance(x, ast.Break)], out)
                        elif self.relevance(b) == "rel":
                            out.append(".poison %s" % lean_str("statement inside: for ... in " + src(st.iter)[:50]))
                elif self.relevance(st) == "rel":
                    out.append(".poison %s" % lean_str("loop: " + src(st.iter)[:60]))
                elif self.relevance(st) == "send":
                    out.append(".send %s" % lean_str("loop: " + src(st.iter)[:60]))
            elif isinstance(st, ast.While):
                if self.relevance(st) == "rel":
                    out.append(".poison %s" % lean_str("while: " + src(st.test)[:60]))
            elif isinstance(st, ast.Try):
                self.walk(st.body, out)
                for h in st.handlers:
                    if self.relevance(ast.Module(body=h.body, type_ignores=[])) == "rel":
                        out.append(".poison %s" % lean_str("except handler with relevant statements"))
                self.walk(st.orelse, out)
                self.walk(st.finalbody, out)
            elif isinstance(st, ast.With):
                self.walk(st.body, out)
            elif isinstance(st, ast.Assign) and len(st.targets) == 1 and isinstance(st.targets[0], ast.Name) \
                    and st.targets[0].id in VARS:
                v = st.targets[0].id
                val = st.value
                if isinstance(val, ast.Constant) and isinstance(val.value, bool):
                    out.append(".assignBool .%s %s" % (v, "true" if val.value else "false"))
                else:
                    elts = val.elts if isinstance(val, ast.Tuple) else [val]
                    if all(isinstance(e, ast.Attribute) and src(e.value) == "ContentType" and e.attr in CTS for e in elts):
                        out.append(".assignCT .%s [%s]" % (v, ", ".join("." + CTS[e.attr] for e in elts)))
                    elif self.hts_list(val) is not None:
                        out.append(".assignHT .%s [%s]" % (v, ", ".join(self.hts_list(val))))
                    else:
                        out.append(".poison %s" % lean_str(src(st)))
            elif isinstance(st, ast.Assign) and len(st.targets) == 1 and src(st.targets[0]) == "self._middlebox_compat_mode":
                if isinstance(st.value, ast.Constant) and st.value.value is False:
                    out.append(".clearCompat")
                else:
                    out.append(".poison %s" % lean_str(src(st)))
            elif isinstance(st, ast.Return) and self.helper:
                out.append(".ret")
            elif isinstance(st, ast.Expr) and isinstance(st.value, ast.Yield) and \
                    isinstance(st.value.value, ast.Constant) and st.value.value.value is None:
                out.append(".done")
            else:
                self.stmt_calls(st, out)

    def walk_abort(self, stmts, out):
        for st in stmts:
            if isinstance(st, ast.If):
                g, ok = self.guard(st.test)
                if ok and not st.orelse and "_defragmenter" not in src(st.test):
                    inner = []
                    self.walk_abort(st.body, inner)
                    if ".abort" in inner:
                        out.append(".ifB %s" % g)
                        out.extend(inner)
                        out.append(".endB")
            elif isinstance(st, (ast.For, ast.Expr)) and not isinstance(st, ast.If):
                hdr = st.iter if isinstance(st, ast.For) else st.value
                if any(self_call(c) == "_sendError" for c in calls_in(hdr)):
                    out.append(".abort")

    def walk_if(self, st, out):
        t = src(st.test)
        if "_defragmenter" in t:
            # the only shape understood: [<known guard> and] <buffer not empty>  =>  _sendError(unexpected_message)
            body_ok = all(self_call(c) == "_sendError" for c in calls_in(ast.Module(body=st.body, type_ignores=[]))) \
                and not st.orelse and "unexpected_message" in src(ast.Module(body=st.body, type_ignores=[]))
            test = st.test
            pre = None
            defr = ("not self._defragmenter.is_empty()", "self._defragmenter.buffers[ContentType.handshake]")
            if isinstance(test, ast.BoolOp) and isinstance(test.op, ast.And) and len(test.values) == 2 \
                    and src(test.values[1]) in defr:
                pre = test.values[0]
                ok_shape = True
            else:
                ok_shape = src(test) in defr
            if not (body_ok and ok_shape):
                out.append(".poison %s" % lean_str("defragmenter test: " + t[:80]))
                return
            if pre is not None:
                g, ok = self.guard(pre)
                out.extend([".ifB %s" % g, ".defragCheck", ".endB"])
            else:
                out.append(".defragCheck")
            return
        r_then = self.relevance(ast.Module(body=st.body, type_ignores=[]))
        r_else = self.relevance(ast.Module(body=st.orelse, type_ignores=[])) if st.orelse else None
        rel = "rel" if "rel" in (r_then, r_else) else ("send" if "send" in (r_then, r_else) else
                                                       ("abort" if "abort" in (r_then, r_else) else None))
        if rel is None:
            return
        g, ok = self.guard(st.test)
        if rel == "abort":
            # a refusal: kept only when every condition on the way to the `_sendError` is made of known
            # atoms; `_sendError`s under other conditions are content checks
            if ok and not st.orelse:
                inner = []
                self.walk_abort(st.body, inner)
                if ".abort" in inner:
                    out.append(".ifB %s" % g)
                    out.extend(inner)
                    out.append(".endB")
            return
        if rel == "send":
            g = "(.opaque %s)" % lean_str(t[:80])
        out.append(".ifB %s" % g)
        self.walk(st.body, out)
        if st.orelse:
            out.append(".elseB")
            self.walk(st.orelse, out)
        out.append(".endB")


FUN_NODES = {}


def aligned_types(rl_tree):
    """the tuple in `subType in (HandshakeType.client_hello, ...)` of _getMsg's alignment check"""
    for n in ast.walk(rl_tree):
        if isinstance(n, ast.FunctionDef) and n.name == "_getMsg":
            for i in ast.walk(n):
                if isinstance(i, ast.If) and "is_empty" in src(i.test) and "subType in" in src(i.test):
                    for c in ast.walk(i.test):
                        if isinstance(c, ast.Compare) and src(c.left) == "subType" and isinstance(c.comparators[0], ast.Tuple):
                            names = [e.attr for e in c.comparators[0].elts if isinstance(e, ast.Attribute)]
                            if len(names) == len(c.comparators[0].elts) and all(x in KINDS for x in names) \
                                    and "self.version > (3, 3)" in src(i.test):
                                return names
    return None


POST_ATOMS = {"self._client_keypair": "keypair", "self._cert_requests": "outstanding",
              "cert_req_with_comp_cert_ext": "compReq", "self._client": "client"}


def post_dispatch(rl_tree):
    """readAsync: [(guard atoms of the if/elif chain, handshake types)] for TLS 1.3, in source order"""
    for n in ast.walk(rl_tree):
        if isinstance(n, ast.FunctionDef) and n.name == "readAsync":
            top = None
            for st in n.body:
                if isinstance(st, ast.If) and src(st.test) == "self.version > (3, 3)":
                    top = st
            if top is None:
                return None
            rows = []

            def assign_of(body):
                return [s for s in body if isinstance(s, ast.Assign) and src(s.targets[0]) == "allowedHsTypes"]

            def chain(st, path):
                """st: an If node of the chain"""
                g = POST_ATOMS.get(src(st.test))
                if g is None:
                    return False
                inner = [s for s in st.body if isinstance(s, ast.If) and assign_of(s.body)]
                direct = assign_of(st.body)
                if direct:
                    rows.append((path + [(g, True)], direct[0].value))
                elif inner:
                    for i in inner:
                        gi = POST_ATOMS.get(src(i.test))
                        if gi is None or not i.orelse or not assign_of(i.orelse):
                            return False
                        rows.append((path + [(g, True), (gi, True)], assign_of(i.body)[0].value))
                        rows.append((path + [(g, True), (gi, False)], assign_of(i.orelse)[0].value))
                else:
                    return False
                if len(st.orelse) == 1 and isinstance(st.orelse[0], ast.If):
                    return chain(st.orelse[0], path + [(g, False)])
                d = assign_of(st.orelse)
                if not d:
                    return False
                rows.append((path + [(g, False)], d[0].value))
                return True
            first = [s for s in top.body if isinstance(s, ast.If) and "allowedHsTypes" in src(s)]
            if len(first) != 1 or not chain(first[0], []):
                return None
            out = []
            for path, val in rows:
                elts = val.elts if isinstance(val, ast.Tuple) else [val]
                names = [e.attr for e in elts if isinstance(e, ast.Attribute) and src(e.value) == "HandshakeType"]
                if len(names) != len(elts) or not all(x in KINDS for x in names):
                    return None
                out.append((path, names))
            return out
    return None


def generate(repo):
    lines = ["import TlsModel.OrderTok",
             "/- GENERATED by translate/gen_order.py from tlslite/tlsconnection.py and tlslite/tlsrecordlayer.py",
             "   of the tree under check — do not edit. -/",
             "namespace Tls.Order.Gen", ""]
    problems = []
    try:
        tree = ast.parse(open(os.path.join(repo, "tlslite", "tlsconnection.py")).read())
        rl_tree = ast.parse(open(os.path.join(repo, "tlslite", "tlsrecordlayer.py")).read())
    except Exception as e:  # noqa: B902
        tree = rl_tree = None
        problems.append("cannot parse: %r" % (e,))
    FUN_NODES.clear()
    if tree is not None:
        for n in ast.walk(tree):
            if isinstance(n, ast.FunctionDef) and n.name in FUNCS:
                if n.name in FUN_NODES:
                    problems.append("function defined twice: " + n.name)
                FUN_NODES[n.name] = n
    bodies = {}
    for py, lean in FUNCS.items():
        out = []
        if py not in FUN_NODES:
            out.append(".poison %s" % lean_str("function missing: " + py))
        else:
            Fun(py, FUN_NODES[py]).walk(FUN_NODES[py].body, out)
        bodies[lean] = out
    for lean in FUNCS.values():
        lines.append("def body_%s : List Tok := [" % lean)
        lines.append(",\n".join("  " + t for t in bodies[lean]))
        lines.append("]")
        lines.append("")
    lines.append("def body : Fn → List Tok")
    for lean in FUNCS.values():
        lines.append("  | .%s => body_%s" % (lean, lean))
    lines.append("")
    al = aligned_types(rl_tree) if rl_tree is not None else None
    if al is None:
        lines.append("/-- poison: the alignment check of _getMsg was not found in the expected shape -/")
        lines.append("def alignedTypes : List MsgKind := []")
        lines.append("def alignedTypesOk : Bool := false")
    else:
        lines.append("/-- `_getMsg`: handshake types that must end their record when `self.version > (3, 3)` -/")
        lines.append("def alignedTypes : List MsgKind := [%s]" % ", ".join("." + x for x in al))
        lines.append("def alignedTypesOk : Bool := true")
    lines.append("")
    pd = post_dispatch(rl_tree) if rl_tree is not None else None
    lines.append("/-- readAsync, TLS 1.3: (keypair?, outstanding?, compReq?, client?) constraints (none = not tested on")
    lines.append("    this path) and the acceptable handshake types, in source order of the if/elif chain -/")
    if pd is None:
        lines.append("def postDispatch : List ((Option Bool × Option Bool × Option Bool × Option Bool) × List MsgKind) := []")
        lines.append("def postDispatchOk : Bool := false")
    else:
        rows = []
        for path, names in pd:
            d = dict(path)
            cell = lambda k: ("some true" if d[k] else "some false") if k in d else "none"  # noqa: E731
            rows.append("  ((%s, %s, %s, %s), [%s])" % (cell("keypair"), cell("outstanding"), cell("compReq"), cell("client"),
                                                        ", ".join("." + x for x in names)))
        lines.append("def postDispatch : List ((Option Bool × Option Bool × Option Bool × Option Bool) × List MsgKind) := [\n"
                     + ",\n".join(rows) + "]")
        lines.append("def postDispatchOk : Bool := true")
    lines.append("")
    lines.append("def problems : List String := [%s]" % ", ".join(lean_str(p) for p in problems))
    lines.append("")
    lines.append("end Tls.Order.Gen")
    return {"TlsModel/Gen/Order.lean": "\n".join(lines) + "\n"}
