"""tlslite/utils/codec.py (Writer, Parser) and HandshakeMsg.postWrite of tlslite/messages.py
   -> lean/TlsModel/Gen/Codec.lean   (C15)

Statement-by-statement translation of the methods from the Python AST of the tree under check into
Lean `do` blocks in `Tls.PyO.M` (= Except Exc) over the Python-runtime model TlsModel/PyInt.lean +
TlsModel/PyObj.lean.  Objects (`self`, a local `Writer()`) are explicit state values that are
re-bound by every statement that mutates them; a method returns its result together with the
object's state afterwards.

    obj.attr = e / obj.attr += e        ->  let obj := { obj with attr := … }
    obj.bytes.append(v) / .extend(s)    ->  PyO.appendByte / PyO.extendInts
    obj.m(args)  (m translated)         ->  let r ← Cls_m obj args'; obj := state after; value r.1
    try: S  except K: raise V           ->  let vars ← PyO.tryExcept (do S'; pure vars) .k (PyO.raise .v)
    if c: raise E / return v            ->  if c' then … else do <rest>
    if / elif / else                    ->  let vars ← if … then do …; pure vars else …
    for x in seq / range(n): BODY       ->  let vars ← PyO.forM seq' vars (fun x st => do let vars := st; BODY'; pure vars)
    x.to_bytes(n, 'big'), bytes_to_int(b, 'big'), pack('>H'|'>I'|'>BH'|'>'+'H'*n, …), [0]*n, l[i] = v,
    l.append(v), tuple(l), len, seq[0], b[i:j], + - * >> & % //, comparisons, `not seq`

Class-level `if sys.version_info …:` alternatives are resolved the way the interpreter running the
check resolves them.  Whatever is not understood becomes `PyO.poison`, a missing or re-shaped
method a constant poison with the expected signature, so the obligations `gen_*` of Props/C15.lean
fail instead of passing silently.
"""
import ast
import os
import sys

CODEC = "tlslite/utils/codec.py"
MESSAGES = "tlslite/messages.py"

TYPES = {"int": "Int", "bytes": "Bytes", "intlist": "(List Int)", "tuplelist": "(List (List Int))", "bool": "Bool",
         "writer": "PyO.Writer", "parser": "PyO.Parser", "unit": "Unit"}

# (file, class, method, [(param, kind)], result kind or None, kind of self)
EXPECT = [
    (CODEC, "Writer", "addOne", [("val", "int")], None, "writer"),
    (CODEC, "Writer", "addTwo", [("val", "int")], None, "writer"),
    (CODEC, "Writer", "addThree", [("val", "int")], None, "writer"),
    (CODEC, "Writer", "addFour", [("val", "int")], None, "writer"),
    (CODEC, "Writer", "add", [("x", "int"), ("length", "int")], None, "writer"),
    (CODEC, "Writer", "addFixSeq", [("seq", "intlist"), ("length", "int")], None, "writer"),
    (CODEC, "Writer", "addVarSeq", [("seq", "intlist"), ("length", "int"), ("lengthLength", "int")], None, "writer"),
    (CODEC, "Writer", "addVarTupleSeq", [("seq", "tuplelist"), ("length", "int"), ("lengthLength", "int")], None, "writer"),
    (CODEC, "Writer", "add_var_bytes", [("data", "bytes"), ("length_length", "int")], None, "writer"),
    (CODEC, "Parser", "getFixBytes", [("lengthBytes", "int")], "bytes", "parser"),
    (CODEC, "Parser", "get", [("length", "int")], "int", "parser"),
    (CODEC, "Parser", "skip_bytes", [("length", "int")], None, "parser"),
    (CODEC, "Parser", "getVarBytes", [("lengthLength", "int")], "bytes", "parser"),
    (CODEC, "Parser", "getFixList", [("length", "int"), ("lengthList", "int")], "intlist", "parser"),
    (CODEC, "Parser", "getVarList", [("length", "int"), ("lengthLength", "int")], "intlist", "parser"),
    (CODEC, "Parser", "getVarTupleList", [("elemLength", "int"), ("elemNum", "int"), ("lengthLength", "int")], "tuplelist", "parser"),
    (CODEC, "Parser", "startLengthCheck", [("lengthLength", "int")], None, "parser"),
    (CODEC, "Parser", "setLengthCheck", [("length", "int")], None, "parser"),
    (CODEC, "Parser", "stopLengthCheck", [], None, "parser"),
    (CODEC, "Parser", "atLengthCheck", [], "bool", "parser"),
    (CODEC, "Parser", "getRemainingLength", [], "int", "parser"),
    (MESSAGES, "HandshakeMsg", "postWrite", [("w", "writer")], "bytes", "hsself"),
]
CLS_OF_KIND = {"writer": "Writer", "parser": "Parser"}
EXC = {"ValueError": "valueError", "DecodeError": "decodeError", "OverflowError": "overflowError"}
ATTRS = {"writer": {"bytes": "bytes"}, "parser": {"bytes": "bytes", "index": "int", "indexCheck": "int", "lengthCheck": "int"}}
RESERVED = {"end", "from", "at", "do", "then", "else", "let", "fun", "match", "with", "open", "self", "st", "r", "show", "have"}


def ident(n):
    return n + "_" if (n in RESERVED or n.startswith("_")) else n


class Poison(Exception):
    pass


class Fn(object):
    def __init__(self, tr, cls, name, params, result, selfkind, node):
        self.tr, self.cls, self.name, self.params, self.result, self.selfkind, self.node = tr, cls, name, params, result, selfkind, node
        self.env = {}
        self.lines = []
        self.tmp = 0
        self.notes = []

    # ---- helpers
    def fresh(self):
        self.tmp += 1
        return "r%d" % self.tmp

    def emit(self, ind, s):
        self.lines.append("  " * ind + s)

    def poison_stmt(self, ind, node, why):
        self.notes.append("line %d: %s" % (getattr(node, "lineno", 0), why))
        self.emit(ind, "let _ ← (PyO.poison : PyO.M Unit)  -- %s (line %d)" % (why, getattr(node, "lineno", 0)))

    def state_vars(self):
        return [v for v in self.env if v != "__hs"]

    # ---- expressions: returns (code, kind); may emit prelude lines (method calls) at indentation `ind`
    def expr(self, e, ind, want=None):
        try:
            c, k = self._expr(e, ind)
        except Poison as p:
            self.notes.append("line %d: %s" % (getattr(e, "lineno", 0), p))
            k = want or "int"
            c = "(← (PyO.poison : PyO.M %s))" % TYPES.get(k, "Int")
        if want is not None and k != want:
            self.notes.append("line %d: kind %s where %s expected" % (getattr(e, "lineno", 0), k, want))
            return "(← (PyO.poison : PyO.M %s))" % TYPES[want], want
        return c, k

    def obj_of(self, node):
        """(lean variable, kind) when node denotes a Writer/Parser object"""
        if isinstance(node, ast.Name) and self.env.get(node.id) in ("writer", "parser"):
            return ident(node.id) if node.id != "self" else "self_", self.env[node.id]
        return None, None

    def _expr(self, e, ind):
        if isinstance(e, ast.Constant):
            if type(e.value) is int:
                return "(%d : Int)" % e.value, "int"
            if e.value is True or e.value is False:
                return "true" if e.value else "false", "bool"
            raise Poison("constant %r" % (e.value,))
        if isinstance(e, ast.Name):
            if e.id in self.env and self.env[e.id] not in ("writer", "parser", "hsself"):
                return ident(e.id), self.env[e.id]
            raise Poison("name %s" % e.id)
        if isinstance(e, ast.List) and not e.elts:
            raise Poison("empty list outside an assignment")
        if isinstance(e, ast.Attribute):
            var, kind = self.obj_of(e.value)
            if var is not None and e.attr in ATTRS[kind]:
                return "%s.%s" % (var, e.attr), ATTRS[kind][e.attr]
            if isinstance(e.value, ast.Name) and self.env.get(e.value.id) == "hsself" and e.attr == "handshakeType":
                return "handshakeType", "int"
            raise Poison("attribute %s" % e.attr)
        if isinstance(e, ast.BinOp):
            return self.binop(e, ind)
        if isinstance(e, ast.UnaryOp) and isinstance(e.op, ast.Not):
            c, k = self.expr(e.operand, ind)
            if k == "bool":
                return "(!%s)" % c, "bool"
            if k in ("intlist", "tuplelist", "bytes"):
                return "(%s).isEmpty" % c, "bool"
            raise Poison("`not` of %s" % k)
        if isinstance(e, ast.Compare) and len(e.ops) == 1:
            a, ka = self.expr(e.left, ind)
            b, kb = self.expr(e.comparators[0], ind)
            if ka == kb == "int":
                op = {ast.Lt: "<", ast.LtE: "≤", ast.Gt: ">", ast.GtE: "≥", ast.Eq: "=", ast.NotEq: "≠"}.get(type(e.ops[0]))
                if op:
                    return "(decide (%s %s %s))" % (a, op, b), "bool"
            raise Poison("comparison")
        if isinstance(e, ast.Subscript):
            v, kv = self.expr(e.value, ind)
            if isinstance(e.slice, ast.Slice) and kv == "bytes" and e.slice.step is None:
                lo = "none" if e.slice.lower is None else "(some %s)" % self.expr(e.slice.lower, ind, "int")[0]
                hi = "none" if e.slice.upper is None else "(some %s)" % self.expr(e.slice.upper, ind, "int")[0]
                return "(Py.slice %s %s %s)" % (v, lo, hi), "bytes"
            if kv == "tuplelist" and isinstance(e.slice, ast.Constant) and e.slice.value == 0:
                return "(← PyO.head? %s)" % v, "intlist"
            raise Poison("subscript")
        if isinstance(e, ast.Call):
            return self.call(e, ind)
        raise Poison("expression %s" % type(e).__name__)

    def binop(self, e, ind):
        # '>' + 'H' * n is handled in pack(); here ints, bytes concatenation and [0] * n
        if isinstance(e.op, ast.Mult) and isinstance(e.left, ast.List) and len(e.left.elts) == 1 \
                and isinstance(e.left.elts[0], ast.Constant) and e.left.elts[0].value == 0:
            n, _ = self.expr(e.right, ind, "int")
            return "(PyO.zeros %s)" % n, "intlist"
        a, ka = self.expr(e.left, ind)
        b, kb = self.expr(e.right, ind)
        if ka == kb == "bytes" and isinstance(e.op, ast.Add):
            return "(%s ++ %s)" % (a, b), "bytes"
        if ka == kb == "int":
            if isinstance(e.op, (ast.Add, ast.Sub, ast.Mult)):
                return "(%s %s %s)" % (a, {ast.Add: "+", ast.Sub: "-", ast.Mult: "*"}[type(e.op)], b), "int"
            if isinstance(e.op, ast.BitAnd):
                return "(Py.band %s %s)" % (a, b), "int"
            if isinstance(e.op, ast.BitOr):
                return "(Py.bor %s %s)" % (a, b), "int"
            if isinstance(e.op, ast.RShift) and isinstance(e.right, ast.Constant) and type(e.right.value) is int and e.right.value >= 0:
                return "(Py.shr %s %d)" % (a, e.right.value), "int"
            if isinstance(e.op, ast.LShift) and isinstance(e.right, ast.Constant) and type(e.right.value) is int and e.right.value >= 0:
                return "(Py.shl %s %d)" % (a, e.right.value), "int"
            if isinstance(e.op, ast.Mod):
                return "(← PyO.pyMod %s %s)" % (a, b), "int"
            if isinstance(e.op, ast.FloorDiv):
                return "(← PyO.pyFloorDiv %s %s)" % (a, b), "int"
        raise Poison("binary operator %s on %s, %s" % (type(e.op).__name__, ka, kb))

    def call(self, e, ind):
        f = e.func
        if e.keywords:
            raise Poison("keyword arguments")
        # method call on a Writer/Parser object (value position)
        if isinstance(f, ast.Attribute):
            var, kind = self.obj_of(f.value)
            if var is not None:
                return self.method_call(var, kind, f.attr, e.args, ind, e)
            # x.to_bytes(n, 'big')
            if f.attr == "to_bytes" and len(e.args) == 2 and isinstance(e.args[1], ast.Constant) and e.args[1].value == "big":
                x, _ = self.expr(f.value, ind, "int")
                n, _ = self.expr(e.args[0], ind, "int")
                return "(← PyO.toBytesBig %s %s)" % (x, n), "bytes"
            raise Poison("method %s" % f.attr)
        if isinstance(f, ast.Name):
            if f.id in self.env:
                raise Poison("call of a local")
            n = f.id
            if n == "len" and len(e.args) == 1:
                a, k = self.expr(e.args[0], ind)
                if k == "bytes":
                    return "(PyO.lenB %s)" % a, "int"
                if k in ("intlist", "tuplelist"):
                    return "(PyO.lenL %s)" % a, "int"
                raise Poison("len of %s" % k)
            if n == "bytes_to_int" and len(e.args) == 2 and isinstance(e.args[1], ast.Constant) and e.args[1].value == "big" \
                    and self.tr.names.get("bytes_to_int") == "compat":
                a, _ = self.expr(e.args[0], ind, "bytes")
                return "(PyO.bytesToInt %s)" % a, "int"
            if n == "tuple" and len(e.args) == 1:
                return self.expr(e.args[0], ind, "intlist")
            if n == "pack" and self.tr.names.get("pack") == "struct" and e.args:
                return self.pack(e, ind)
            if n == "Writer" and not e.args:
                return "(PyO.Writer.mk [])", "writer"
        raise Poison("call")

    def pack(self, e, ind):
        fmt = e.args[0]
        rest = e.args[1:]
        if isinstance(fmt, ast.Constant) and isinstance(fmt.value, str) and not any(isinstance(a, ast.Starred) for a in rest):
            args = [self.expr(a, ind, "int")[0] for a in rest]
            if fmt.value == ">H" and len(args) == 1:
                return "(← PyO.packH %s)" % args[0], "bytes"
            if fmt.value == ">I" and len(args) == 1:
                return "(← PyO.packI %s)" % args[0], "bytes"
            if fmt.value == ">BH" and len(args) == 2:
                return "(← PyO.packBH %s %s)" % tuple(args), "bytes"
        # '>' + 'H' * n, *seq
        if isinstance(fmt, ast.BinOp) and isinstance(fmt.op, ast.Add) and isinstance(fmt.left, ast.Constant) and fmt.left.value == ">" \
                and isinstance(fmt.right, ast.BinOp) and isinstance(fmt.right.op, ast.Mult) \
                and isinstance(fmt.right.left, ast.Constant) and fmt.right.left.value == "H" \
                and len(rest) == 1 and isinstance(rest[0], ast.Starred):
            n, _ = self.expr(fmt.right.right, ind, "int")
            s, _ = self.expr(rest[0].value, ind, "intlist")
            return "(← PyO.packHs %s %s)" % (n, s), "bytes"
        raise Poison("struct format")

    def method_call(self, var, kind, meth, args, ind, node):
        sig = self.tr.sigs.get((CLS_OF_KIND[kind], meth))
        if sig is None:
            raise Poison("method %s.%s is not translated" % (CLS_OF_KIND[kind], meth))
        params, result = sig
        if len(args) != len(params):
            raise Poison("arity of %s" % meth)
        cargs = [self.expr(a, ind, k)[0] for a, (_, k) in zip(args, params)]
        r = self.fresh()
        self.emit(ind, "let %s ← %s_%s %s%s" % (r, CLS_OF_KIND[kind], meth, var, "".join(" " + c for c in cargs)))
        if result is None:
            self.emit(ind, "let %s := %s" % (var, r))
            return "()", "unit"
        self.emit(ind, "let %s := %s.2" % (var, r))
        return "%s.1" % r, result

    # ---- statements
    def assigned(self, stmts):
        """names (python) possibly re-bound by the statements, in a stable order"""
        out = []

        def add(n):
            if n not in out:
                out.append(n)

        def obj_name(v):
            return v.id if isinstance(v, ast.Name) and self.env.get(v.id) in ("writer", "parser") else None
        for s in stmts:
            for n in ast.walk(s):
                if isinstance(n, (ast.Assign, ast.AugAssign)):
                    tgts = n.targets if isinstance(n, ast.Assign) else [n.target]
                    for t in tgts:
                        if isinstance(t, ast.Name):
                            add(t.id)
                        elif isinstance(t, ast.Subscript) and isinstance(t.value, ast.Name):
                            add(t.value.id)
                        elif isinstance(t, ast.Attribute) and obj_name(t.value):
                            add(t.value.id)
                elif isinstance(n, ast.Call) and isinstance(n.func, ast.Attribute):
                    v = n.func.value
                    if obj_name(v):
                        add(v.id)
                    elif isinstance(v, ast.Attribute) and obj_name(v.value):
                        add(v.value.id)
                    elif isinstance(v, ast.Name) and n.func.attr == "append":
                        add(v.id)
        return [n for n in out if n in self.env]

    def lean_var(self, n):
        return "self_" if n == "self" else ident(n)

    def tuple_of(self, names):
        if not names:
            return "()"
        if len(names) == 1:
            return self.lean_var(names[0])
        return "(" + ", ".join(self.lean_var(n) for n in names) + ")"

    def terminates(self, stmts):
        if not stmts:
            return False
        last = stmts[-1]
        if isinstance(last, (ast.Return, ast.Raise)):
            return True
        if isinstance(last, ast.If) and last.orelse:
            return self.terminates(last.body) and self.terminates(last.orelse)
        return False

    def ret(self, ind, value_code):
        if self.selfkind == "hsself":
            self.emit(ind, "pure %s" % value_code)
        elif self.result is None:
            self.emit(ind, "pure self_")
        else:
            self.emit(ind, "pure (%s, self_)" % value_code)

    def declare_locals(self, stmts):
        """kinds of list variables that start as `[]` (from how they are appended to)"""
        kinds = {}
        for s in stmts:
            for n in ast.walk(s):
                if isinstance(n, ast.Call) and isinstance(n.func, ast.Attribute) and n.func.attr == "append" \
                        and isinstance(n.func.value, ast.Name) and len(n.args) == 1:
                    a = n.args[0]
                    kinds[n.func.value.id] = "tuplelist" if (isinstance(a, ast.Call) and isinstance(a.func, ast.Name)
                                                             and a.func.id == "tuple") else "intlist"
        return kinds

    def block(self, stmts, ind, is_tail):
        """translate statements; is_tail: falling off the end returns from the method"""
        i = 0
        while i < len(stmts):
            s = stmts[i]
            rest = stmts[i + 1:]
            if isinstance(s, ast.Expr) and isinstance(s.value, ast.Constant) and isinstance(s.value.value, str):
                i += 1
                continue                       # docstring
            if isinstance(s, ast.Return):
                if s.value is None:
                    self.ret(ind, "()")
                else:
                    c, k = self.expr(s.value, ind, self.result)
                    self.ret(ind, c)
                return True
            if isinstance(s, ast.Raise):
                self.emit(ind, self.raise_code(s))
                return True
            if isinstance(s, ast.If):
                if self.if_stmt(s, ind, rest, is_tail):
                    return True               # the if consumed the rest of the block
                i += 1
                continue
            self.simple(s, ind)
            i += 1
        if is_tail:
            self.ret(ind, "()")
            return True
        return False

    def raise_code(self, s):
        exc = s.exc
        name = exc.func.id if isinstance(exc, ast.Call) and isinstance(exc.func, ast.Name) else (exc.id if isinstance(exc, ast.Name) else None)
        if name in EXC and (name != "DecodeError" or self.tr.names.get("DecodeError") == "local"):
            return "PyO.raise .%s" % EXC[name]
        self.notes.append("line %d: raise of %s" % (s.lineno, name))
        return "PyO.poison"

    def if_stmt(self, s, ind, rest, is_tail):
        c, _ = self.expr(s.test, ind, "bool")
        body_term = self.terminates(s.body)
        else_term = self.terminates(s.orelse) if s.orelse else False
        if not is_tail and not s.orelse and len(s.body) == 1 and isinstance(s.body[0], ast.Raise):
            # if c: raise E   inside a block that continues afterwards
            self.emit(ind, "let _ ← (if %s then (%s : PyO.M Unit) else pure ())" % (c, self.raise_code(s.body[0])))
            return False
        if body_term and not s.orelse:
            # if c: raise/return   -> early exit, the rest continues in the else branch
            self.emit(ind, "if %s then (do" % c)
            self.block(s.body, ind + 2, is_tail)
            self.emit(ind, "  ) else do")
            done = self.block(rest, ind, is_tail)
            if not done:
                raise Poison("early exit in a non-tail block")
            return True
        if body_term and else_term:
            self.emit(ind, "if %s then (do" % c)
            self.block(s.body, ind + 2, is_tail)
            self.emit(ind, "  ) else (do")
            self.block(s.orelse, ind + 2, is_tail)
            self.emit(ind, "  )")
            return True
        if body_term or else_term:
            raise Poison("if with one terminating branch and an else")
        names = self.assigned(s.body + s.orelse)
        tup = self.tuple_of(names)
        self.emit(ind, "let %s ← (if %s then (do" % (tup, c))
        self.block(s.body, ind + 2, False)
        self.emit(ind + 2, "pure %s" % tup)
        self.emit(ind, "  ) else (do")
        self.block(s.orelse, ind + 2, False)
        self.emit(ind + 2, "pure %s" % tup)
        self.emit(ind, "  ) : PyO.M _)")
        return False

    def simple(self, s, ind):
        try:
            self._simple(s, ind)
        except Poison as p:
            self.poison_stmt(ind, s, str(p))

    def _simple(self, s, ind):
        if isinstance(s, ast.Pass):
            return
        if isinstance(s, ast.Try):
            if len(s.handlers) != 1 or s.orelse or s.finalbody:
                raise Poison("try shape")
            h = s.handlers[0]
            kind = None
            if isinstance(h.type, ast.Attribute) and isinstance(h.type.value, ast.Name) and h.type.value.id == "struct" \
                    and h.type.attr == "error" and self.tr.names.get("struct") == "module":
                kind = "structError"
            elif isinstance(h.type, ast.Name) and h.type.id == "OverflowError":
                kind = "overflowError"
            if kind is None or h.name is not None or len(h.body) != 1 or not isinstance(h.body[0], ast.Raise):
                raise Poison("except clause")
            names = self.assigned(s.body)
            tup = self.tuple_of(names)
            self.emit(ind, "let %s ← PyO.tryExcept (do" % tup)
            self.block(s.body, ind + 2, False)
            self.emit(ind + 2, "pure %s" % tup)
            self.emit(ind, "  ) .%s (%s)" % (kind, self.raise_code(h.body[0])))
            return
        if isinstance(s, ast.For):
            if s.orelse or not isinstance(s.target, ast.Name):
                raise Poison("for shape")
            it = s.iter
            if isinstance(it, ast.Call) and isinstance(it.func, ast.Name) and it.func.id == "range" and len(it.args) == 1 \
                    and "range" not in self.env:
                n, _ = self.expr(it.args[0], ind, "int")
                seq, ek = "(PyO.range %s)" % n, "int"
            else:
                seq, k = self.expr(it, ind)
                ek = {"intlist": "int", "tuplelist": "intlist"}.get(k)
                if ek is None:
                    raise Poison("iteration over %s" % k)
            names = self.assigned(s.body)
            if s.target.id in names:
                raise Poison("loop variable assigned")
            tup = self.tuple_of(names)
            lv = "_" if s.target.id == "_" else ident(s.target.id)
            old = self.env.get(s.target.id)
            if s.target.id != "_":
                self.env[s.target.id] = ek
            self.emit(ind, "let %s ← PyO.forM %s %s (fun %s st => do" % (tup, seq, tup, lv))
            self.emit(ind + 2, "let %s := st" % tup)
            self.block(s.body, ind + 2, False)
            self.emit(ind + 2, "pure %s)" % tup)
            if s.target.id != "_":
                if old is None:
                    del self.env[s.target.id]
                else:
                    self.env[s.target.id] = old
            return
        if isinstance(s, ast.Assign) and len(s.targets) == 1:
            t = s.targets[0]
            if isinstance(t, ast.Name):
                if isinstance(s.value, ast.List) and not s.value.elts:
                    k = self.locals_kind.get(t.id)
                    if k is None:
                        raise Poison("empty list of unknown element type")
                    self.env[t.id] = k
                    self.emit(ind, "let %s : %s := []" % (ident(t.id), TYPES[k]))
                    return
                c, k = self.expr(s.value, ind)
                if k == "unit":
                    raise Poison("value of a procedure")
                if t.id in self.env and self.env[t.id] != k:
                    raise Poison("variable changes kind")
                self.env[t.id] = k
                self.emit(ind, "let %s : %s := %s" % (ident(t.id), TYPES[k], c))
                return
            if isinstance(t, ast.Attribute):
                var, kind = self.obj_of(t.value)
                if var is not None and t.attr in ATTRS[kind]:
                    c, _ = self.expr(s.value, ind, ATTRS[kind][t.attr])
                    self.emit(ind, "let %s : %s := { %s with %s := %s }" % (var, TYPES[kind], var, t.attr, c))
                    return
            if isinstance(t, ast.Subscript) and isinstance(t.value, ast.Name) and self.env.get(t.value.id) == "intlist":
                i, _ = self.expr(t.slice, ind, "int")
                c, _ = self.expr(s.value, ind, "int")
                self.emit(ind, "let %s ← PyO.listSet %s %s %s" % (ident(t.value.id), ident(t.value.id), i, c))
                return
            raise Poison("assignment target")
        if isinstance(s, ast.AugAssign) and isinstance(s.op, ast.Add):
            t = s.target
            if isinstance(t, ast.Attribute):
                var, kind = self.obj_of(t.value)
                if var is not None and t.attr in ATTRS[kind]:
                    k = ATTRS[kind][t.attr]
                    c, _ = self.expr(s.value, ind, k)
                    op = "++" if k == "bytes" else "+"
                    self.emit(ind, "let %s : %s := { %s with %s := %s.%s %s %s }" % (var, TYPES[kind], var, t.attr, var, t.attr, op, c))
                    return
            if isinstance(t, ast.Name) and self.env.get(t.id) == "int":
                c, _ = self.expr(s.value, ind, "int")
                self.emit(ind, "let %s : Int := %s + %s" % (ident(t.id), ident(t.id), c))
                return
            raise Poison("augmented assignment")
        if isinstance(s, ast.Expr) and isinstance(s.value, ast.Call) and isinstance(s.value.func, ast.Attribute):
            call = s.value
            f = call.func
            # obj.bytes.append(v) / obj.bytes.extend(seq)
            if isinstance(f.value, ast.Attribute) and f.value.attr == "bytes" and not call.keywords and len(call.args) == 1:
                var, kind = self.obj_of(f.value.value)
                if var is not None:
                    if f.attr == "append":
                        c, _ = self.expr(call.args[0], ind, "int")
                        self.emit(ind, "let %s : %s := { %s with bytes := (← PyO.appendByte %s.bytes %s) }" % (var, TYPES[kind], var, var, c))
                        return
                    if f.attr == "extend":
                        c, _ = self.expr(call.args[0], ind, "intlist")
                        self.emit(ind, "let %s : %s := { %s with bytes := (← PyO.extendInts %s.bytes %s) }" % (var, TYPES[kind], var, var, c))
                        return
            # l.append(v)
            if isinstance(f.value, ast.Name) and f.attr == "append" and self.env.get(f.value.id) in ("intlist", "tuplelist") \
                    and len(call.args) == 1 and not call.keywords:
                ek = "int" if self.env[f.value.id] == "intlist" else "intlist"
                c, _ = self.expr(call.args[0], ind, ek)
                self.emit(ind, "let %s : %s := %s ++ [%s]" % (ident(f.value.id), TYPES[self.env[f.value.id]], ident(f.value.id), c))
                return
            # obj.m(args) as a statement
            var, kind = self.obj_of(f.value)
            if var is not None:
                self.method_call(var, kind, f.attr, call.args, ind, call)
                return
        raise Poison("statement %s" % type(s).__name__)

    def render(self):
        sig = "".join(" (%s : %s)" % (ident(p), TYPES[k]) for p, k in self.params)
        if self.selfkind == "hsself":
            head = "def %s_%s (handshakeType : Int)%s : PyO.M %s := do" % (self.cls, self.name, sig, TYPES[self.result])
        else:
            rt = TYPES[self.selfkind] if self.result is None else "(%s × %s)" % (TYPES[self.result], TYPES[self.selfkind])
            head = "def %s_%s (self_ : %s)%s : PyO.M %s := do" % (self.cls, self.name, TYPES[self.selfkind], sig, rt)
        self.env = {"self": self.selfkind}
        for p, k in self.params:
            self.env[p] = k
        self.locals_kind = self.declare_locals(self.node.body)
        try:
            done = self.block(self.node.body, 1, True)
        except Poison as p:
            self.notes.append(str(p))
            self.lines = ["  PyO.poison  -- %s" % p]
        return head, self.lines


class Translator(object):
    def __init__(self, repo):
        self.repo = repo
        self.sigs = {}
        self.names = {}

    def resolve_class_body(self, body):
        """class body with `if sys.version_info <op> (a, b):` alternatives resolved for this interpreter"""
        out = []
        for s in body:
            if isinstance(s, ast.If):
                t = s.test
                ok = None
                if isinstance(t, ast.Compare) and len(t.ops) == 1 and isinstance(t.left, ast.Attribute) \
                        and isinstance(t.left.value, ast.Name) and t.left.value.id == "sys" and t.left.attr == "version_info" \
                        and isinstance(t.comparators[0], ast.Tuple) and all(isinstance(x, ast.Constant) and type(x.value) is int
                                                                           for x in t.comparators[0].elts) \
                        and self.names.get("sys") == "module":
                    ver = tuple(x.value for x in t.comparators[0].elts)
                    cur = tuple(sys.version_info[:len(ver)])
                    op = type(t.ops[0])
                    ok = {ast.Lt: cur < ver, ast.LtE: cur <= ver, ast.Gt: cur > ver, ast.GtE: cur >= ver}.get(op)
                if ok is None:
                    out.append(None)          # unknown class-level condition: poisons every method
                    continue
                out += self.resolve_class_body(s.body if ok else s.orelse)
            else:
                out.append(s)
        return out

    def module_names(self, tree, fname):
        """what the top-level names the translation relies on are bound to"""
        names = {}
        for s in tree.body:
            if isinstance(s, ast.Import):
                for a in s.names:
                    names[a.asname or a.name] = "module"
            elif isinstance(s, ast.ImportFrom):
                for a in s.names:
                    if s.module == "struct" and a.name == "pack":
                        names[a.asname or a.name] = "struct"
                    elif s.module in ("compat", "utils.compat") and a.name == "bytes_to_int":
                        names[a.asname or a.name] = "compat"
                    else:
                        names[a.asname or a.name] = "import:%s" % s.module
            elif isinstance(s, ast.ClassDef):
                if s.name == "DecodeError" and any(isinstance(b, ast.Name) and b.id == "SyntaxError" for b in s.bases):
                    names[s.name] = "local"
                else:
                    names[s.name] = "class"
            elif isinstance(s, (ast.FunctionDef, ast.Assign)):
                for n in ([s.name] if isinstance(s, ast.FunctionDef) else [t.id for t in s.targets if isinstance(t, ast.Name)]):
                    names[n] = "rebound"
        return names

    def generate(self):
        out = ["/- GENERATED by translate/gen_codec.py from tlslite/utils/codec.py and tlslite/messages.py of the tree under check;",
               "   do not edit.  Statement-by-statement translation into the Python-runtime model TlsModel/PyInt.lean +",
               "   TlsModel/PyObj.lean; `PyO.poison` marks what the translator did not understand. -/",
               "import TlsModel.PyObj", "set_option linter.unusedVariables false", "namespace Tls.Codec.Gen", "open Tls", ""]
        trees = {}
        for fname in (CODEC, MESSAGES):
            with open(os.path.join(self.repo, fname)) as f:
                trees[fname] = ast.parse(f.read())
        for (fname, cls, meth, params, result, selfkind) in EXPECT:
            if selfkind != "hsself":
                self.sigs[(cls, meth)] = (params, result)
        notes_all = []
        for (fname, cls, meth, params, result, selfkind) in EXPECT:
            tree = trees[fname]
            self.names = self.module_names(tree, fname)
            if fname == MESSAGES:
                # `from .utils.codec import *` must be what brings Writer in
                star = any(isinstance(s, ast.ImportFrom) and s.module in ("utils.codec",) and any(a.name == "*" for a in s.names)
                           for s in tree.body)
                if not star or "Writer" in self.names:
                    self.names["Writer"] = "rebound"
            node = None
            poisoned = None
            for s in tree.body:
                if isinstance(s, ast.ClassDef) and s.name == cls:
                    body = self.resolve_class_body(s.body)
                    if any(b is None for b in body):
                        poisoned = "class-level condition not understood"
                    defs = [b for b in body if isinstance(b, ast.FunctionDef) and b.name == meth]
                    if len(defs) == 1:
                        node = defs[0]
                    elif len(defs) > 1:
                        poisoned = "method defined more than once"
            fn = Fn(self, cls, meth, params, result, selfkind, node)
            if node is not None and poisoned is None:
                argn = [a.arg for a in node.args.args]
                if argn != ["self"] + [p for p, _ in params] or node.args.vararg or node.args.kwarg or node.args.defaults \
                        or node.args.kwonlyargs or node.decorator_list:
                    poisoned = "signature is %s" % argn
            if fname == MESSAGES and self.names.get("Writer") == "rebound":
                poisoned = poisoned or "Writer is not the codec Writer"
            if node is None or poisoned is not None:
                head, lines = fn.render() if node is not None else (None, None)
                sig = "".join(" (%s : %s)" % (ident(p), TYPES[k]) for p, k in params)
                if selfkind == "hsself":
                    head = "def %s_%s (handshakeType : Int)%s : PyO.M %s := do" % (cls, meth, sig, TYPES[result])
                else:
                    rt = TYPES[selfkind] if result is None else "(%s × %s)" % (TYPES[result], TYPES[selfkind])
                    head = "def %s_%s (self_ : %s)%s : PyO.M %s := do" % (cls, meth, TYPES[selfkind], sig, rt)
                lines = ["  PyO.poison  -- %s" % (poisoned or "method not found")]
                notes_all.append("%s.%s: %s" % (cls, meth, poisoned or "method not found"))
            else:
                head, lines = fn.render()
                if fn.notes:
                    # one construct not understood poisons the whole method (a partial translation could
                    # neither be trusted nor be relied on to type-check)
                    lines = ["  PyO.poison  -- " + "; ".join(fn.notes)[:300].replace("\n", " ")]
                notes_all += ["%s.%s: %s" % (cls, meth, n) for n in fn.notes]
            out.append("/-- `%s.%s` (%s line %s) -/" % (cls, meth, fname, getattr(node, "lineno", "?")))
            out.append(head)
            out += lines
            out.append("")
        out.append("/-- constructs the translator did not understand (each is a `PyO.poison` above) -/")
        out.append("def poisonNotes : List String := [%s]" % ", ".join('"%s"' % n.replace("\\", "\\\\").replace('"', "'") for n in notes_all))
        out.append("")
        out.append("end Tls.Codec.Gen")
        return "\n".join(out) + "\n", notes_all


def generate(repo):
    text, _ = Translator(repo).generate()
    return {"TlsModel/Gen/Codec.lean": text}
