"""tlslite constants/handshakesettings -> lean/TlsModel/Gen/Negotiate.lean  (tables used by C03's model)

Read from the *running* modules of the tree under check (subprocess with PYTHONPATH=<repo>):

  suite classification lists of CipherSuite (exactly the ones _filterSuites / filterForVersion /
  filter_for_certificate / the handshake code consult), ietfNames
  suiteSem       registered meaning of every named suite parsed from its IETF name, independently of
                 the classification lists: (id, cipherName, macName, keyExchangeName) in the vocabulary
                 of HandshakeSettings ('aead' for AEAD suites, 'tls13' key exchange for TLS 1.3 suites)
  macTable / cipherTable / kexTable   the (settingsName, needs TLS1.2, list) rows of _filterSuites in
                 source order, extracted from the AST of _filterSuites
  groupIds       GroupName ids of every curve / FFDHE group name HandshakeSettings knows
  sigSchemes     SignatureScheme name -> (hash, sig) ; HashAlgorithm / SignatureAlgorithm ids
  defaults       the default name lists of HandshakeSettings

If something cannot be read or classified the table gets a poison entry (suite 0xFFFFFF, name "?")
so that the dependent obligations become false; nothing is guessed.
"""
import ast
import json
import os
import subprocess

from . import lean_str, lean_list

PY = "/venv/bin/python"
POISON = 0xFFFFFF

LISTS = ["tripleDESSuites", "aes128Suites", "aes256Suites", "rc4Suites", "nullSuites",
         "aes128GcmSuites", "aes256GcmSuites", "aes128CcmSuites", "aes128Ccm_8Suites",
         "aes256CcmSuites", "aes256Ccm_8Suites", "chacha20Suites", "chacha20draft00Suites",
         "shaSuites", "sha256Suites", "sha384Suites", "md5Suites", "aeadSuites", "streamSuites",
         "sha384PrfSuites", "sha256PrfSuites", "ssl3Suites", "tls12Suites", "tls13Suites",
         "srpSuites", "srpCertSuites", "srpAllSuites", "certSuites", "certAllSuites",
         "dheCertSuites", "ecdheCertSuites", "ecdheEcdsaSuites", "dheDsaSuites", "dhAllSuites",
         "ecdhAllSuites", "anonSuites", "ecdhAnonSuites"]

PROBE = r'''
import json, sys
from tlslite.constants import CipherSuite as C, GroupName, SignatureScheme, HashAlgorithm, \
    SignatureAlgorithm, TLS_1_3_FORBIDDEN_GROUPS
from tlslite import handshakesettings as hs
from tlslite.mathtls import goodGroupParameters, RFC7919_GROUPS
from tlslite.utils.cryptomath import numBits
out = {"problems": []}
out["ietfNames"] = sorted([k, v] for k, v in C.ietfNames.items())
lists = {}
for a in LISTS:
    v = getattr(C, a, None)
    if isinstance(v, (list, tuple)) and all(isinstance(x, int) for x in v):
        lists[a] = list(v)
    else:
        out["problems"].append("CipherSuite.%s missing" % a)
out["lists"] = lists
names = {}
for n in ("CIPHER_NAMES", "ALL_CIPHER_NAMES", "MAC_NAMES", "ALL_MAC_NAMES", "KEY_EXCHANGE_NAMES",
          "CURVE_NAMES", "ALL_CURVE_NAMES", "ALL_DH_GROUP_NAMES", "RSA_SIGNATURE_HASHES",
          "ALL_RSA_SIGNATURE_HASHES", "DSA_SIGNATURE_HASHES", "ECDSA_SIGNATURE_HASHES",
          "SIGNATURE_SCHEMES", "RSA_SCHEMES", "TLS13_PERMITTED_GROUPS", "PSK_MODES"):
    v = getattr(hs, n, None)
    if not isinstance(v, list):
        out["problems"].append("handshakesettings.%s missing" % n)
        v = []
    names[n] = list(v)
out["names"] = names
gids = []
for n in names["ALL_CURVE_NAMES"] + names["ALL_DH_GROUP_NAMES"]:
    g = getattr(GroupName, n, None)
    if isinstance(g, int):
        gids.append([n, g])
    else:
        out["problems"].append("GroupName.%s missing" % n)
out["groupIds"] = gids
out["allKEM"] = list(GroupName.allKEM)
out["allFF"] = list(GroupName.allFF)
out["forbidden13"] = sorted(TLS_1_3_FORBIDDEN_GROUPS)
ss = []
for a in sorted(vars(SignatureScheme)):
    v = vars(SignatureScheme)[a]
    if isinstance(v, tuple) and len(v) == 2 and all(isinstance(x, int) for x in v):
        ss.append([a, v[0], v[1]])
out["sigSchemes"] = ss
out["hashIds"] = sorted([a, getattr(HashAlgorithm, a)] for a in ("md5", "sha1", "sha224", "sha256", "sha384", "sha512", "intrinsic") if isinstance(getattr(HashAlgorithm, a, None), int))
out["sigIds"] = sorted([a, getattr(SignatureAlgorithm, a)] for a in ("rsa", "dsa", "ecdsa", "ed25519", "ed448") if isinstance(getattr(SignatureAlgorithm, a, None), int))
out["ffBits"] = [[256 + i, numBits(p)] for i, (g, p) in enumerate(RFC7919_GROUPS)]
out["defaultDhBits"] = numBits(goodGroupParameters[2][1])
out["srpGroupBits"] = [numBits(n) for g, n in goodGroupParameters]
d = hs.HandshakeSettings()
out["defaults"] = {"minVersion": list(d.minVersion), "maxVersion": list(d.maxVersion),
                   "versions": [list(v) for v in d.versions], "keyShares": list(d.keyShares),
                   "minKeySize": d.minKeySize, "maxKeySize": d.maxKeySize,
                   "defaultCurve": d.defaultCurve, "record_size_limit": d.record_size_limit}
json.dump(out, sys.stdout)
'''.replace("LISTS", repr(LISTS))


def probe(repo):
    env = dict(os.environ)
    env["PYTHONPATH"] = repo
    env.pop("PYTHONSTARTUP", None)
    try:
        p = subprocess.run([PY, "-c", PROBE], cwd="/tmp", env=env, stdout=subprocess.PIPE,
                           stderr=subprocess.PIPE, universal_newlines=True, timeout=120)
    except Exception as e:  # pragma: no cover
        return None, "probe did not run: %r" % (e,)
    if p.returncode != 0:
        return None, "probe failed: " + p.stderr.strip().split("\n")[-1][:300]
    try:
        return json.loads(p.stdout), None
    except ValueError:
        return None, "probe output is not JSON"


# ---- registered meaning of a suite from its IETF name (independent of the classification lists)
KEX = {"RSA": "rsa", "DHE_RSA": "dhe_rsa", "DHE_DSS": "dhe_dsa", "ECDHE_RSA": "ecdhe_rsa",
       "ECDHE_ECDSA": "ecdhe_ecdsa", "SRP_SHA": "srp_sha", "SRP_SHA_RSA": "srp_sha_rsa",
       "DH_ANON": "dh_anon", "ECDH_ANON": "ecdh_anon"}
CIPH = [("AES_128_GCM", "aes128gcm", True), ("AES_256_GCM", "aes256gcm", True),
        ("AES_128_CCM_8", "aes128ccm_8", True), ("AES_256_CCM_8", "aes256ccm_8", True),
        ("AES_128_CCM", "aes128ccm", True), ("AES_256_CCM", "aes256ccm", True),
        ("CHACHA20_POLY1305_draft_00", "chacha20-poly1305_draft00", True),
        ("CHACHA20_POLY1305", "chacha20-poly1305", True),
        ("AES_128_CBC", "aes128", False), ("AES_256_CBC", "aes256", False),
        ("3DES_EDE_CBC", "3des", False), ("RC4_128", "rc4", False), ("NULL", "null", False)]
MACS = {"SHA": "sha", "SHA256": "sha256", "SHA384": "sha384", "MD5": "md5"}


def parse_name(name):
    """-> (cipher, mac, kex) or None"""
    if not name.startswith("TLS_"):
        return None
    body = name[4:]
    if "_WITH_" in body:
        k, c = body.split("_WITH_", 1)
        kex = KEX.get(k, "unsupported:" + k.lower())
    else:
        kex, c = "tls13", body
    for pat, cname, aead in CIPH:
        if c.startswith(pat):
            rest = c[len(pat):]
            if aead:
                # the trailing hash of an AEAD suite names the PRF, not a MAC
                if rest in ("", "_SHA256", "_SHA384"):
                    return cname, "aead", kex
                return None
            if rest.startswith("_") and rest[1:] in MACS:
                return cname, MACS[rest[1:]], kex
            return None
    return None


# ---- rows of _filterSuites from its AST: `if "<name>" in <xNames> [and version >= (3, 3)]: <acc> += CipherSuite.<list>`
def filter_rows(repo):
    """-> {"macSuites": [(name, needs12, list)], "cipherSuites": [...], "keyExchangeSuites": [...]}, problems"""
    problems = []
    rows = {"macSuites": [], "cipherSuites": [], "keyExchangeSuites": []}
    try:
        src = open(os.path.join(repo, "tlslite", "constants.py")).read()
        tree = ast.parse(src)
    except Exception as e:
        return rows, ["cannot parse constants.py: %r" % (e,)]
    fn = None
    for n in ast.walk(tree):
        if isinstance(n, ast.FunctionDef) and n.name == "_filterSuites":
            fn = n
    if fn is None:
        return rows, ["_filterSuites not found"]
    var_of = {"macNames": "macSuites", "cipherNames": "cipherSuites", "keyExchangeNames": "keyExchangeSuites"}

    def cond(t):
        """-> (kind, name, minver) ; kind 'name' for `"x" in fooNames`, 'ver' for version-only"""
        parts = t.values if isinstance(t, ast.BoolOp) and isinstance(t.op, ast.And) else [t]
        name, minver, var = None, 0, None
        for p in parts:
            if not (isinstance(p, ast.Compare) and len(p.ops) == 1):
                return None
            if isinstance(p.ops[0], ast.In) and isinstance(p.left, ast.Constant) and isinstance(p.comparators[0], ast.Name):
                name, var = p.left.value, p.comparators[0].id
            elif isinstance(p.ops[0], ast.GtE) and isinstance(p.left, ast.Name) and p.left.id == "version" \
                    and isinstance(p.comparators[0], ast.Tuple):
                t2 = [e.value for e in p.comparators[0].elts]
                if len(t2) != 2 or t2[0] != 3:
                    return None
                minver = t2[1]
            else:
                return None
        return name, minver, var

    ret_ok = False
    for st in fn.body:
        if isinstance(st, ast.If) and isinstance(st.test, ast.Compare) and isinstance(st.test.ops[0], ast.Is) \
                and isinstance(st.test.left, ast.Name) and st.test.left.id == "version":
            # `if version is None: version = settings.maxVersion` (the model takes the version explicitly)
            ok = len(st.body) == 1 and isinstance(st.body[0], ast.Assign) and not st.orelse and \
                isinstance(st.body[0].value, ast.Attribute) and st.body[0].value.attr == "maxVersion"
            if not ok:
                problems.append("_filterSuites: default version is not settings.maxVersion")
            continue
        if isinstance(st, ast.If):
            c = cond(st.test)
            ok = c is not None and not st.orelse and len(st.body) == 1 and isinstance(st.body[0], ast.AugAssign) \
                and isinstance(st.body[0].op, ast.Add) and isinstance(st.body[0].target, ast.Name) \
                and isinstance(st.body[0].value, ast.Attribute) and isinstance(st.body[0].value.value, ast.Name) \
                and st.body[0].value.value.id == "CipherSuite"
            if not ok:
                problems.append("_filterSuites: statement at line %d not understood" % st.lineno)
                continue
            name, minver, var = c
            acc = st.body[0].target.id
            lst = st.body[0].value.attr
            if name is None:
                if acc != "keyExchangeSuites":
                    problems.append("_filterSuites: unconditional row for %s" % acc)
                    continue
                rows[acc].append(("tls13", minver, lst))
            else:
                if var_of.get(var) != acc:
                    problems.append("_filterSuites: line %d mixes %s and %s" % (st.lineno, var, acc))
                    continue
                rows[acc].append((name, minver, lst))
        elif isinstance(st, ast.Return):
            # return [s for s in suites if s in macSuites and s in cipherSuites and s in keyExchangeSuites]
            v = st.value
            try:
                names = sorted(c.comparators[0].id for c in v.generators[0].ifs[0].values)
                ret_ok = names == ["cipherSuites", "keyExchangeSuites", "macSuites"] and \
                    isinstance(v.elt, ast.Name) and v.generators[0].iter.id == "suites"
            except Exception:
                ret_ok = False
    if not ret_ok:
        problems.append("_filterSuites: return expression not the expected three-way membership filter")
    for k in rows:
        if not rows[k]:
            problems.append("_filterSuites: no rows for " + k)
    return rows, problems


def nats(xs):
    return lean_list(xs, lambda x: "0x%04x" % x)


def strs(xs):
    return lean_list(xs, lean_str)


def generate(repo):
    data, err = probe(repo)
    problems = []
    if data is None:
        problems.append(err)
        data = {"ietfNames": [], "lists": {}, "names": {}, "groupIds": [], "allKEM": [], "allFF": [],
                "forbidden13": [], "sigSchemes": [], "hashIds": [], "sigIds": [], "ffBits": [],
                "defaultDhBits": 0, "srpGroupBits": [], "defaults": {}}
    problems += data.get("problems", [])
    rows, p2 = filter_rows(repo)
    problems += p2
    lists = dict(data["lists"])
    for r in LISTS:
        if r not in lists:
            lists[r] = [POISON]
    for acc in rows:
        for name, mv, lst in rows[acc]:
            if lst not in lists:
                problems.append("_filterSuites uses CipherSuite.%s which is not a known list" % lst)
                lists[lst] = [POISON]
    sem = []
    for k, v in data["ietfNames"]:
        if v.endswith("_SCSV") or v.startswith("SSL_CK_"):
            continue
        p = parse_name(v)
        if p is None:
            problems.append("cannot parse suite name " + v)
            sem.append((k, "?", "?", "?"))
        else:
            sem.append((k,) + p)
    if problems:
        sem.append((POISON, "?", "?", "?"))
        for acc in rows:
            rows[acc].append(("?", 0, "poisonList"))
        lists["poisonList"] = [POISON]
    L = []
    L.append("/- GENERATED by translate/gen_negotiate.py from tlslite/constants.py, handshakesettings.py, mathtls.py")
    L.append("   of the tree under check; do not edit. -/")
    L.append("namespace Tls.Gen.Neg")
    L.append("")
    L.append("def translatorProblems : List String := " + strs(problems))
    L.append("")
    L.append("def ietfNames : List (Nat × String) := [")
    L.append(",\n".join("  (0x%04x, %s)" % (k, lean_str(v)) for k, v in data["ietfNames"]))
    L.append("]")
    L.append("")
    for a in sorted(lists):
        L.append("def %s : List Nat := %s" % (a, nats(lists[a])))
    L.append("")
    L.append("/-- registered meaning parsed from the IETF name: (id, cipher, mac, keyExchange) -/")
    L.append("def suiteSem : List (Nat × String × String × String) := [")
    L.append(",\n".join("  (0x%04x, %s, %s, %s)" % (k, lean_str(c), lean_str(m), lean_str(x)) for k, c, m, x in sem))
    L.append("]")
    L.append("")
    for acc, nm in (("macSuites", "macTable"), ("cipherSuites", "cipherTable"), ("keyExchangeSuites", "kexTable")):
        L.append("/-- rows of _filterSuites building `%s`: (settings name, least minor version, list) -/" % acc)
        L.append("def %s : List (String × Nat × List Nat) := [" % nm)
        L.append(",\n".join("  (%s, %d, %s)" % (lean_str(n), mv, lst) for n, mv, lst in rows[acc]))
        L.append("]")
        L.append("")
    L.append("def groupIds : List (String × Nat) := " + lean_list(data["groupIds"], lambda p: "(%s, %d)" % (lean_str(p[0]), p[1])))
    L.append("def allKEM : List Nat := " + lean_list(data["allKEM"]))
    L.append("def allFF : List Nat := " + lean_list(data["allFF"]))
    L.append("def forbidden13 : List Nat := " + lean_list(data["forbidden13"]))
    L.append("/-- RFC 7919 group id -> size in bits of its prime -/")
    L.append("def ffBits : List (Nat × Nat) := " + lean_list(data["ffBits"], lambda p: "(%d, %d)" % (p[0], p[1])))
    L.append("def defaultDhBits : Nat := %d" % data["defaultDhBits"])
    L.append("def srpGroupBits : List Nat := " + lean_list(data["srpGroupBits"]))
    L.append("")
    L.append("/-- SignatureScheme attributes: name -> hash * 256 + sig -/")
    L.append("def sigSchemes : List (String × Nat) := [")
    L.append(",\n".join("  (%s, %d)" % (lean_str(a), h * 256 + s) for a, h, s in data["sigSchemes"]))
    L.append("]")
    L.append("def hashIds : List (String × Nat) := " + lean_list(data["hashIds"], lambda p: "(%s, %d)" % (lean_str(p[0]), p[1])))
    L.append("def sigIds : List (String × Nat) := " + lean_list(data["sigIds"], lambda p: "(%s, %d)" % (lean_str(p[0]), p[1])))
    L.append("")
    for n, v in sorted(data["names"].items()):
        L.append("def %s : List String := %s" % ("names_" + n, strs(v)))
    L.append("")
    L.append("end Tls.Gen.Neg")
    L.append("")
    return {"TlsModel/Gen/Negotiate.lean": "\n".join(L)}


def tables(repo):
    """the probe output for the harness (group ids, scheme ids, defaults)"""
    data, err = probe(repo)
    if data is None:
        raise RuntimeError(err)
    return data
