"""tlslite/recordlayer.py, tlslite/tlsrecordlayer.py (+ utils/cipherfactory.py …) -> lean/TlsModel/Gen/Record.lean

Tie by regeneration for C01 / C02: what the record layer's source SAYS NOW, read from the Python AST of
the tree under check and written down as plain Lean data (`Tls.Gen.Record`).  The hand-written side
(lean/TlsModel/RecordTie.lean) interprets that data and Props/C01.lean / Props/C02.lean prove (mostly
by kernel evaluation) that it is the record-layer model the theorems are about, so that an edit of
the source breaks an obligation before any search runs.

Extracted (every item is an `ast.unparse`-normalised reading of specific statements; expressions are
kept as text and classified on the Lean side by a closed table — an unknown text is unknown there):
  cipherTable     _getCipherSettings: suite list -> key length, IV length, constructor
  tagTable        constructor -> AEAD tag length (utils/cipherfactory.py python branch, python_*.new
                  defaults, `self.tagLength = …` of the class)
  macTable        _getMacSettings: suite list -> MAC length, digest
  hmacTable       _getHMACMethod: version -> MAC constructor
  keyBlock        calcPendingStates: output length expression, the order of the `getFixBytes` slices
                  with their length variable, which slice keys which state field, and which state becomes
                  the write / read state for client and server
  tls13States     calcTLS1_3PendingState: secret, label and length variable of key and IV per side, the
                  `iv_length` constant, the role assignment
  keyUpdate       _calcTLS1_3KeyUpdate: label / source / length of the new secret, what key and IV are
                  derived from, fresh ConnectionState (sequence number 0), the returned tuple;
                  calcTLS1_3KeyUpdate_sender / _reciever: per role which secret is ratcheted, which
                  state is replaced, the returned pair
  sendWrap, sendDispatch, recvDispatch, recvSsl2Guard, recvEarly
                  the conditions, in order, under which sendRecord / recvRecord take each path
  seqUse          per protect / unprotect function: on which state getSeqNumBytes() is called and under
                  which enclosing conditions; getSeqNumBytes itself (width, increment)
  macFields, aadSend12, aadSend13, aadRecv12, aadRecv13, nonce*
                  field order of calculateMAC, of the additional data, of the nonce constructions
  fragmentation   _sendMsg: split condition, loop test, the two slices; the recordSize property
  sizeChecks      RecordSocket.recv and recvRecord: every `len > limit + allowance` test with its exception
Anything that does not have the expected statement shape is emitted as the string "POISON:<why>" (or a
row containing it), which no table on the Lean side accepts.
"""
import ast
import os

from . import lean_str

OUT = "TlsModel/Gen/Record.lean"
RL = "tlslite/recordlayer.py"
TRL = "tlslite/tlsrecordlayer.py"


def P(why):
    return "POISON:" + why


def up(node):
    """normalised source text of an expression / statement (whitespace and parentheses canonical)"""
    try:
        return " ".join(ast.unparse(node).split())
    except Exception:  # noqa: B902
        return P("unparse")


def find_class(tree, name):
    for n in tree.body:
        if isinstance(n, ast.ClassDef) and n.name == name:
            return n
    return None


def find_func(scope, name, prop=None):
    """function `name` in a class / module body; prop='getter' selects the @property one"""
    for n in (scope.body if scope is not None else []):
        if isinstance(n, ast.FunctionDef) and n.name == name:
            decs = [up(d) for d in n.decorator_list]
            if prop == "getter" and "property" not in decs:
                continue
            if prop is None and any(d.endswith(".setter") for d in decs):
                continue
            return n
    return None


def body_wo_doc(fn):
    b = list(fn.body)
    if b and isinstance(b[0], ast.Expr) and isinstance(getattr(b[0], "value", None), ast.Constant) \
            and isinstance(b[0].value.value, str):
        b = b[1:]
    return b


def if_chain(node):
    """[(test text | 'else', body statements)] of an if / elif / else chain"""
    out = []
    while True:
        out.append((up(node.test), node.body))
        if len(node.orelse) == 1 and isinstance(node.orelse[0], ast.If):
            node = node.orelse[0]
            continue
        if node.orelse:
            out.append(("else", node.orelse))
        return out


def assigns(stmts):
    """{target text: value node} of the simple assignments of a block; None if anything else occurs"""
    d = {}
    for s in stmts:
        if isinstance(s, ast.Assign) and len(s.targets) == 1:
            d[up(s.targets[0])] = s.value
        else:
            return None
    return d


def const_int(node):
    if isinstance(node, ast.Constant) and isinstance(node.value, int) and not isinstance(node.value, bool):
        return node.value
    return None


# ---------------------------------------------------------------------------------------------------
def cipher_table(cls):
    fn = find_func(cls, "_getCipherSettings")
    if fn is None:
        return [(P("no _getCipherSettings"), 0, 0, "")]
    b = body_wo_doc(fn)
    if len(b) != 2 or not isinstance(b[0], ast.If) or up(b[1]) != "return (keyLength, ivLength, createCipherFunc)":
        return [(P("shape"), 0, 0, "")]
    rows = []
    for test, body in if_chain(b[0]):
        if test == "else":
            if [up(s) for s in body] != ["raise AssertionError()"]:
                rows.append((P("else"), 0, 0, ""))
            continue
        pre = "cipherSuite in CipherSuite."
        a = assigns(body)
        if not test.startswith(pre) or a is None or set(a) != {"keyLength", "ivLength", "createCipherFunc"}:
            rows.append((P("row " + test), 0, 0, ""))
            continue
        k, i = const_int(a["keyLength"]), const_int(a["ivLength"])
        if k is None or i is None:
            rows.append((P("lengths " + test), 0, 0, ""))
            continue
        rows.append((test[len(pre):], k, i, up(a["createCipherFunc"])))
    return rows


def tag_table(repo, ctors):
    """constructor name -> tag length of the object it builds through the python implementation"""
    def parse(rel):
        with open(os.path.join(repo, rel)) as f:
            return ast.parse(f.read())
    res = []
    try:
        cf = parse("tlslite/utils/cipherfactory.py")
    except Exception:  # noqa: B902
        return [(c, 0, P("cipherfactory")) for c in ctors]
    class_file = {"python_aesgcm": ("tlslite/utils/aesgcm.py", "AESGCM"),
                  "python_aesccm": ("tlslite/utils/aesccm.py", "AESCCM"),
                  "python_chacha20_poly1305": ("tlslite/utils/chacha20_poly1305.py", "CHACHA20_POLY1305")}
    for c in ctors:
        fn = find_func(cf, c)
        if fn is None:
            res.append((c, 0, P("no " + c)))
            continue
        call = None
        for n in ast.walk(fn):
            if isinstance(n, ast.Return) and isinstance(n.value, ast.Call) and up(n.value.func).startswith("python_") \
                    and up(n.value.func).endswith(".new"):
                call = n.value
        if call is None:
            res.append((c, 0, P("no python branch")))
            continue
        mod = up(call.func)[:-4]
        if mod not in class_file:
            res.append((c, 0, "not-aead:" + mod))      # CBC / stream constructors: no tag
            continue
        if call.keywords or len(call.args) not in (1, 2):
            res.append((c, 0, P("call shape")))
            continue
        tag = const_int(call.args[1]) if len(call.args) == 2 else None
        if len(call.args) == 2 and tag is None:
            res.append((c, 0, P("tag arg")))
            continue
        if tag is None:
            # default of python_X.new, else the constant the class assigns
            try:
                m = parse("tlslite/utils/%s.py" % mod)
                new = find_func(m, "new")
                names = [a.arg for a in new.args.args]
                if len(names) == 2 and len(new.args.defaults) == 1:
                    tag = const_int(new.args.defaults[0])
                else:
                    rel, cname = class_file[mod]
                    init = find_func(find_class(parse(rel), cname), "__init__")
                    for s in ast.walk(init):
                        if isinstance(s, ast.Assign) and up(s.targets[0]) == "self.tagLength":
                            tag = const_int(s.value)
            except Exception:  # noqa: B902
                tag = None
        if tag is None:
            res.append((c, 0, P("tag unknown")))
        else:
            res.append((c, tag, mod))
    return res


def mac_table(cls):
    fn = find_func(cls, "_getMacSettings")
    if fn is None:
        return [(P("no _getMacSettings"), 0, "")]
    b = body_wo_doc(fn)
    if len(b) != 2 or not isinstance(b[0], ast.If) or up(b[1]) != "return (macLength, digestmod)":
        return [(P("shape"), 0, "")]
    rows = []
    for test, body in if_chain(b[0]):
        if test == "else":
            if [up(s) for s in body] != ["raise AssertionError()"]:
                rows.append((P("else"), 0, ""))
            continue
        pre = "cipherSuite in CipherSuite."
        a = assigns(body)
        if not test.startswith(pre) or a is None or set(a) != {"macLength", "digestmod"} or const_int(a["macLength"]) is None:
            rows.append((P("row " + test), 0, ""))
            continue
        rows.append((test[len(pre):], const_int(a["macLength"]), up(a["digestmod"])))
    return rows


def hmac_table(cls):
    fn = find_func(cls, "_getHMACMethod")
    if fn is None:
        return [(P("no _getHMACMethod"), "")]
    b = body_wo_doc(fn)
    rows = []
    for s in b:
        if isinstance(s, ast.Assert):
            rows.append(("assert " + up(s.test), ""))
        elif isinstance(s, ast.If):
            for test, body in if_chain(s):
                a = assigns(body)
                if a is None or set(a) != {"createMACFunc"}:
                    rows.append((P("row " + test), ""))
                else:
                    rows.append((test, up(a["createMACFunc"])))
        elif up(s) == "return createMACFunc":
            rows.append(("return", "createMACFunc"))
        else:
            rows.append((P("stmt " + up(s)[:40]), ""))
    return rows


def role_assign(stmt):
    """`if self.client: W = a; R = b  else: W = c; R = d` -> [(role, state attr, value text)]"""
    if not isinstance(stmt, ast.If) or up(stmt.test) != "self.client" or not stmt.orelse:
        return [(P("role shape"), "", "")]
    out = []
    for role, body in (("client", stmt.body), ("server", stmt.orelse)):
        for s in body:
            if isinstance(s, ast.Assign) and len(s.targets) == 1:
                out.append((role, up(s.targets[0]), up(s.value)))
            else:
                out.append((P("role stmt"), role, up(s)[:60]))
    return out


def key_block(cls):
    """calcPendingStates -> (output length text, slices, keyed fields, roles, fixed IV statement)"""
    fn = find_func(cls, "calcPendingStates")
    if fn is None:
        return P("no calcPendingStates"), [], [], [], ""
    out_len, slices, fields, roles, fixediv = P("no outputLength"), [], [], [], ""
    for s in ast.walk(fn):
        if isinstance(s, ast.Assign) and len(s.targets) == 1:
            t = up(s.targets[0])
            v = s.value
            if t == "outputLength":
                out_len = up(v)
            elif isinstance(v, ast.Call) and up(v.func) == "parser.getFixBytes":
                slices.append((t, up(v.args[0]) if len(v.args) == 1 and not v.keywords else P("args")))
    # order of the slices = order of the statements in the function body (ast.walk is breadth first: redo in order)
    slices = []
    for s in body_wo_doc(fn):
        if isinstance(s, ast.Assign) and len(s.targets) == 1 and isinstance(s.value, ast.Call) \
                and up(s.value.func) == "parser.getFixBytes":
            slices.append((up(s.targets[0]), up(s.value.args[0]) if len(s.value.args) == 1 and not s.value.keywords else P("args")))
        if isinstance(s, ast.Assign) and up(s.targets[0]) == "parser":
            slices.append(("parser", up(s.value)))
    # which block keys which field
    for s in ast.walk(fn):
        if isinstance(s, ast.Assign) and len(s.targets) == 1:
            t = up(s.targets[0])
            if t.endswith("PendingState.macContext") or t.endswith("PendingState.encContext") or t.endswith("PendingState.fixedNonce"):
                fields.append((t, up(s.value)))
            if t == "self.fixedIVBlock":
                fixediv = up(s.value)
    fields.sort()
    last_if = [s for s in body_wo_doc(fn) if isinstance(s, ast.If) and up(s.test) == "self.client"]
    roles = role_assign(last_if[0]) if len(last_if) == 1 else [(P("role count"), "", "")]
    guard = [up(s.test) for s in body_wo_doc(fn) if isinstance(s, ast.If) and "fixedIVBlock" in up(s)]
    return out_len, slices, fields, roles, (guard[0] if len(guard) == 1 else P("iv guard")) + " => " + fixediv


def tls13_states(cls):
    fn = find_func(cls, "calcTLS1_3PendingState")
    if fn is None:
        return [(P("no calcTLS1_3PendingState"), "")], []
    rows = []
    for s in body_wo_doc(fn):
        if isinstance(s, ast.Assign) and len(s.targets) == 1:
            rows.append((up(s.targets[0]), up(s.value)))
        elif isinstance(s, ast.If):
            pass
        else:
            rows.append((P("stmt"), up(s)[:60]))
    ifs = [s for s in body_wo_doc(fn) if isinstance(s, ast.If)]
    roles = role_assign(ifs[0]) if len(ifs) == 1 else [(P("role count"), "", "")]
    return rows, roles


def key_update(cls):
    res = []
    fn = find_func(cls, "_calcTLS1_3KeyUpdate")
    if fn is None:
        res.append(("_calcTLS1_3KeyUpdate", P("missing"), ""))
    else:
        for s in body_wo_doc(fn):
            if isinstance(s, ast.Assign) and len(s.targets) == 1:
                res.append(("_calcTLS1_3KeyUpdate", up(s.targets[0]), up(s.value)))
            elif isinstance(s, ast.Return):
                res.append(("_calcTLS1_3KeyUpdate", "return", up(s.value)))
            else:
                res.append(("_calcTLS1_3KeyUpdate", P("stmt"), up(s)[:60]))
    for name in ("calcTLS1_3KeyUpdate_sender", "calcTLS1_3KeyUpdate_reciever"):
        fn = find_func(cls, name)
        b = body_wo_doc(fn) if fn is not None else []
        if len(b) != 1 or not isinstance(b[0], ast.If) or up(b[0].test) != "self.client" or not b[0].orelse:
            res.append((name, P("shape"), ""))
            continue
        for role, body in (("client", b[0].body), ("server", b[0].orelse)):
            for s in body:
                if isinstance(s, ast.Assign) and len(s.targets) == 1:
                    res.append((name + ":" + role, up(s.targets[0]), up(s.value)))
                elif isinstance(s, ast.Return):
                    res.append((name + ":" + role, "return", up(s.value)))
                else:
                    res.append((name + ":" + role, P("stmt"), up(s)[:60]))
    return res


def action_of(body):
    """what a dispatch branch does, as text: the callee of the single assignment / `pass` / raise"""
    acts = []
    for s in body:
        if isinstance(s, ast.Pass):
            acts.append("pass")
        elif isinstance(s, ast.Assign) and isinstance(s.value, ast.Call):
            acts.append(up(s.targets[0]) + " = " + up(s.value.func) + "(" + ", ".join(up(a) for a in s.value.args) + ")")
        elif isinstance(s, ast.Raise):
            acts.append("raise" if s.exc is None else
                        "raise " + (up(s.exc.func) if isinstance(s.exc, ast.Call) else up(s.exc)))
        elif isinstance(s, ast.If):
            acts.append("if " + up(s.test) + ": " + "; ".join(action_of(s.body)) +
                        (" else: " + "; ".join(action_of(s.orelse)) if s.orelse else ""))
        else:
            acts.append(up(s))
    return acts


def send_dispatch(cls):
    fn = find_func(cls, "sendRecord")
    if fn is None:
        return P("no sendRecord"), [], [(P("no sendRecord"), "")]
    wrap, wrap_body, chain = P("no wrap"), [], [(P("no chain"), "")]
    ifs = [s for s in body_wo_doc(fn) if isinstance(s, ast.If)]
    if len(ifs) == 2:
        wrap = up(ifs[0].test)
        wrap_body = [up(s) if not isinstance(s, ast.If) else "if " + up(s.test) + ": " + "; ".join(up(x) for x in s.body)
                     for s in ifs[0].body]
        chain = [(t, "; ".join(action_of(b))) for t, b in if_chain(ifs[1])]
    else:
        chain = [(P("if count %d" % len(ifs)), "")]
    tail = [up(s) for s in body_wo_doc(fn) if not isinstance(s, (ast.If, ast.For))]
    return wrap, wrap_body, chain, tail


def recv_dispatch(cls):
    fn = find_func(cls, "recvRecord")
    if fn is None:
        return [(P("no recvRecord"), "")], [], []
    tries = [n for n in ast.walk(fn) if isinstance(n, ast.Try)]
    if len(tries) != 1:
        return [(P("try count"), "")], [], []
    tr = tries[0]
    chain, after = [(P("no chain"), "")], []
    if tr.body and isinstance(tr.body[0], ast.If):
        chain = [(t, "; ".join(action_of(b))) for t, b in if_chain(tr.body[0])]
        after = ["; ".join(action_of([s])) for s in tr.body[1:]]
    handlers = []
    for h in tr.handlers:
        handlers.append(("except " + (up(h.type) if h.type is not None else ""), "; ".join(action_of(h.body))))
    # statements of the loop body after the try (early-data reset, TLS 1.3 unwrap, limit check, yield)
    loop = [n for n in body_wo_doc(fn) if isinstance(n, ast.While)]
    post = []
    if len(loop) == 1:
        seen = False
        for s in loop[0].body:
            if s is tr:
                seen = True
                continue
            if seen:
                post.append("; ".join(action_of([s])) if not isinstance(s, ast.Expr) else up(s))
    return chain, after + ["HANDLERS"] + ["%s => %s" % h for h in handlers], post


def seq_use(mod, cls):
    rows = []
    cs = find_class(mod, "ConnectionState")
    g = find_func(cs, "getSeqNumBytes")
    rows.append(("getSeqNumBytes", "; ".join(up(s) for s in body_wo_doc(g)) if g is not None else P("missing")))
    for name in ("_macThenEncrypt", "_encryptThenMAC", "_encryptThenSeal", "_ssl2Encrypt", "_decryptStreamThenMAC",
                 "_decryptThenMAC", "_macThenDecrypt", "_decryptAndUnseal", "_decryptSSL2"):
        fn = find_func(cls, name)
        if fn is None:
            rows.append((name, P("missing")))
            continue
        uses = []

        def walk(stmts, conds):
            for s in stmts:
                if isinstance(s, ast.If):
                    walk(s.body, conds + [up(s.test)])
                    walk(s.orelse, conds + ["not(" + up(s.test) + ")"])
                elif isinstance(s, (ast.For, ast.While, ast.With, ast.Try)):
                    uses.append(P("loop around seq use") if "getSeqNumBytes" in up(s) else "")
                else:
                    for n in ast.walk(s):
                        if isinstance(n, ast.Call) and up(n.func).endswith(".getSeqNumBytes"):
                            uses.append(up(n.func) + " if " + " & ".join(conds) if conds else up(n.func))
        walk(body_wo_doc(fn), [])
        rows.append((name, " | ".join(u for u in uses if u)))
    return rows


def updates_of(fn, var):
    """the argument texts of the `var.update(…)` calls of a function, in order, with their guards"""
    out = []

    def walk(stmts, conds):
        for s in stmts:
            if isinstance(s, ast.If):
                walk(s.body, conds + [up(s.test)])
                walk(s.orelse, conds + ["not(" + up(s.test) + ")"])
            elif isinstance(s, ast.Expr) and isinstance(s.value, ast.Call) and up(s.value.func) == var + ".update":
                arg = up(s.value.args[0]) if len(s.value.args) == 1 else P("args")
                out.append(("[" + " & ".join(conds) + "] " if conds else "") + arg)
            elif isinstance(s, (ast.For, ast.While)):
                out.append(P("loop"))
    walk(body_wo_doc(fn), [])
    return out


def constructions(cls):
    d = {}
    fn = find_func(cls, "calculateMAC")
    d["macFields"] = updates_of(fn, "mac") if fn is not None else [P("no calculateMAC")]
    d["macResult"] = [up(s) for s in body_wo_doc(fn) if isinstance(s, ast.Return)] if fn is not None else []

    def named_assigns(fname, target):
        fn = find_func(cls, fname)
        if fn is None:
            return [P("no " + fname)]
        res = []

        def walk(stmts, conds):
            for s in stmts:
                if isinstance(s, ast.If):
                    walk(s.body, conds + [up(s.test)])
                    walk(s.orelse, conds + ["not(" + up(s.test) + ")"])
                elif isinstance(s, ast.Assign) and up(s.targets[0]) == target:
                    res.append(("[" + " & ".join(conds) + "] " if conds else "") + up(s.value))
        walk(body_wo_doc(fn), [])
        return res or [P("no " + target + " in " + fname)]
    d["aadSend"] = named_assigns("_encryptThenSeal", "authData")
    d["outLenSend"] = named_assigns("_encryptThenSeal", "out_len")
    d["sealSend"] = named_assigns("_encryptThenSeal", "buf")
    d["aadRecv"] = named_assigns("_decryptAndUnseal", "authData")
    d["plainLenRecv"] = named_assigns("_decryptAndUnseal", "plaintextLen")
    d["nonceRecv"] = named_assigns("_decryptAndUnseal", "nonce")
    d["nonce"] = named_assigns("_getNonce", "nonce") + named_assigns("_getNonce", "pad")
    fn = find_func(cls, "_getNonce")
    d["nonceCond"] = [up(s.test) for s in body_wo_doc(fn) if isinstance(s, ast.If)] if fn is not None else [P("no _getNonce")]
    fn = find_func(cls, "_tls13_de_pad")
    d["dePad"] = [up(s) for s in body_wo_doc(fn)] if fn is not None else [P("no _tls13_de_pad")]
    fn = find_func(cls, "addPadding")
    d["addPadding"] = [up(s) for s in body_wo_doc(fn)] if fn is not None else [P("no addPadding")]
    return d


def fragmentation(tcls):
    fn = find_func(tcls, "_sendMsg")
    res = []
    if fn is None:
        return [P("no _sendMsg")]
    for s in body_wo_doc(fn):
        if isinstance(s, ast.If):
            res.append("if " + up(s.test) + ": " + "; ".join(action_of(s.body)))
        elif isinstance(s, ast.While):
            res.append("while " + up(s.test) + ": " + "; ".join(up(x) if not isinstance(x, ast.For) else "for: " + up(x.iter) for x in s.body))
        elif isinstance(s, ast.For):
            res.append("for: " + up(s.iter))
        else:
            res.append(up(s))
    g = find_func(tcls, "recordSize", prop="getter")
    res.append("recordSize: " + ("; ".join(up(s) for s in body_wo_doc(g)) if g is not None else P("missing")))
    return res


def size_checks(mod, cls):
    res = []
    rs = find_class(mod, "RecordSocket")
    for owner, fname in ((rs, "recv"), (cls, "recvRecord")):
        fn = find_func(owner, fname)
        if fn is None:
            res.append((fname, P("missing"), ""))
            continue
        for n in ast.walk(fn):
            if isinstance(n, ast.If) and len(n.body) == 1 and isinstance(n.body[0], ast.Raise) and "Overflow" in up(n.body[0]):
                res.append((fname, up(n.test), up(n.body[0].exc.func) if isinstance(n.body[0].exc, ast.Call) else up(n.body[0].exc)))
    init = find_func(rs, "__init__")
    for s in ast.walk(init) if init is not None else []:
        if isinstance(s, ast.Assign) and up(s.targets[0]) == "self.recv_record_limit":
            res.append(("RecordSocket.__init__", "recv_record_limit", up(s.value)))
    init = find_func(cls, "__init__")
    for s in ast.walk(init) if init is not None else []:
        if isinstance(s, ast.Assign) and up(s.targets[0]) == "self.send_record_limit":
            res.append(("RecordLayer.__init__", "send_record_limit", up(s.value)))
    return res


# ---------------------------------------------------------------------------------------------------
def L(x):
    if isinstance(x, str):
        return lean_str(x)
    if isinstance(x, bool):
        return "true" if x else "false"
    if isinstance(x, int):
        return str(x)
    if isinstance(x, tuple):
        return "(" + ", ".join(L(y) for y in x) + ")"
    if isinstance(x, list):
        return "[" + ", ".join(L(y) for y in x) + "]"
    raise TypeError(x)


def ty(x):
    if isinstance(x, str):
        return "String"
    if isinstance(x, int):
        return "Nat"
    if isinstance(x, tuple):
        return " × ".join(ty(y) if not isinstance(y, tuple) else "(" + ty(y) + ")" for y in x)
    raise TypeError(x)


def emit_list(name, rows, shape, doc):
    body = ",\n   ".join(L(r) for r in rows)
    return "/-- %s -/\ndef %s : List (%s) :=\n  [%s]\n" % (doc, name, shape, body)


def generate(repo):
    def parse(rel):
        with open(os.path.join(repo, rel)) as f:
            return ast.parse(f.read())
    out = ["/- GENERATED by translate/gen_record.py from %s and %s — do not edit. -/" % (RL, TRL),
           "namespace Tls.Gen.Record", ""]
    try:
        mod = parse(RL)
        tmod = parse(TRL)
        cls = find_class(mod, "RecordLayer")
        tcls = find_class(tmod, "TLSRecordLayer")
        ok = cls is not None and tcls is not None
    except Exception:  # noqa: B902
        ok = False
    if not ok:
        out += ["def translated : Bool := false", "end Tls.Gen.Record", ""]
        return {OUT: "\n".join(out)}
    out.append("def translated : Bool := true\n")
    ct = cipher_table(cls)
    out.append(emit_list("cipherTable", ct, "String × Nat × Nat × String",
                         "_getCipherSettings: CipherSuite list, key length, IV length, constructor (in source order)"))
    ctors = sorted(set(r[3] for r in ct if r[3] and r[3] != "None" and not r[3].startswith("POISON")))
    out.append(emit_list("tagTable", tag_table(repo, ctors), "String × Nat × String",
                         "constructor, AEAD tag length, python module (not-aead:… for CBC / stream ciphers)"))
    out.append(emit_list("macTable", mac_table(cls), "String × Nat × String", "_getMacSettings: list, MAC length, digestmod"))
    out.append(emit_list("hmacTable", hmac_table(cls), "String × String", "_getHMACMethod, statement by statement"))
    out_len, slices, fields, roles, fixediv = key_block(cls)
    out.append("/-- calcPendingStates: `outputLength = …` -/\ndef keyBlockLength : String := %s\n" % L(out_len))
    out.append(emit_list("keyBlockSlices", slices, "String × String", "the key block parser and its getFixBytes slices, in order: (target, length)"))
    out.append(emit_list("keyBlockFields", fields, "String × String", "which slice keys which pending-state field (sorted by field)"))
    out.append(emit_list("keyBlockRoles", roles, "String × String × String", "role, state attribute, pending state assigned"))
    out.append("/-- guard and value of `self.fixedIVBlock` -/\ndef fixedIVBlock : String := %s\n" % L(fixediv))
    rows, roles13 = tls13_states(cls)
    out.append(emit_list("tls13States", rows, "String × String", "calcTLS1_3PendingState: assignments in order"))
    out.append(emit_list("tls13Roles", roles13, "String × String × String", "role, state attribute, pending state assigned"))
    out.append(emit_list("keyUpdate", key_update(cls), "String × String × String", "function[:role], target | return, value"))
    sd = send_dispatch(cls)
    out.append("/-- sendRecord: condition of the TLS 1.3 inner-plaintext wrap -/\ndef sendWrap : String := %s\n" % L(sd[0]))
    out.append("def sendWrapBody : List String := %s\n" % L(list(sd[1])))
    out.append(emit_list("sendDispatch", sd[2], "String × String", "sendRecord: (condition, action) in order"))
    out.append("def sendTail : List String := %s\n" % L(list(sd[3]) if len(sd) > 3 else []))
    rc, rafter, rpost = recv_dispatch(cls)
    out.append(emit_list("recvDispatch", rc, "String × String", "recvRecord, inside the try: (condition, action) in order"))
    out.append("def recvAfterDispatch : List String := %s\n" % L(rafter))
    out.append("def recvPost : List String := %s\n" % L(rpost))
    out.append(emit_list("seqUse", seq_use(mod, cls), "String × String", "function, the getSeqNumBytes() calls with their guards"))
    cons = constructions(cls)
    for k in sorted(cons):
        out.append("def %s : List String := %s\n" % (k, L(list(cons[k]))))
    out.append("def fragmentation : List String := %s\n" % L(fragmentation(tcls)))
    out.append(emit_list("sizeChecks", size_checks(mod, cls), "String × String × String", "function, test, exception"))
    out += ["end Tls.Gen.Record", ""]
    return {OUT: "\n".join(out)}
