"""Data-plane control structure of tlsrecordlayer.py -> lean/TlsModel/Gen/Conn.lean   (C16 / C17)

Read from the AST (never from running the code):
  * readAsync: allowedTypes / allowedHsTypes per branch, the isinstance dispatch chain (order, handler),
    where try_once is re-armed, the two inner except clauses and the outer one;
  * _getMsg alert branch: the condition under which close_notify is sent back, which socket errors of
    that reply are forgiven, which _shutdown(resumable) each class of alert gets;
  * every `_sendError(AlertDescription.X)` call site (in source order) of the data-plane functions and
    the exception -> alert mapping of the except clauses of _getMsg / _getNextRecordFromSocket;
  * _decrefAsync: reference counting guard, closeSocket branch, expected / secondary types of the
    wait loop, what a KeyUpdate / alert / other result does there, the except clauses;
  * writeAsync: closed check before the try, _shutdown argument of the handler;
  * _sendMsgThroughSocket: when the peer's alert is looked for, which content types close on failure;
  * send_keyupdate_request / _handle_keyupdate_request: order of "send" and "advance keys".
Anything whose shape is not recognised is emitted as the poison value (`poison` strings / 999 numbers),
which makes the obligations in Props/C16.lean / Props/C17.lean false.
"""
import ast
import os
import sys

from . import lean_str

POISON_N = 999
POISON_S = "POISON"


def _consts(repo):
    sys.path.insert(0, repo)
    try:
        for k in list(sys.modules):
            if k == "tlslite" or k.startswith("tlslite."):
                f = getattr(sys.modules[k], "__file__", "") or ""
                if not f.startswith(repo):
                    del sys.modules[k]
        from tlslite import constants
        return constants
    finally:
        pass


def _attr_chain(node):
    """a.b.c -> ['a','b','c'] or None"""
    out = []
    while isinstance(node, ast.Attribute):
        out.append(node.attr)
        node = node.value
    if isinstance(node, ast.Name):
        out.append(node.id)
        return list(reversed(out))
    return None


class Ctx(object):
    def __init__(self, repo):
        self.C = _consts(repo)

    def const(self, node):
        """ContentType.x / HandshakeType.x / AlertDescription.x / AlertLevel.x -> int"""
        ch = _attr_chain(node)
        if ch and len(ch) == 2 and ch[0] in ("ContentType", "HandshakeType", "AlertDescription", "AlertLevel",
                                               "KeyUpdateMessageType", "HeartbeatMessageType"):
            v = getattr(getattr(self.C, ch[0], None), ch[1], None)
            if isinstance(v, int):
                return v
        return POISON_N

    def const_tuple(self, node):
        if isinstance(node, ast.Tuple):
            return [self.const(e) for e in node.elts]
        if isinstance(node, ast.Constant) and node.value is None:
            return []
        v = self.const(node)
        return [v]


def _func(tree, cls, name):
    for n in tree.body:
        if isinstance(n, ast.ClassDef) and n.name == cls:
            for f in n.body:
                if isinstance(f, ast.FunctionDef) and f.name == name:
                    return f
    return None


def _is_self_attr(node, name):
    return isinstance(node, ast.Attribute) and isinstance(node.value, ast.Name) and node.value.id == "self" and node.attr == name


def _assign_to(stmt, name):
    if isinstance(stmt, ast.Assign) and len(stmt.targets) == 1 and isinstance(stmt.targets[0], ast.Name) \
            and stmt.targets[0].id == name:
        return stmt.value
    return None


def _find_assign(body, name):
    """value of the single top-level assignment `name = ...` in a statement list (not descending)"""
    vals = [v for v in (_assign_to(s, name) for s in body) if v is not None]
    return vals[0] if len(vals) == 1 else None


def _calls_send_error(stmt, cx):
    """`for result in self._sendError(AlertDescription.X, ...): yield result` -> X number, else None"""
    if isinstance(stmt, ast.For) and isinstance(stmt.iter, ast.Call) and _is_self_attr(stmt.iter.func, "_sendError") \
            and stmt.iter.args:
        return cx.const(stmt.iter.args[0])
    return None


def _shutdown_arg(stmt):
    """`self._shutdown(True|False|self.ignoreAbruptClose)` -> 'true' | 'false' | 'ignoreAbruptClose' | None"""
    if isinstance(stmt, ast.Expr) and isinstance(stmt.value, ast.Call) and _is_self_attr(stmt.value.func, "_shutdown") \
            and len(stmt.value.args) == 1:
        a = stmt.value.args[0]
        if isinstance(a, ast.Constant) and a.value in (True, False):
            return "true" if a.value else "false"
        if _is_self_attr(a, "ignoreAbruptClose"):
            return "ignoreAbruptClose"
        return POISON_S
    return None


def _handler_types(h):
    if h.type is None:
        return ["*"]
    if isinstance(h.type, ast.Tuple):
        return [".".join(_attr_chain(e) or [POISON_S]) for e in h.type.elts]
    return [".".join(_attr_chain(h.type) or [POISON_S])]


# ------------------------------------------------------------------------------------------------
def read_async(fn, cx):
    out = {"types13": [POISON_N], "typesOld": [POISON_N], "allowed": [(POISON_S, [POISON_N])],
           "dispatch": [(POISON_S, POISON_S)], "rearm": [POISON_S], "inner": [(POISON_S, POISON_S)], "outer": POISON_S}
    if fn is None:
        return out
    top = [s for s in fn.body if isinstance(s, ast.If)]
    vif = None
    for s in top:
        t = s.test
        if isinstance(t, ast.Compare) and _is_self_attr(t.left, "version") and len(t.ops) == 1 and isinstance(t.ops[0], ast.Gt) \
                and isinstance(t.comparators[0], ast.Tuple) and [getattr(e, "value", None) for e in t.comparators[0].elts] == [3, 3]:
            vif = s
    if vif is not None:
        v = _find_assign(vif.body, "allowedTypes")
        if v is not None:
            out["types13"] = cx.const_tuple(v)
        v = _find_assign(vif.orelse, "allowedTypes")
        vh = _find_assign(vif.orelse, "allowedHsTypes")
        if v is not None and vh is not None and isinstance(vh, ast.Constant) and vh.value is None:
            out["typesOld"] = cx.const_tuple(v)
        # the if / elif chain on the endpoint's role
        chain = [s for s in vif.body if isinstance(s, ast.If)]
        allowed = []
        if len(chain) == 1:
            node = chain[0]
            while True:
                t = node.test
                if _is_self_attr(t, "_client_keypair"):
                    v = _find_assign(node.body, "allowedHsTypes")
                    allowed.append(("keypair", cx.const_tuple(v) if v is not None else [POISON_N]))
                elif _is_self_attr(t, "_cert_requests"):
                    inner = [s for s in node.body if isinstance(s, ast.If) and isinstance(s.test, ast.Name)
                             and s.test.id == "cert_req_with_comp_cert_ext"]
                    if len(inner) == 1:
                        a = _find_assign(inner[0].body, "allowedHsTypes")
                        b = _find_assign(inner[0].orelse, "allowedHsTypes")
                        allowed.append(("certreq_comp", cx.const_tuple(a) if a is not None else [POISON_N]))
                        allowed.append(("certreq", cx.const_tuple(b) if b is not None else [POISON_N]))
                    else:
                        allowed.append((POISON_S, [POISON_N]))
                elif _is_self_attr(t, "_client"):
                    v = _find_assign(node.body, "allowedHsTypes")
                    allowed.append(("client", cx.const_tuple(v) if v is not None else [POISON_N]))
                else:
                    allowed.append((POISON_S, [POISON_N]))
                if len(node.orelse) == 1 and isinstance(node.orelse[0], ast.If):
                    node = node.orelse[0]
                    continue
                v = _find_assign(node.orelse, "allowedHsTypes")
                allowed.append(("server", cx.const_tuple(v) if v is not None else [POISON_N]))
                break
            out["allowed"] = allowed
    # the outer try, the while loop, the inner try
    trys = [s for s in fn.body if isinstance(s, ast.Try)]
    if len(trys) == 1:
        outer = trys[0]
        hs = [h for h in outer.handlers if _handler_types(h) != ["GeneratorExit"]]
        if len(hs) == 1 and _handler_types(hs[0]) == ["*"]:
            args = [a for a in (_shutdown_arg(s) for s in hs[0].body) if a is not None]
            if len(args) == 1 and isinstance(hs[0].body[-1], ast.Raise):
                out["outer"] = "shutdown_" + args[0] + "_reraise"
        loops = [s for s in outer.body if isinstance(s, ast.While)]
        if len(loops) == 1:
            itry = [s for s in loops[0].body if isinstance(s, ast.Try)]
            if len(itry) == 1:
                it = itry[0]
                chain = [s for s in it.body if isinstance(s, ast.If)]
                disp, rearm = [], []
                if len(chain) == 1:
                    node = chain[0]
                    while True:
                        t = node.test
                        cls = POISON_S
                        if isinstance(t, ast.Call) and isinstance(t.func, ast.Name) and t.func.id == "isinstance" \
                                and len(t.args) == 2 and isinstance(t.args[1], ast.Name):
                            cls = t.args[1].id
                        handler = "store"
                        for s in ast.walk(ast.Module(body=node.body, type_ignores=[])):
                            if isinstance(s, ast.Call) and isinstance(s.func, ast.Attribute) and isinstance(s.func.value, ast.Name) \
                                    and s.func.value.id == "self" and s.func.attr.startswith("_handle"):
                                handler = s.func.attr
                        disp.append((cls, handler))
                        for s in node.body:
                            v = _assign_to(s, "try_once")
                            if v is not None and isinstance(v, ast.Constant) and v.value is True:
                                rearm.append(cls)
                        if len(node.orelse) == 1 and isinstance(node.orelse[0], ast.If):
                            node = node.orelse[0]
                            continue
                        # the else branch: application data joins the buffer
                        ok = any(isinstance(s, ast.AugAssign) and _is_self_attr(s.target, "_readBuffer") for s in node.orelse)
                        disp.append(("else", "readBuffer" if ok else POISON_S))
                        break
                    out["dispatch"] = disp
                    out["rearm"] = rearm
                inner = []
                for h in it.handlers:
                    ty = _handler_types(h)
                    desc = POISON_S
                    if ty == ["TLSRemoteAlert"] and len(h.body) == 1 and isinstance(h.body[0], ast.If):
                        t = h.body[0].test
                        if isinstance(t, ast.Compare) and isinstance(t.ops[0], ast.NotEq) \
                                and cx.const(t.comparators[0]) == 0 and isinstance(h.body[0].body[0], ast.Raise) and not h.body[0].orelse:
                            desc = "reraise_unless_close_notify"
                    if ty == ["TLSAbruptCloseError"] and len(h.body) == 1 and isinstance(h.body[0], ast.If):
                        i = h.body[0]
                        if isinstance(i.test, ast.UnaryOp) and isinstance(i.test.op, ast.Not) and _is_self_attr(i.test.operand, "ignoreAbruptClose") \
                                and isinstance(i.body[0], ast.Raise) and len(i.orelse) == 1 and _shutdown_arg(i.orelse[0]) == "true":
                            desc = "reraise_unless_ignoreAbruptClose_then_shutdown_true"
                    inner.append((",".join(ty), desc))
                out["inner"] = inner
    return out


# ------------------------------------------------------------------------------------------------
def _cond_to_lean(t, cx):
    """alert.level == AlertLevel.x / alert.description == AlertDescription.y / or / and -> Lean Bool expr over lvl d"""
    if isinstance(t, ast.BoolOp):
        parts = [_cond_to_lean(v, cx) for v in t.values]
        if any(p is None for p in parts):
            return None
        op = " || " if isinstance(t.op, ast.Or) else " && "
        return "(" + op.join(parts) + ")"
    if isinstance(t, ast.Compare) and len(t.ops) == 1 and isinstance(t.ops[0], (ast.Eq, ast.NotEq)):
        ch = _attr_chain(t.left)
        v = cx.const(t.comparators[0])
        if ch in (["alert", "level"], ["alert", "description"]) and v != POISON_N:
            var = "lvl" if ch[1] == "level" else "d"
            return "(%s %s %d)" % (var, "==" if isinstance(t.ops[0], ast.Eq) else "!=", v)
    return None


def alert_branch(fn, cx):
    """the `if recordHeader.type == ContentType.alert:` block of _getMsg"""
    res = {"reply": "false", "replyMsg": (POISON_N, POISON_N), "forgiven": [POISON_S], "forgivenBody": POISON_S,
           "keep": "true", "raises": POISON_S}
    if fn is None:
        return res
    blk = None
    for n in ast.walk(fn):
        if isinstance(n, ast.If) and isinstance(n.test, ast.Compare) and _attr_chain(n.test.left) == ["recordHeader", "type"] \
                and isinstance(n.test.ops[0], ast.Eq) and cx.const(n.test.comparators[0]) == 21:
            if any(isinstance(s, ast.Raise) for s in n.body):
                blk = n
    if blk is None:
        return res
    body = blk.body
    # alert = Alert().parse(p) ; if <cond>: ... else: ... ; raise TLSRemoteAlert(alert)
    ifs = [s for s in body if isinstance(s, ast.If)]
    rs = [s for s in body if isinstance(s, ast.Raise)]
    if len(ifs) != 1 or len(rs) != 1 or body[-1] is not rs[0]:
        return res
    r = rs[0].exc
    if isinstance(r, ast.Call) and isinstance(r.func, ast.Name) and r.func.id == "TLSRemoteAlert":
        res["raises"] = "TLSRemoteAlert"
    top = ifs[0]
    cond = _cond_to_lean(top.test, cx)
    if cond is None:
        return res
    # reply branch: try: alertMsg.create(desc, level); _sendMsg  except X: pass ; if close_notify: shutdown(True) elif warning: shutdown(False)
    trs = [s for s in top.body if isinstance(s, ast.Try)]
    cls = [s for s in top.body if isinstance(s, ast.If)]
    other = [s for s in top.body if not isinstance(s, (ast.Try, ast.If))]
    if len(trs) != 1 or len(cls) != 1 or other:
        return res
    res["reply"] = cond
    for n in ast.walk(trs[0]):
        if isinstance(n, ast.Call) and isinstance(n.func, ast.Attribute) and n.func.attr == "create" and len(n.args) == 2:
            res["replyMsg"] = (cx.const(n.args[1]), cx.const(n.args[0]))     # (level, description)
    forg = []
    bodies = []
    for h in trs[0].handlers:
        forg += _handler_types(h)
        bodies.append("pass" if (len(h.body) == 1 and isinstance(h.body[0], ast.Pass)) else "other")
    res["forgiven"] = forg
    res["forgivenBody"] = ",".join(bodies)
    # classification of the shutdown argument as a Lean expression: keep resumable?
    def branch(node):
        """if c1: shutdown(a) elif c2: shutdown(b) [else nothing] -> Lean expr for `keeps resumable` (no shutdown: poison)"""
        c = _cond_to_lean(node.test, cx)
        a = [x for x in (_shutdown_arg(s) for s in node.body) if x is not None]
        if c is None or len(a) != 1 or a[0] not in ("true", "false"):
            return None
        if not node.orelse:
            return "(if %s then %s else true)" % (c, a[0])      # no _shutdown at all would keep it
        if len(node.orelse) == 1 and isinstance(node.orelse[0], ast.If):
            rest = branch(node.orelse[0])
            return None if rest is None else "(if %s then %s else %s)" % (c, a[0], rest)
        b = [x for x in (_shutdown_arg(s) for s in node.orelse) if x is not None]
        if len(b) != 1 or b[0] not in ("true", "false"):
            return None
        return "(if %s then %s else %s)" % (c, a[0], b[0])
    keep_reply = branch(cls[0])
    e = [x for x in (_shutdown_arg(s) for s in top.orelse) if x is not None]
    if keep_reply is None or len(e) != 1 or e[0] not in ("true", "false"):
        return res
    res["keep"] = "(if %s then %s else %s)" % (cond, keep_reply, e[0])
    return res


def send_error_sites(fn, cx):
    """descriptions of all `_sendError(...)` calls in source order"""
    if fn is None:
        return [POISON_N]
    sites = []
    for n in ast.walk(fn):
        if isinstance(n, ast.Call) and _is_self_attr(n.func, "_sendError"):
            sites.append((n.lineno, n.col_offset, cx.const(n.args[0]) if n.args else POISON_N))
    return [d for _, _, d in sorted(sites)]


def exc_alerts(fn, cx):
    """except E: for r in self._sendError(D[, ...]) -> (E, D) for every handler of the function's try statements"""
    if fn is None:
        return [(POISON_S, POISON_N)]
    out = []
    for n in ast.walk(fn):
        if isinstance(n, ast.Try):
            for h in n.handlers:
                ds = [d for d in (_calls_send_error(s, cx) for s in h.body) if d is not None]
                if ds:
                    for t in _handler_types(h):
                        out.append((t, ds[0] if len(ds) == 1 else POISON_N))
    return out


def decref(fn, cx):
    res = {"guard": POISON_S, "first": (POISON_N, POISON_N), "closeSocket": POISON_S, "wait13c": ([POISON_N], [POISON_N]),
           "wait13s": ([POISON_N], [POISON_N]), "waitOld": ([POISON_N], [POISON_N]), "kuInWait": POISON_S,
           "final": POISON_S, "handlers": [(POISON_S, POISON_S)]}
    if fn is None:
        return res
    b = fn.body
    if len(b) == 2 and isinstance(b[0], ast.AugAssign) and isinstance(b[0].op, ast.Sub) and _is_self_attr(b[0].target, "_refCount") \
            and isinstance(b[0].value, ast.Constant) and b[0].value.value == 1 and isinstance(b[1], ast.If):
        t = b[1].test
        if isinstance(t, ast.BoolOp) and isinstance(t.op, ast.And) and len(t.values) == 2:
            a, c = t.values
            if isinstance(a, ast.Compare) and _is_self_attr(a.left, "_refCount") and isinstance(a.ops[0], ast.Eq) \
                    and getattr(a.comparators[0], "value", None) == 0 and isinstance(c, ast.UnaryOp) and isinstance(c.op, ast.Not) \
                    and _is_self_attr(c.operand, "closed") and not b[1].orelse:
                res["guard"] = "decrement_then_if_zero_and_open"
        tr = [s for s in b[1].body if isinstance(s, ast.Try)]
        if len(tr) == 1:
            tr = tr[0]
            for n in ast.walk(ast.Module(body=tr.body[:1], type_ignores=[])):
                if isinstance(n, ast.Call) and isinstance(n.func, ast.Attribute) and n.func.attr == "create" and len(n.args) == 2:
                    res["first"] = (cx.const(n.args[1]), cx.const(n.args[0]))
            ifs = [s for s in tr.body if isinstance(s, ast.If) and _is_self_attr(s.test, "closeSocket")]
            if len(ifs) == 1:
                a = [x for x in (_shutdown_arg(s) for s in ifs[0].body) if x is not None]
                if len(a) == 1:
                    res["closeSocket"] = "shutdown_" + a[0]
                wl = [s for s in ifs[0].orelse if isinstance(s, ast.While)]
                fin = [s for s in ifs[0].orelse if isinstance(s, ast.If)]
                if len(wl) == 1:
                    vif = [s for s in wl[0].body if isinstance(s, ast.If) and isinstance(s.test, ast.Compare) and _is_self_attr(s.test.left, "version")]
                    if len(vif) == 1:
                        e13 = _find_assign(vif[0].body, "expected")
                        role = [s for s in vif[0].body if isinstance(s, ast.If) and _is_self_attr(s.test, "_client")]
                        eo = _find_assign(vif[0].orelse, "expected")
                        so = _find_assign(vif[0].orelse, "secondary")
                        if e13 is not None and len(role) == 1:
                            sc = _find_assign(role[0].body, "secondary")
                            ss = _find_assign(role[0].orelse, "secondary")
                            if sc is not None and ss is not None:
                                res["wait13c"] = (cx.const_tuple(e13), cx.const_tuple(sc))
                                res["wait13s"] = (cx.const_tuple(e13), cx.const_tuple(ss))
                        if eo is not None and so is not None:
                            res["waitOld"] = (cx.const_tuple(eo), cx.const_tuple(so))
                    # what the result does
                    rif = [s for s in wl[0].body if isinstance(s, ast.If) and isinstance(s.test, ast.Call)
                           and isinstance(s.test.func, ast.Name) and s.test.func.id == "isinstance"]
                    if len(rif) == 1 and isinstance(rif[0].test.args[1], ast.Name) and rif[0].test.args[1].id == "KeyUpdate":
                        calls = [n.func.attr for n in ast.walk(ast.Module(body=rif[0].body, type_ignores=[]))
                                 if isinstance(n, ast.Call) and isinstance(n.func, ast.Attribute)]
                        sends = [c for c in calls if c.startswith("_send") or c == "send_keyupdate_request"]
                        if "calcTLS1_3KeyUpdate_sender" in calls and not sends:
                            res["kuInWait"] = "advance_read_no_reply"
                if len(fin) == 1:
                    t = fin[0].test
                    a = [x for x in (_shutdown_arg(s) for s in fin[0].body) if x is not None]
                    if isinstance(t, ast.Compare) and cx.const(t.comparators[0]) == 0 and isinstance(t.ops[0], ast.Eq) and a == ["true"] \
                            and len(fin[0].orelse) == 1 and isinstance(fin[0].orelse[0], ast.Raise):
                        res["final"] = "close_notify_shutdown_true_else_raise"
            hs = []
            for h in tr.handlers:
                ty = _handler_types(h)
                if ty == ["GeneratorExit"]:
                    continue
                a = [x for x in (_shutdown_arg(s) for s in h.body) if x is not None]
                rr = any(isinstance(s, ast.Raise) for s in h.body)
                hs.append((",".join(ty), ("shutdown_" + a[0] if len(a) == 1 else POISON_S) + ("_reraise" if rr else "")))
            res["handlers"] = hs
    return res


def write_async(fn):
    if fn is None:
        return POISON_S, POISON_S
    body = [s for s in fn.body if not (isinstance(s, ast.Expr) and isinstance(s.value, ast.Constant))]
    shape = POISON_S
    hshape = POISON_S
    if len(body) == 2 and isinstance(body[0], ast.If) and _is_self_attr(body[0].test, "closed") and len(body[0].body) == 1 \
            and isinstance(body[0].body[0], ast.Raise) and isinstance(body[1], ast.Try):
        exc = body[0].body[0].exc
        if isinstance(exc, ast.Call) and isinstance(exc.func, ast.Name) and exc.func.id == "TLSClosedConnectionError":
            shape = "closed_check_before_try"
        hs = [h for h in body[1].handlers if _handler_types(h) != ["GeneratorExit"]]
        if len(hs) == 1 and _handler_types(hs[0]) in (["Exception"], ["*"]):
            a = [x for x in (_shutdown_arg(s) for s in hs[0].body) if x is not None]
            if len(a) == 1 and isinstance(hs[0].body[-1], ast.Raise):
                hshape = "shutdown_" + a[0] + "_reraise"
    return shape, hshape


def send_through_socket(fn, cx):
    res = {"peek": POISON_S, "peekAlert": POISON_S, "closeTypes": [POISON_N], "else": POISON_S}
    if fn is None:
        return res
    tr = [s for s in fn.body if isinstance(s, ast.Try)]
    if len(tr) != 1 or len(tr[0].handlers) != 1 or _handler_types(tr[0].handlers[0]) != ["socket.error"]:
        return res
    hb = [s for s in tr[0].handlers[0].body if isinstance(s, ast.If)]
    if len(hb) != 1:
        return res
    t = hb[0].test
    if isinstance(t, ast.BoolOp) and isinstance(t.op, ast.And) and len(t.values) == 2:
        a, c = t.values
        if isinstance(a, ast.Compare) and _attr_chain(a.left) == ["msg", "contentType"] and cx.const(a.comparators[0]) == 22 \
                and _is_self_attr(c, "closed"):
            res["peek"] = "handshake_record_and_closed"
    body = hb[0].body
    sh = [x for x in (_shutdown_arg(s) for s in body) if x is not None]
    ra = [s for s in ast.walk(ast.Module(body=body, type_ignores=[])) if isinstance(s, ast.Raise)]
    if sh == ["false"] and len(ra) == 2 and isinstance(body[-1], ast.Raise) and body[-1].exc is None:
        res["peekAlert"] = "shutdown_false_raise_alert_else_reraise"
    els = hb[0].orelse
    ifs = [s for s in els if isinstance(s, ast.If)]
    if len(ifs) == 1 and isinstance(els[-1], ast.Raise) and els[-1].exc is None:
        tt = ifs[0].test
        types = None
        if isinstance(tt, ast.Compare) and _attr_chain(tt.left) == ["msg", "contentType"]:
            if isinstance(tt.ops[0], ast.Eq):
                types = [cx.const(tt.comparators[0])]
            elif isinstance(tt.ops[0], ast.In):
                types = cx.const_tuple(tt.comparators[0])
        a = [x for x in (_shutdown_arg(s) for s in ifs[0].body) if x is not None]
        if types is not None and a == ["false"] and not ifs[0].orelse:
            res["closeTypes"] = types
            res["else"] = "shutdown_false_for_types_then_reraise"
    return res


def ku_order(send_fn, handle_fn, cx):
    send = POISON_S
    if send_fn is not None:
        idx_send = idx_key = None
        for i, s in enumerate(send_fn.body):
            for n in ast.walk(s):
                if isinstance(n, ast.Call) and _is_self_attr(n.func, "_sendMsg") and idx_send is None:
                    idx_send = i
                if isinstance(n, ast.Attribute) and n.attr == "calcTLS1_3KeyUpdate_reciever" and idx_key is None:
                    idx_key = i
        if idx_send is not None and idx_key is not None:
            send = "send_then_advance_write" if idx_send < idx_key else "advance_write_then_send"
    handle = POISON_S
    vals = [POISON_N]
    if handle_fn is not None:
        body = [s for s in handle_fn.body if not (isinstance(s, ast.Expr) and isinstance(s.value, ast.Constant))]
        if len(body) == 1 and isinstance(body[0], ast.If):
            top = body[0]
            vs = []
            t = top.test
            if isinstance(t, ast.BoolOp) and isinstance(t.op, ast.Or):
                for v in t.values:
                    if isinstance(v, ast.Compare) and _attr_chain(v.left) == ["request", "message_type"] and isinstance(v.ops[0], ast.Eq):
                        vs.append(cx.const(v.comparators[0]))
            vals = sorted(vs) if vs else [POISON_N]
            first_key = len(top.body) >= 1 and any(isinstance(n, ast.Attribute) and n.attr == "calcTLS1_3KeyUpdate_sender"
                                                   for n in ast.walk(top.body[0]))
            reply = None
            if len(top.body) == 2 and isinstance(top.body[1], ast.If):
                tt = top.body[1].test
                if isinstance(tt, ast.Compare) and _attr_chain(tt.left) == ["request", "message_type"] and isinstance(tt.ops[0], ast.Eq):
                    calls = [n for n in ast.walk(top.body[1]) if isinstance(n, ast.Call) and _is_self_attr(n.func, "send_keyupdate_request")]
                    if len(calls) == 1 and len(calls[0].args) == 1:
                        reply = (cx.const(tt.comparators[0]), cx.const(calls[0].args[0]))
            err = [d for d in (_calls_send_error(s, cx) for s in top.orelse) if d is not None]
            if first_key and reply is not None and len(err) == 1:
                handle = "advance_read_then_if_%d_reply_%d_else_alert_%d" % (reply[0], reply[1], err[0])
    return send, handle, vals


# ------------------------------------------------------------------------------------------------
def _nl(xs):
    return "[" + ", ".join(str(x) for x in xs) + "]"


def _sl(xs):
    return "[" + ", ".join(lean_str(x) for x in xs) + "]"


def generate(repo):
    path = os.path.join(repo, "tlslite", "tlsrecordlayer.py")
    with open(path) as f:
        tree = ast.parse(f.read())
    cx = Ctx(repo)
    K = "TLSRecordLayer"
    ra = read_async(_func(tree, K, "readAsync"), cx)
    gm = _func(tree, K, "_getMsg")
    al = alert_branch(gm, cx)
    dr = decref(_func(tree, K, "_decrefAsync"), cx)
    wshape, whandler = write_async(_func(tree, K, "writeAsync"))
    st = send_through_socket(_func(tree, K, "_sendMsgThroughSocket"), cx)
    kus, kuh, kuvals = ku_order(_func(tree, K, "send_keyupdate_request"), _func(tree, K, "_handle_keyupdate_request"), cx)
    sites = []
    for name in ("readAsync", "_getMsg", "_getNextRecordFromSocket", "_handle_keyupdate_request", "_handle_srv_pha", "_handle_pha"):
        sites.append((name, send_error_sites(_func(tree, K, name), cx)))
    excs = []
    for name in ("_getMsg", "_getNextRecordFromSocket"):
        for e, d in exc_alerts(_func(tree, K, name), cx):
            excs.append((name + ":" + e, d))
    mk = _func(tree, K, "makefile")
    mk_shape = POISON_S
    if mk is not None:
        incs = [s for s in mk.body if isinstance(s, ast.AugAssign) and isinstance(s.op, ast.Add) and _is_self_attr(s.target, "_refCount")
                and isinstance(s.value, ast.Constant) and s.value.value == 1]
        if len(incs) == 1:
            mk_shape = "increment"
    hs = _func(tree, K, "_handshakeStart")
    rc_init = POISON_N
    if hs is not None:
        for s in hs.body:
            if isinstance(s, ast.Assign) and len(s.targets) == 1 and _is_self_attr(s.targets[0], "_refCount") \
                    and isinstance(s.value, ast.Constant) and isinstance(s.value.value, int):
                rc_init = s.value.value
    L = []
    L.append("/- GENERATED by translate/gen_conn.py from tlslite/tlsrecordlayer.py (AST); do not edit.")
    L.append("   Unrecognised shapes are emitted as \"POISON\" / 999, which falsifies the obligations that use them. -/")
    L.append("namespace Tls.Gen.Conn")
    L.append("")
    L.append("/-- readAsync: allowedTypes for TLS 1.3 / for earlier versions -/")
    L.append("def readTypes13 : List Nat := %s" % _nl(ra["types13"]))
    L.append("def readTypesOld : List Nat := %s" % _nl(ra["typesOld"]))
    L.append("/-- readAsync: allowedHsTypes per branch of the role test, in source order -/")
    L.append("def readAllowed : List (String × List Nat) := [%s]" % ", ".join("(%s, %s)" % (lean_str(k), _nl(v)) for k, v in ra["allowed"]))
    L.append("/-- readAsync: the isinstance dispatch chain (class, handler) in source order -/")
    L.append("def readDispatch : List (String × String) := [%s]" % ", ".join("(%s, %s)" % (lean_str(a), lean_str(b)) for a, b in ra["dispatch"]))
    L.append("/-- readAsync: result classes after which try_once is re-armed -/")
    L.append("def readRearm : List String := %s" % _sl(ra["rearm"]))
    L.append("/-- readAsync: except clauses around one _getMsg round, and the outer one -/")
    L.append("def readInnerExcept : List (String × String) := [%s]" % ", ".join("(%s, %s)" % (lean_str(a), lean_str(b)) for a, b in ra["inner"]))
    L.append("def readOuterExcept : String := %s" % lean_str(ra["outer"]))
    L.append("")
    L.append("/-- _getMsg alert branch: is the alert answered with an alert of our own? -/")
    L.append("def alertReply (lvl d : Nat) : Bool := %s" % al["reply"])
    L.append("/-- ... the (level, description) of that answer -/")
    L.append("def alertReplyMsg : Nat × Nat := (%d, %d)" % al["replyMsg"])
    L.append("/-- ... exception types forgiven when the answer cannot be sent, and what the handlers do -/")
    L.append("def alertReplyForgiven : List String := %s" % _sl(al["forgiven"]))
    L.append("def alertReplyForgivenBody : String := %s" % lean_str(al["forgivenBody"]))
    L.append("/-- ... the argument of _shutdown: does the session stay resumable? -/")
    L.append("def alertKeepsResumable (lvl d : Nat) : Bool := %s" % al["keep"])
    L.append("def alertRaises : String := %s" % lean_str(al["raises"]))
    L.append("")
    L.append("/-- descriptions of the _sendError call sites, per function, in source order -/")
    L.append("def sendErrorSites : List (String × List Nat) := [%s]" % ", ".join("(%s, %s)" % (lean_str(k), _nl(v)) for k, v in sites))
    L.append("/-- exception class -> alert of the except clauses -/")
    L.append("def excAlert : List (String × Nat) := [%s]" % ", ".join("(%s, %d)" % (lean_str(k), v) for k, v in excs))
    L.append("")
    L.append("/-- _decrefAsync / makefile / _handshakeStart: reference counting -/")
    L.append("def refCountInit : Nat := %d" % rc_init)
    L.append("def makefileShape : String := %s" % lean_str(mk_shape))
    L.append("def decrefGuard : String := %s" % lean_str(dr["guard"]))
    L.append("/-- the alert close sends first: (level, description) -/")
    L.append("def closeFirstAlert : Nat × Nat := (%d, %d)" % dr["first"])
    L.append("def closeSocketBranch : String := %s" % lean_str(dr["closeSocket"]))
    L.append("/-- expected / secondary types of the wait loop: TLS 1.3 client, TLS 1.3 server, earlier versions -/")
    L.append("def closeWait13Client : List Nat × List Nat := (%s, %s)" % (_nl(dr["wait13c"][0]), _nl(dr["wait13c"][1])))
    L.append("def closeWait13Server : List Nat × List Nat := (%s, %s)" % (_nl(dr["wait13s"][0]), _nl(dr["wait13s"][1])))
    L.append("def closeWaitOld : List Nat × List Nat := (%s, %s)" % (_nl(dr["waitOld"][0]), _nl(dr["waitOld"][1])))
    L.append("def closeWaitKeyUpdate : String := %s" % lean_str(dr["kuInWait"]))
    L.append("def closeWaitFinal : String := %s" % lean_str(dr["final"]))
    L.append("def closeExcept : List (String × String) := [%s]" % ", ".join("(%s, %s)" % (lean_str(a), lean_str(b)) for a, b in dr["handlers"]))
    L.append("")
    L.append("/-- writeAsync -/")
    L.append("def writeShape : String := %s" % lean_str(wshape))
    L.append("def writeExcept : String := %s" % lean_str(whandler))
    L.append("")
    L.append("/-- _sendMsgThroughSocket on socket.error -/")
    L.append("def sendFailPeek : String := %s" % lean_str(st["peek"]))
    L.append("def sendFailPeekOutcome : String := %s" % lean_str(st["peekAlert"]))
    L.append("def sendFailCloseTypes : List Nat := %s" % _nl(st["closeTypes"]))
    L.append("def sendFailElse : String := %s" % lean_str(st["else"]))
    L.append("")
    L.append("/-- KeyUpdate: order of effects -/")
    L.append("def keyUpdateSend : String := %s" % lean_str(kus))
    L.append("def keyUpdateHandle : String := %s" % lean_str(kuh))
    L.append("def keyUpdateValidValues : List Nat := %s" % _nl(kuvals))
    L.append("")
    L.append("end Tls.Gen.Conn")
    return {"TlsModel/Gen/Conn.lean": "\n".join(L) + "\n"}
