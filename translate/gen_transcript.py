"""tlslite/tlsconnection.py, tlsrecordlayer.py, mathtls.py, handshakehelpers.py
   -> lean/TlsModel/Gen/Transcript.lean      (tables used by C04's model)

Read from the AST of the tree under check, nothing is executed:

  sentinelWrites    the `if`s of the server that overwrite ServerHello.random[-8:], in source order,
                    each with its condition over (version, settings.maxVersion) and the constant written
  sentinelChecks    the `if`s of the client that compare serverHello.random[-8:] with a sentinel and
                    abort, with condition and alert
  scsvChecks        every `if` that tests TLS_FALLBACK_SCSV membership of clientHello.cipher_suites on
                    the server, condition, alert, and whether it precedes the resumption block
  scsvAppend        the client's condition for appending TLS_FALLBACK_SCSV
  hashSites         every `_handshake_hash.update(..)` of the record layer: function, argument, guard
  restartSites      every place the transcript is replaced (HelloRetryRequest): what is hashed after
  sched13Client/Server   TLS 1.3: in source order, which handshake messages were sent / received
                    before each Derive-Secret (label, transcript object), each Finished / binder /
                    CertificateVerify digest and each transcript snapshot
  finished12        labels and transcript of verify_data below TLS 1.3; emsSnapshots: where the
                    session hash of the extended master secret is frozen; calcKeySeeds: what calc_key
                    feeds the PRF per label
  binderSites       what handshakehelpers hashes for PSK binders

A shape the translator does not understand becomes `Cond.poison "<source>"` / a kind or argument
called "?<source>" — the dependent theorem of Props/C04Gen.lean is then false; nothing is guessed.
"""
import ast
import os

from . import lean_str, lean_list


def src(node):
    try:
        return ast.unparse(node)
    except Exception:
        return "<?>"


def parents_of(tree):
    par = {}
    for n in ast.walk(tree):
        for c in ast.iter_child_nodes(n):
            par[c] = n
    return par


def find_func(tree, name):
    for n in ast.walk(tree):
        if isinstance(n, (ast.FunctionDef, ast.AsyncFunctionDef)) and n.name == name:
            return n
    return None


# ---------------------------------------------------------------------------------------------
# conditions

SENT = {"TLS_1_2_DOWNGRADE_SENTINEL": 2, "TLS_1_1_DOWNGRADE_SENTINEL": 1}
OPS = {ast.Lt: "lt", ast.LtE: "le", ast.Eq: "eq", ast.NotEq: "ne", ast.Gt: "gt", ast.GtE: "ge"}


def vexp(n):
    s = src(n)
    if s == "version":
        return "(.var .version)"
    if s == "self.version":
        return "(.var .selfVersion)"
    if s == "settings.maxVersion":
        return "(.var .maxVersion)"
    if s == "settings.minVersion":
        return "(.var .minVersion)"
    if isinstance(n, ast.Tuple) and len(n.elts) == 2 and all(isinstance(e, ast.Constant) and isinstance(e.value, int)
                                                              for e in n.elts):
        return "(.const %d %d)" % (n.elts[0].value, n.elts[1].value)
    return None


def cond(n):
    """python test expression -> Lean `Cond` term"""
    if isinstance(n, ast.BoolOp):
        parts = [cond(v) for v in n.values]
        op = ".and" if isinstance(n.op, ast.And) else ".or"
        out = parts[-1]
        for p in reversed(parts[:-1]):
            out = "(%s %s %s)" % (op, p, out)
        return out
    if isinstance(n, ast.UnaryOp) and isinstance(n.op, ast.Not):
        return "(.not %s)" % cond(n.operand)
    if isinstance(n, ast.Compare) and len(n.ops) == 1:
        l, r, op = n.left, n.comparators[0], n.ops[0]
        ls, rs = src(l), src(r)
        if type(op) in OPS:
            a, b = vexp(l), vexp(r)
            if a and b:
                return "(.cmp .%s %s %s)" % (OPS[type(op)], a, b)
            if isinstance(op, ast.Eq) and ls == "serverHello.random[-8:]" and rs in SENT:
                return "(.tailIs %d)" % SENT[rs]
            if isinstance(op, ast.Eq) and ls == "contentType" and rs == "ContentType.handshake":
                return '(.flag "isHandshake")'
            if isinstance(op, ast.Eq) and ls == "msg.contentType" and rs == "ContentType.handshake":
                return '(.flag "isHandshake")'
        if isinstance(op, ast.In) and ls == "CipherSuite.TLS_FALLBACK_SCSV" and rs == "clientHello.cipher_suites":
            return ".scsvOffered"
    if isinstance(n, ast.Name) and n.id == "update_hashes":
        return '(.flag "updateHashes")'
    if isinstance(n, ast.Attribute) and src(n) == "settings.sendFallbackSCSV":
        return '(.flag "sendFallbackSCSV")'
    return "(.poison %s)" % lean_str(src(n))


def alert_of(body):
    """AlertDescription named in a `_sendError(..)` inside the statements"""
    for st in body:
        for n in ast.walk(st):
            if isinstance(n, ast.Call) and src(n.func) == "self._sendError" and n.args:
                a = src(n.args[0]).replace("\n", " ").replace(" ", "")
                if a.startswith("AlertDescription."):
                    return a[len("AlertDescription."):]
                return "?" + a
    return None


# ---------------------------------------------------------------------------------------------
# sentinel / SCSV


def sentinel_tables(tree):
    writes, checks = [], []
    for n in ast.walk(tree):
        if not isinstance(n, ast.If):
            continue
        # write: body assigns random[-8:] = SENTINEL
        for st in n.body:
            if isinstance(st, ast.Assign) and len(st.targets) == 1 and src(st.targets[0]).endswith("[-8:]"):
                which = SENT.get(src(st.value))
                tgt = src(st.targets[0])
                writes.append((n.lineno, cond(n.test) if tgt == "random[-8:]" else "(.poison %s)" % lean_str(tgt),
                               which if which is not None else 0))
        t = src(n.test)
        if "DOWNGRADE_SENTINEL" in t:
            al = alert_of(n.body)
            checks.append((n.lineno, cond(n.test), al if al is not None else "?no-alert"))
    # any other mention of the sentinels (a write outside an `if`, a comparison elsewhere) is not understood
    mentions = len([1 for n in ast.walk(tree) if isinstance(n, ast.Name) and n.id in SENT])
    writes.sort()
    checks.sort()
    return writes, checks, mentions


def scsv_tables(tree):
    fn = find_func(tree, "_serverGetClientHello")
    checks = []
    resumption_line = None
    if fn is not None:
        for n in ast.walk(fn):
            if isinstance(n, ast.If):
                t = src(n.test)
                if "TLS_FALLBACK_SCSV" in t:
                    al = alert_of(n.body)
                    checks.append((n.lineno, cond(n.test), al if al is not None else "?no-alert"))
                if "sessionCache" in t and "clientHello.session_id" in t and resumption_line is None:
                    resumption_line = n.lineno
    checks.sort()
    before = bool(checks) and resumption_line is not None and all(l < resumption_line for l, _, _ in checks)
    # the version assignment(s) must precede the test as well
    mentions = len([1 for n in ast.walk(tree) if isinstance(n, ast.Attribute) and n.attr == "TLS_FALLBACK_SCSV"])
    # client side: wireCipherSuites.append(TLS_FALLBACK_SCSV) under `if settings.sendFallbackSCSV`
    appends = []
    for n in ast.walk(tree):
        if isinstance(n, ast.If):
            for st in n.body:
                if isinstance(st, ast.Expr) and isinstance(st.value, ast.Call) and \
                        src(st.value.func).endswith(".append") and "TLS_FALLBACK_SCSV" in src(st.value):
                    appends.append((n.lineno, cond(n.test), src(st.value.func)[:-len(".append")]))
    appends.sort()
    return checks, before, mentions, appends


def client_hello_suites(tree):
    """which list every ClientHello the client builds puts on the wire (4th argument of create)"""
    fn = find_func(tree, "_clientSendClientHello")
    out = []
    if fn is None:
        return ["?missing"]
    for n in ast.walk(fn):
        if isinstance(n, ast.Call) and src(n.func) == "clientHello.create":
            out.append((n.lineno, src(n.args[3]) if len(n.args) > 3 else "?" + src(n)[:40]))
    out.sort()
    return [a for _, a in out] or ["?none"]


# ---------------------------------------------------------------------------------------------
# record layer: what enters the transcript


def guard_chain(node, par, stop):
    """conjunction of the `if` tests enclosing node inside function `stop` (else-branches negated)"""
    conds = []
    cur = node
    while cur is not stop and cur in par:
        p = par[cur]
        if isinstance(p, ast.If):
            if cur in p.body:
                conds.append(cond(p.test))
            elif cur in p.orelse:
                conds.append("(.not %s)" % cond(p.test))
        elif isinstance(p, (ast.While, ast.For, ast.Try, ast.With)):
            pass
        cur = p
    return conds


def hash_sites(tree):
    par = parents_of(tree)
    sites = []
    for fname in ("_sendMsg", "_queue_message", "_getMsg", "_queue_flush", "_sendMsgs", "_sendMsgThroughSocket",
                  "_getNextRecord", "_getNextRecordFromSocket", "_handle_srv_pha", "_handle_pha"):
        fn = find_func(tree, fname)
        if fn is None:
            continue
        for n in ast.walk(fn):
            if isinstance(n, ast.Call) and src(n.func) == "self._handshake_hash.update":
                g = guard_chain(n, par, fn)
                if fname == "_getMsg":
                    # the update sits in the branch that handles handshake records; keep only the
                    # innermost guards that talk about the message itself
                    g = [x for x in g if "poison" not in x or "recordHeader.type == ContentType.handshake" not in x]
                    g = [x for x in g if "poison" in x and "recordHeader.type == ContentType.handshake" not in x
                         and "subType" in x] or []
                c = "(.flag \"always\")"
                for x in g:
                    c = x if c == "(.flag \"always\")" else "(.and %s %s)" % (x, c)
                sites.append((fname, src(n.args[0]) if n.args else "?", c))
    # every other update of the running transcript in the record layer
    others = []
    for n in ast.walk(tree):
        if isinstance(n, ast.Call) and src(n.func) == "self._handshake_hash.update":
            f = n
            while f in par and not isinstance(f, ast.FunctionDef):
                f = par[f]
            nm = getattr(f, "name", "?")
            if nm not in ("_sendMsg", "_queue_message", "_getMsg"):
                others.append(nm)
    return sites, sorted(others)


def arg_defs(tree, fname, names):
    """how the hashed variables are defined inside the function (buf = msg.write() ...)"""
    fn = find_func(tree, fname)
    out = []
    if fn is None:
        return out
    for n in ast.walk(fn):
        if isinstance(n, ast.Assign) and len(n.targets) == 1 and src(n.targets[0]) in names:
            out.append((n.lineno, src(n.targets[0]), src(n.value)))
    out.sort()
    return [(a, b) for _, a, b in out]


def restart_sites(tree):
    """`self._handshake_hash = HandshakeHashes()` and what is fed to it next"""
    res = []
    for fn in ast.walk(tree):
        if not isinstance(fn, ast.FunctionDef):
            continue
        stmts = sorted([n for n in ast.walk(fn) if isinstance(n, (ast.Assign, ast.Expr))],
                       key=lambda n: (n.lineno, n.col_offset))
        for i, st in enumerate(stmts):
            if isinstance(st, ast.Assign) and src(st.targets[0]) == "self._handshake_hash" and \
                    src(st.value) == "HandshakeHashes()":
                seq = []
                digest = "inline"
                for back in stmts[max(0, i - 6):i]:
                    if isinstance(back, ast.Assign) and ".digest(" in src(back.value):
                        digest = src(back.value)
                for nx in stmts[i + 1:i + 8]:
                    s = src(nx)
                    if isinstance(nx, ast.Expr) and s.startswith("writer.add"):
                        seq.append(s)
                    elif isinstance(nx, ast.Expr) and s.startswith("self._handshake_hash.update"):
                        seq.append(s)
                    elif isinstance(nx, ast.Assign) and src(nx.targets[0]) == "writer":
                        continue
                    else:
                        if seq:
                            break
                res.append((fn.name, digest, seq))
    return res


# ---------------------------------------------------------------------------------------------
# TLS 1.3 schedule: messages hashed before each derivation

CLASS_KIND = {"EncryptedExtensions": "encrypted_extensions", "Finished": "finished",
              "CertificateVerify": "certificate_verify", "CertificateRequest": "certificate_request",
              "ServerHello": "server_hello", "Certificate": "certificate", "ChangeCipherSpec": "ccs",
              "ClientHello": "client_hello", "NewSessionTicket": "new_session_ticket",
              "CompressedCertificate": "compressed_certificate", "ClientKeyExchange": "client_key_exchange",
              "ServerKeyExchange": "server_key_exchange"}


def base_class(expr):
    """X(...).create(...) / X(...) -> 'X' ; self._create_cert_msg(..) -> certificate"""
    n = expr
    while True:
        if isinstance(n, ast.Call):
            if isinstance(n.func, ast.Name):
                return n.func.id
            if src(n.func) == "self._create_cert_msg":
                return "_create_cert_msg"
            if isinstance(n.func, ast.Attribute) and n.func.attr == "makeClientKeyExchange":
                return "ClientKeyExchange"
            if isinstance(n.func, ast.Attribute) and n.func.attr == "makeServerKeyExchange":
                return "ServerKeyExchange"
            if isinstance(n.func, ast.Attribute):
                n = n.func.value
                continue
        return None


def kinds_of_types(node):
    """HandshakeType.x / tuple of them -> [names] ; else None"""
    if isinstance(node, ast.Attribute) and src(node.value) == "HandshakeType":
        return [node.attr]
    if isinstance(node, ast.Tuple):
        out = []
        for e in node.elts:
            k = kinds_of_types(e)
            if k is None:
                return None
            out += k
        return out
    return None


def ordered(fn):
    return sorted([n for n in ast.walk(fn) if isinstance(n, (ast.Call, ast.Assign))],
                  key=lambda n: (n.lineno, n.col_offset, 0 if isinstance(n, ast.Assign) else 1))


def optional_in(node, par, fn):
    """is the node inside an `if` of the function (apart from the generator plumbing)?"""
    cur = node
    while cur is not fn and cur in par:
        p = par[cur]
        if isinstance(p, ast.If) and "result in (0, 1)" not in src(p.test) and "result in (0,1)" not in src(p.test):
            return True
        cur = p
    return False


def resolve_msg_var(fn, name, before, after):
    """kinds a local variable may hold at line `before` (assignments after line `after`)"""
    kinds = []
    assigns = sorted([n for n in ast.walk(fn) if isinstance(n, ast.Assign) and len(n.targets) == 1 and
                      src(n.targets[0]) == name and after < n.lineno <= before], key=lambda n: n.lineno)
    for n in assigns:
        c = base_class(n.value)
        if c == "_create_cert_msg":
            new = ["certificate", "compressed_certificate"]
        elif c in CLASS_KIND:
            new = [CLASS_KIND[c]]
        else:
            kinds = ["?" + src(n.value)[:40]]       # rebound to something else: what came before is gone
            continue
        if any(k.startswith("?") for k in kinds):
            kinds = []
        kinds += new
    return kinds


def schedule(tree, fname, entry):
    fn = find_func(tree, fname)
    if fn is None:
        return [("poison", "?missing " + fname, "", [])]
    par = parents_of(fn)
    prefix = list(entry)             # [(kinds, optional)]
    snaps = {"self._handshake_hash": None}
    evs = []
    last_msg_line = fn.lineno

    def cur(hh):
        if hh in ("self._handshake_hash",):
            return list(prefix)
        if hh in snaps and snaps[hh] is not None:
            return list(snaps[hh])
        if hh == "None":
            return None
        return [(["?" + hh], False)]

    for n in ordered(fn):
        if isinstance(n, ast.Assign):
            if len(n.targets) == 1 and src(n.value) == "self._handshake_hash.copy()":
                snaps[src(n.targets[0])] = list(prefix)
                evs.append(("snapshot", src(n.targets[0]), "self._handshake_hash", list(prefix)))
            continue
        f = src(n.func)
        if f in ("self._getMsg", "self._sendMsg", "self._queue_message", "self._sendMsgs"):
            opt = optional_in(n, par, fn)
            kinds = None
            if f == "self._getMsg":
                if len(n.args) >= 2:
                    kinds = kinds_of_types(n.args[1])
                    if kinds is None and isinstance(n.args[1], ast.Name):
                        ks = []
                        for a in ast.walk(fn):
                            if isinstance(a, ast.Assign) and src(a.targets[0]) == n.args[1].id and \
                                    last_msg_line < a.lineno <= n.lineno:
                                k = kinds_of_types(a.value)
                                ks += k if k is not None else ["?" + src(a.value)[:40]]
                        kinds = sorted(set(ks)) if ks else None
                if kinds is None:
                    kinds = ["?" + src(n)[:60]]
            elif f in ("self._sendMsg", "self._queue_message"):
                a = n.args[0] if n.args else None
                if isinstance(a, ast.Name):
                    kinds = sorted(set(resolve_msg_var(fn, a.id, n.lineno, 0)))
                if not kinds:
                    kinds = ["?" + src(n)[:60]]
            else:
                a = n.args[0] if n.args else None
                names = []
                if isinstance(a, ast.List):
                    names = [src(e) for e in a.elts]
                elif isinstance(a, ast.Name):
                    for b in ast.walk(fn):
                        if last_msg_line < getattr(b, "lineno", 0) <= n.lineno:
                            if isinstance(b, ast.Assign) and src(b.targets[0]) == a.id and isinstance(b.value, ast.List):
                                names = [src(e) for e in b.value.elts] if not names or len(b.value.elts) >= len(names) \
                                    else names
                            if isinstance(b, ast.Call) and src(b.func) == a.id + ".append":
                                names.append(src(b.args[0]))
                kinds = []
                for nm in names:
                    k = resolve_msg_var(fn, nm, n.lineno, 0)[-1:]
                    kinds += k if k else ["?" + nm]
                kinds = [k for k in dict.fromkeys(kinds) if k != "ccs"] or ["?" + src(n)[:60]]
            kinds = sorted(set(kinds)) if f == "self._getMsg" else kinds
            ev = ("recv" if f == "self._getMsg" else "send", ",".join(kinds), "opt" if opt else "req", [])
            evs.append(ev)
            prefix.append((kinds, opt))
            last_msg_line = n.lineno
            continue
        if f == "derive_secret" and len(n.args) >= 3:
            lab = n.args[1]
            labs = src(lab)
            if isinstance(lab, ast.Call) and src(lab.func) == "bytearray" and lab.args and \
                    isinstance(lab.args[0], ast.Constant):
                labs = lab.args[0].value.decode() if isinstance(lab.args[0].value, bytes) else str(lab.args[0].value)
            elif isinstance(lab, ast.Constant) and isinstance(lab.value, bytes):
                labs = lab.value.decode()
            else:
                labs = "?" + labs
            hh = src(n.args[2])
            evs.append(("derive", labs, hh, cur(hh)))
            continue
        if f.endswith(".digest") and src(n.func.value) in snaps:
            hh = src(n.func.value)
            # name of what is computed from it
            p = n
            tgt = "?"
            while p in par:
                p = par[p]
                if isinstance(p, ast.Assign):
                    tgt = src(p.targets[0])
                    break
            evs.append(("digest", tgt, hh, cur(hh)))
            continue
        if f == "KeyExchange.calcVerifyBytes" and len(n.args) >= 2:
            hh = src(n.args[1])
            who = src(n.args[-1])
            evs.append(("certverify", who, hh, cur(hh)))
            continue
        if f in ("HandshakeHelpers.verify_binder", "HandshakeHelpers.update_binders") and len(n.args) >= 2:
            evs.append(("binder", f.split(".")[1], src(n.args[1]), []))
    return evs


# ---------------------------------------------------------------------------------------------
# <= TLS 1.2


def finished12(tree):
    out = []
    for fname in ("_sendFinished", "_getFinished"):
        fn = find_func(tree, fname)
        if fn is None:
            out.append((fname, "?missing", "?", "?", "?"))
            continue
        labels = {}
        for n in ast.walk(fn):
            if isinstance(n, ast.If) and src(n.test) == "self._client":
                for br, sts in (("client", n.body), ("server", n.orelse)):
                    for st in sts:
                        if isinstance(st, ast.Assign) and src(st.targets[0]) == "label" and \
                                isinstance(st.value, ast.Constant):
                            labels[br] = st.value.value.decode()
        hh, outlen, cmpsrc = "?", "?", "no comparison"
        for n in ast.walk(fn):
            if isinstance(n, ast.Call) and src(n.func) == "calc_key":
                for k in n.keywords:
                    if k.arg == "handshake_hashes":
                        hh = src(k.value)
                    if k.arg == "output_length":
                        outlen = src(k.value)
            if isinstance(n, ast.If) and "verify_data" in src(n.test):
                cmpsrc = src(n.test)
        out.append((fname, labels.get("client", "?"), labels.get("server", "?"), hh + "/" + outlen, cmpsrc))
    return out


def finished13_compares(tree):
    out = []
    for fname in ("_clientTLS13Handshake", "_serverTLS13Handshake"):
        fn = find_func(tree, fname)
        if fn is None:
            continue
        for n in ast.walk(fn):
            if isinstance(n, ast.If) and "verify_data" in src(n.test):
                out.append((fname, src(n.test)))
    return out


def ems_snapshots(tree):
    """where _certificate_verify_handshake_hash (session hash of RFC 7627) is frozen: the last
    message call before it in the same function"""
    res = []
    for fn in ast.walk(tree):
        if not isinstance(fn, ast.FunctionDef):
            continue
        nodes = ordered(fn)
        for i, n in enumerate(nodes):
            if isinstance(n, ast.Assign) and src(n.targets[0]) == "self._certificate_verify_handshake_hash" and \
                    src(n.value) == "self._handshake_hash.copy()":
                last = "?none"
                for b in reversed(nodes[:i]):
                    if isinstance(b, ast.Call) and src(b.func) in ("self._getMsg", "self._sendMsg"):
                        if src(b.func) == "self._getMsg" and len(b.args) >= 2:
                            k = kinds_of_types(b.args[1])
                            last = "recv:" + (",".join(k) if k else "?" + src(b.args[1]))
                        else:
                            a = b.args[0] if b.args else None
                            k = resolve_msg_var(fn, src(a), b.lineno, 0)[-1:] if a is not None else []
                            last = "send:" + (k[0] if k else src(a))
                        break
                res.append((fn.name, last))
    return res


def master_secret(tree):
    fn = find_func(tree, "_calculate_master_secret")
    rows = []
    if fn is None:
        return [("?missing", "?", "?")]
    for n in ast.walk(fn):
        if isinstance(n, ast.Call) and src(n.func) == "calc_key" and len(n.args) >= 4:
            lab = n.args[3].value.decode() if isinstance(n.args[3], ast.Constant) else "?" + src(n.args[3])
            kws = sorted("%s=%s" % (k.arg, src(k.value)) for k in n.keywords if k.arg != "output_length")
            guard = "?"
            par = parents_of(fn)
            g = guard_chain(n, par, fn)
            rows.append((lab, ";".join(kws), "ems" if any("not" not in x and "extendedMasterSecret" in x for x in g)
                         else "noems" if any("extendedMasterSecret" in x for x in g) else "?"))
    fb = [src(n.test) for n in ast.walk(fn) if isinstance(n, ast.If) and "cvhh" in src(n.test)]
    return sorted(rows), fb


def calc_key_seeds(tree):
    """mathtls.calc_key: which seed each label gets, per version branch (source text of the assignment)"""
    fn = find_func(tree, "calc_key")
    rows = []
    if fn is None:
        return [("?missing", "?", "?")]
    par = parents_of(fn)
    for n in ast.walk(fn):
        if isinstance(n, ast.Assign) and src(n.targets[0]) == "seed":
            g = []
            cur = n
            while cur is not fn and cur in par:
                p = par[cur]
                if isinstance(p, ast.If):
                    g.append(("" if cur in p.body else "not ") + src(p.test).replace("\n", " "))
                cur = p
            rows.append((" & ".join(reversed(g)), src(n.value)))
        if isinstance(n, ast.Return) and "digestSSL" in src(n.value):
            g = []
            cur = n
            while cur is not fn and cur in par:
                p = par[cur]
                if isinstance(p, ast.If):
                    g.append(("" if cur in p.body else "not ") + src(p.test).replace("\n", " "))
                cur = p
            rows.append((" & ".join(reversed(g)), src(n.value)))
    return rows


def binder_sites(tree):
    rows = []
    for fname in ("update_binders", "verify_binder", "_calc_binder"):
        fn = find_func(tree, fname)
        if fn is None:
            rows.append((fname, "?missing"))
            continue
        for n in ordered(fn):
            if isinstance(n, ast.Call) and src(n.func) in ("hh.update", "handshake_hash.digest"):
                rows.append((fname, src(n)))
            if isinstance(n, ast.Call) and src(n.func) in ("derive_secret", "HKDF_expand_label", "secureHMAC") \
                    and fname == "_calc_binder":
                rows.append((fname, src(n).replace("\n", " ")))
            if isinstance(n, ast.Call) and src(n.func) == "ct_compare_digest":
                rows.append((fname, src(n)))
    return rows


# ---------------------------------------------------------------------------------------------
# emit


def lp(prefix):
    if prefix is None:
        return "none"
    return "(some %s)" % lean_list(prefix, lambda kv: "(%s, %s)" % (lean_list(kv[0], lean_str), "true" if kv[1] else "false"))


def ev_lean(e):
    k = e[0]
    if k in ("recv", "send"):
        return ".msg %s %s %s" % (lean_str(k), lean_list(e[1].split(","), lean_str), "true" if e[2] == "opt" else "false")
    if k == "poison":
        return ".poison %s" % lean_str(e[1])
    return ".%s %s %s %s" % (k, lean_str(e[1]), lean_str(e[2]), lp(e[3]))


def generate(repo):
    def parse(rel):
        with open(os.path.join(repo, rel)) as f:
            return ast.parse(f.read())
    tc = parse("tlslite/tlsconnection.py")
    rl = parse("tlslite/tlsrecordlayer.py")
    mt = parse("tlslite/mathtls.py")
    hh = parse("tlslite/handshakehelpers.py")
    writes, checks, mentions = sentinel_tables(tc)
    scsv, before, scsv_mentions, appends = scsv_tables(tc)
    sites, others = hash_sites(rl)
    defs = arg_defs(rl, "_sendMsg", ("buf",)) + arg_defs(rl, "_queue_message", ("serialised_msg",))
    restarts = restart_sites(tc)
    s13c = schedule(tc, "_clientTLS13Handshake", [(["client_hello"], False), (["server_hello"], False)])
    s13s = schedule(tc, "_serverTLS13Handshake", [(["client_hello"], False)])
    f12 = finished12(tc)
    f13 = finished13_compares(tc)
    ems = ems_snapshots(tc)
    ms, ms_fallback = master_secret(tc)
    seeds = calc_key_seeds(mt)
    binders = binder_sites(hh)
    trip = lambda t: "(%s, %s, %s)" % (lean_str(t[0]), lean_str(t[1]), lean_str(t[2]))
    pair = lambda t: "(%s, %s)" % (lean_str(t[0]), lean_str(t[1]))
    L = []
    L.append("import TlsModel.TranscriptGenBase")
    L.append("/- GENERATED by translate/gen_transcript.py from tlslite/tlsconnection.py, tlsrecordlayer.py, mathtls.py,")
    L.append("   handshakehelpers.py of the tree under check — do not edit. -/")
    L.append("namespace Tls.Transcript.Gen")
    L.append("open Tls.Transcript.GenBase")
    L.append("")
    L.append("/-- server: (condition, sentinel written: 2 = DOWNGRD\\x01, 1 = DOWNGRD\\x00) in source order -/")
    L.append("def sentinelWrites : List (Cond × Nat) := " + lean_list(writes, lambda w: "(%s, %d)" % (w[1], w[2])))
    L.append("/-- client: (condition, alert) -/")
    L.append("def sentinelChecks : List (Cond × String) := " + lean_list(checks, lambda w: "(%s, %s)" % (w[1], lean_str(w[2]))))
    L.append("/-- occurrences of the two sentinel constants in tlsconnection.py (import + 2 writes + 3 comparisons) -/")
    L.append("def sentinelMentions : Nat := %d" % mentions)
    L.append("def scsvChecks : List (Cond × String) := " + lean_list(scsv, lambda w: "(%s, %s)" % (w[1], lean_str(w[2]))))
    L.append("def scsvBeforeResumption : Bool := %s" % ("true" if before else "false"))
    L.append("def scsvMentions : Nat := %d" % scsv_mentions)
    L.append("/-- the cipher-suite argument of every ClientHello the client creates -/")
    L.append("def clientHelloSuites : List String := " + lean_list(client_hello_suites(tc), lean_str))
    L.append("def scsvAppend : List (Cond × String) := " + lean_list(appends, lambda w: "(%s, %s)" % (w[1], lean_str(w[2]))))
    L.append("")
    L.append("/-- record layer: (function, what is hashed, guard) -/")
    L.append("def hashSites : List (String × String × Cond) := " +
             lean_list(sites, lambda t: "(%s, %s, %s)" % (lean_str(t[0]), lean_str(t[1]), t[2])))
    L.append("def otherHashUpdates : List String := " + lean_list(others, lean_str))
    L.append("def hashedVarDefs : List (String × String) := " + lean_list(defs, pair))
    L.append("/-- (function, digest taken before, what is fed to the fresh transcript) -/")
    L.append("def restartSites : List (String × String × List String) := " +
             lean_list(restarts, lambda t: "(%s, %s, %s)" % (lean_str(t[0]), lean_str(t[1]), lean_list(t[2], lean_str))))
    L.append("")
    L.append("def sched13Client : List SchedEv := " + lean_list(s13c, lambda e: "\n  " + ev_lean(e)))
    L.append("def sched13Server : List SchedEv := " + lean_list(s13s, lambda e: "\n  " + ev_lean(e)))
    L.append("")
    L.append("/-- (function, label when client, label when server, transcript/length, comparison) -/")
    L.append("def finished12 : List (String × String × String × String × String) := " +
             lean_list(f12, lambda t: "(%s)" % ", ".join(lean_str(x) for x in t)))
    L.append("def finished13Compares : List (String × String) := " + lean_list(f13, pair))
    L.append("def emsSnapshots : List (String × String) := " + lean_list(ems, pair))
    L.append("def masterSecretCalls : List (String × String × String) := " + lean_list(ms, trip))
    L.append("def masterSecretFallback : List String := " + lean_list(ms_fallback, lean_str))
    L.append("def calcKeySeeds : List (String × String) := " + lean_list(seeds, pair))
    L.append("def binderSites : List (String × String) := " + lean_list(binders, pair))
    L.append("")
    L.append("end Tls.Transcript.Gen")
    return {"TlsModel/Gen/Transcript.lean": "\n".join(L) + "\n"}
