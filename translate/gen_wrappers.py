"""Blocking API wrappers -> lean/TlsModel/Gen/Wrappers.lean   (C14: sync == async)

For every blocking API function the translator reads the AST and decides whether its body is
literally "drive the asynchronous generator to exhaustion (and return its last result)".
Recognised shapes (anything else, or a missing function, is emitted as `false` - never guessed):

  drive        [docstring]  for v in self.<gen>(<own parameters, passed through unchanged>): pass
               [return v]                               (read: the return is required)
  drive_handle [docstring]  [parameter normalisations: if isinstance(p, str): p = bytearray(p, ..)]
               h = self.<gen>(...)  ;  if async_: return h  ;  for v in h: pass
  mirror       the blocking body equals the generator's body with every `yield v` inside
               `for v in ...` replaced by `pass`          (close vs closeAsync)
  until_result for v in self.<gen>(...): if v in (0, 1): pass / else: return v
  delegate     the body only forwards to another blocking wrapper with unchanged arguments
               (send -> write, sendall -> write, recv -> read)

`facts` lists (qualified name, shape recognised); Props/C14.lean has the `decide` obligation that
every required name is present and true.
"""
import ast
import os

from . import lean_str

# (file, class, function, shape, generator name / mirror target, needs `return v`)
TARGETS = [
    ("tlslite/tlsconnection.py", "TLSConnection", "handshakeClientAnonymous", "drive_handle", "_handshakeClientAsync", False),
    ("tlslite/tlsconnection.py", "TLSConnection", "handshakeClientSRP", "drive_handle", "_handshakeClientAsync", False),
    ("tlslite/tlsconnection.py", "TLSConnection", "handshakeClientCert", "drive_handle", "_handshakeClientAsync", False),
    ("tlslite/tlsconnection.py", "TLSConnection", "handshakeServer", "drive", "handshakeServerAsync", False),
    ("tlslite/tlsrecordlayer.py", "TLSRecordLayer", "read", "drive", "readAsync", True),
    ("tlslite/tlsrecordlayer.py", "TLSRecordLayer", "write", "drive", "writeAsync", False),
    ("tlslite/tlsrecordlayer.py", "TLSRecordLayer", "close", "mirror", "closeAsync", False),
    ("tlslite/tlsrecordlayer.py", "TLSRecordLayer", "send_heartbeat_request", "drive", "write_heartbeat", False),
    ("tlslite/tlsrecordlayer.py", "TLSRecordLayer", "send", "delegate", "write", False),
    ("tlslite/tlsrecordlayer.py", "TLSRecordLayer", "sendall", "delegate", "write", False),
    ("tlslite/tlsrecordlayer.py", "TLSRecordLayer", "recv", "delegate", "read", False),
    ("tlslite/messagesocket.py", "MessageSocket", "recvMessageBlocking", "until_result", "recvMessage", False),
    ("tlslite/messagesocket.py", "MessageSocket", "flushBlocking", "drive", "flush", False),
    ("tlslite/messagesocket.py", "MessageSocket", "queueMessageBlocking", "drive", "queueMessage", False),
    ("tlslite/messagesocket.py", "MessageSocket", "sendMessageBlocking", "drive", "sendMessage", False),
]


def _strip_doc(body):
    if body and isinstance(body[0], ast.Expr) and isinstance(getattr(body[0], "value", None), ast.Constant) \
            and isinstance(body[0].value.value, str):
        return body[1:]
    return body


def _params(fn):
    a = fn.args
    if a.vararg or a.kwarg or a.kwonlyargs or getattr(a, "posonlyargs", []):
        return None
    names = [x.arg for x in a.args]
    if not names or names[0] != "self":
        return None
    return names[1:]


def _is_self_call(node, name):
    return (isinstance(node, ast.Call) and isinstance(node.func, ast.Attribute)
            and isinstance(node.func.value, ast.Name) and node.func.value.id == "self"
            and node.func.attr == name)


def _identity_args(call, own, callee, must_pass_all=True):
    """every argument is one of the wrapper's own parameters, bound to the callee's parameter of the
    same name; (optionally) every own parameter is passed"""
    cparams = _params(callee)
    if cparams is None or own is None:
        return False
    bound = {}
    for i, a in enumerate(call.args):
        if isinstance(a, ast.Starred) or i >= len(cparams):
            return False
        bound[cparams[i]] = a
    for k in call.keywords:
        if k.arg is None or k.arg in bound or k.arg not in cparams:
            return False
        bound[k.arg] = k.value
    for p, v in bound.items():
        if not (isinstance(v, ast.Name) and v.id == p and p in own):
            return False
    if must_pass_all and set(own) - set(bound):
        return False
    return True


def _is_pass_loop(node, itertest):
    return (isinstance(node, ast.For) and isinstance(node.target, ast.Name) and not node.orelse
            and len(node.body) == 1 and isinstance(node.body[0], ast.Pass) and itertest(node.iter))


def shape_drive(fn, callee, gen, need_return):
    body = _strip_doc(fn.body)
    own = _params(fn)
    if not body or not _is_pass_loop(body[0], lambda it: _is_self_call(it, gen) and _identity_args(it, own, callee)):
        return False
    rest = body[1:]
    if not rest:
        return not need_return
    if len(rest) == 1 and isinstance(rest[0], ast.Return) and isinstance(rest[0].value, ast.Name) \
            and rest[0].value.id == body[0].target.id:
        return True
    return False


def shape_until_result(fn, callee, gen):
    body = _strip_doc(fn.body)
    own = _params(fn)
    if len(body) != 1:
        return False
    f = body[0]
    if not (isinstance(f, ast.For) and isinstance(f.target, ast.Name) and not f.orelse and len(f.body) == 1
            and _is_self_call(f.iter, gen) and _identity_args(f.iter, own, callee)):
        return False
    v = f.target.id
    i = f.body[0]
    if not (isinstance(i, ast.If) and len(i.body) == 1 and isinstance(i.body[0], ast.Pass) and len(i.orelse) == 1):
        return False
    t = i.test
    if not (isinstance(t, ast.Compare) and isinstance(t.left, ast.Name) and t.left.id == v and len(t.ops) == 1
            and isinstance(t.ops[0], ast.In) and isinstance(t.comparators[0], ast.Tuple)
            and [getattr(e, "value", None) for e in t.comparators[0].elts] == [0, 1]):
        return False
    r = i.orelse[0]
    return isinstance(r, ast.Return) and isinstance(r.value, ast.Name) and r.value.id == v


def shape_drive_handle(fn, callee, gen):
    body = _strip_doc(fn.body)
    own = _params(fn)
    if own is None or "async_" not in own:
        return False
    # leading parameter normalisations
    while body and isinstance(body[0], ast.If):
        i = body[0]
        t = i.test
        ok = (isinstance(t, ast.Call) and isinstance(t.func, ast.Name) and t.func.id == "isinstance"
              and len(t.args) == 2 and isinstance(t.args[0], ast.Name) and t.args[0].id in own
              and not i.orelse and len(i.body) == 1 and isinstance(i.body[0], ast.Assign)
              and len(i.body[0].targets) == 1 and isinstance(i.body[0].targets[0], ast.Name)
              and i.body[0].targets[0].id == t.args[0].id and t.args[0].id != "async_")
        if not ok:
            return False
        body = body[1:]
    if len(body) != 3:
        return False
    asg, cond, loop = body
    if not (isinstance(asg, ast.Assign) and len(asg.targets) == 1 and isinstance(asg.targets[0], ast.Name)
            and _is_self_call(asg.value, gen) and not asg.value.args):
        return False
    h = asg.targets[0].id
    if h in own:
        return False
    # keyword arguments: expressions over the wrapper's own parameters only (no calls)
    cparams = _params(callee)
    if cparams is None:
        return False
    for k in asg.value.keywords:
        if k.arg is None or k.arg not in cparams:
            return False
        for n in ast.walk(k.value):
            if isinstance(n, ast.Call) or (isinstance(n, ast.Name) and n.id not in own and n.id not in ("True", "False", "None")):
                return False
    if not (isinstance(cond, ast.If) and isinstance(cond.test, ast.Name) and cond.test.id == "async_"
            and not cond.orelse and len(cond.body) == 1 and isinstance(cond.body[0], ast.Return)
            and isinstance(cond.body[0].value, ast.Name) and cond.body[0].value.id == h):
        return False
    return _is_pass_loop(loop, lambda it: isinstance(it, ast.Name) and it.id == h)


class _YieldToPass(ast.NodeTransformer):
    def visit_For(self, node):
        self.generic_visit(node)
        if isinstance(node.target, ast.Name):
            v = node.target.id
            new = []
            for s in node.body:
                if (isinstance(s, ast.Expr) and isinstance(s.value, ast.Yield) and isinstance(s.value.value, ast.Name)
                        and s.value.value.id == v):
                    new.append(ast.Pass())
                else:
                    new.append(s)
            node.body = new
        return node


def _has_yield(nodes):
    for n in nodes:
        for x in ast.walk(n):
            if isinstance(x, (ast.Yield, ast.YieldFrom)):
                return True
    return False


def shape_mirror(fn, callee):
    if _params(fn) != _params(callee) or _params(fn) is None:
        return False
    import copy
    b1 = _strip_doc(fn.body)
    b2 = [_YieldToPass().visit(copy.deepcopy(s)) for s in _strip_doc(callee.body)]
    if _has_yield(b1) or _has_yield(b2) or not _has_yield(_strip_doc(callee.body)):
        return False
    d1 = [ast.dump(s) for s in b1]
    d2 = [ast.dump(s) for s in b2]
    return d1 == d2 and len(d1) > 0


def shape_delegate(fn, callee_name, name):
    body = _strip_doc(fn.body)
    own = _params(fn)
    if own is None or len(own) != 1:
        return False
    p = own[0]

    def fwd(node):
        return (_is_self_call(node, callee_name) and len(node.args) == 1 and not node.keywords
                and isinstance(node.args[0], ast.Name) and node.args[0].id == p)
    if name == "recv":
        return len(body) == 1 and isinstance(body[0], ast.Return) and fwd(body[0].value)
    if name == "sendall":
        return len(body) == 1 and isinstance(body[0], ast.Expr) and fwd(body[0].value)
    if name == "send":
        if not (len(body) == 2 and isinstance(body[0], ast.Expr) and fwd(body[0].value) and isinstance(body[1], ast.Return)):
            return False
        r = body[1].value
        return (isinstance(r, ast.Call) and isinstance(r.func, ast.Name) and r.func.id == "len"
                and len(r.args) == 1 and isinstance(r.args[0], ast.Name) and r.args[0].id == p)
    return False


def _find(tree, cls, name):
    for n in tree.body:
        if isinstance(n, ast.ClassDef) and n.name == cls:
            found = [m for m in n.body if isinstance(m, ast.FunctionDef) and m.name == name]
            if len(found) == 1:
                return found[0]
            return None
    return None


def classify(repo):
    trees = {}
    facts = []
    for (path, cls, name, shape, gen, need_ret) in TARGETS:
        ok = False
        try:
            if path not in trees:
                with open(os.path.join(repo, path)) as f:
                    trees[path] = ast.parse(f.read())
            fn = _find(trees[path], cls, name)
            callee = _find(trees[path], cls, gen)
            if fn is not None and callee is not None:
                if shape == "drive":
                    ok = shape_drive(fn, callee, gen, need_ret)
                elif shape == "drive_handle":
                    ok = shape_drive_handle(fn, callee, gen)
                elif shape == "mirror":
                    ok = shape_mirror(fn, callee)
                elif shape == "until_result":
                    ok = shape_until_result(fn, callee, gen)
                elif shape == "delegate":
                    ok = shape_delegate(fn, gen, name)
        except Exception:
            ok = False
        facts.append(("%s.%s" % (cls, name), shape, bool(ok)))
    return facts


def asm_read_max(repo):
    """the argument of the implicit `self.tlsConnection.readAsync(<n>)` in AsyncStateMachine.inReadEvent;
    0 when it cannot be read off the AST (makes the obligation false)"""
    try:
        with open(os.path.join(repo, "tlslite/integration/asyncstatemachine.py")) as f:
            tree = ast.parse(f.read())
        fn = _find(tree, "AsyncStateMachine", "inReadEvent")
        found = []
        for n in ast.walk(fn):
            if (isinstance(n, ast.Call) and isinstance(n.func, ast.Attribute) and n.func.attr == "readAsync"):
                if len(n.args) == 1 and not n.keywords and isinstance(n.args[0], ast.Constant) \
                        and isinstance(n.args[0].value, int) and not isinstance(n.args[0].value, bool):
                    found.append(n.args[0].value)
                else:
                    return 0
        if found and all(x >= 0 for x in found):
            return min(found)          # every implicit read (first one and the read-ahead drain loop)
    except Exception:
        pass
    return 0


def generate(repo):
    facts = classify(repo)
    lines = ["/- GENERATED by translate/gen_wrappers.py from the blocking API functions of the repository;",
             "   do not edit.  `true` = the body is literally \"drive the generator to exhaustion\". -/",
             "namespace Tls.Gen.Wrappers", "",
             "/-- (qualified name, recognised shape holds) -/",
             "def facts : List (String × Bool) := ["]
    lines.append(",\n".join("  (%s, %s)" % (lean_str(n), "true" if ok else "false") for (n, shape, ok) in facts))
    lines.append("]")
    lines.append("")
    lines.append("/-- shape each wrapper was checked against -/")
    lines.append("def shapes : List (String × String) := [")
    lines.append(",\n".join("  (%s, %s)" % (lean_str(n), lean_str(shape)) for (n, shape, ok) in facts))
    lines.append("]")
    lines.append("")
    lines.append("/-- `n` of the implicit `readAsync(n)` AsyncStateMachine.inReadEvent starts (0 = not recognised) -/")
    lines.append("def asmReadMax : Nat := %d" % asm_read_max(repo))
    lines.append("")
    lines.append("end Tls.Gen.Wrappers")
    return {"TlsModel/Gen/Wrappers.lean": "\n".join(lines) + "\n"}
