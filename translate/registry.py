"""Auto-discovery: every translate/gen_<name>.py exposing generate(repo) -> {relpath: content}
is registered under <name>."""
import os
from . import register

_here = os.path.dirname(os.path.abspath(__file__))
for _f in sorted(os.listdir(_here)):
    if _f.startswith("gen_") and _f.endswith(".py"):
        register(_f[4:-3], _f[:-3])
