from . import register
# register("suites", "suites")   -> translate/suites.py : generate(repo)
