"""Translators: /repo source -> lean/TlsModel/Gen/*.lean, regenerated on every run.

Each translator is a function  f(repo) -> {relative_path_under_lean: file_content}.
Files are rewritten only when their content changes, so `lake build` stays incremental.
A translator that cannot classify what it finds must emit something that makes the
dependent obligation false (never guess).
"""
import importlib
import os

LEAN_DIR = os.path.join(os.path.dirname(os.path.dirname(os.path.abspath(__file__))), "lean")

REGISTRY = {
    # name -> (module, function)
}


def register(name, module, func="generate"):
    REGISTRY[name] = (module, func)


def regen(names, repo):
    written = []
    for n in names:
        modname, func = REGISTRY[n]
        mod = importlib.import_module("translate." + modname)
        files = getattr(mod, func)(repo)
        for rel, content in files.items():
            path = os.path.join(LEAN_DIR, rel)
            os.makedirs(os.path.dirname(path), exist_ok=True)
            old = None
            if os.path.exists(path):
                with open(path) as f:
                    old = f.read()
            if old != content:
                with open(path, "w") as f:
                    f.write(content)
            written.append(rel)
    return written


def lean_str(s):
    return '"' + s.replace("\\", "\\\\").replace('"', '\\"') + '"'


def lean_list(xs, fmt=str):
    return "[" + ", ".join(fmt(x) for x in xs) + "]"

# registrations (kept at the bottom so helper functions above are importable by translators)
from . import registry  # noqa: E402,F401
