"""tlslite/constants.py (CipherSuite) + handshakesettings name lists -> lean/TlsModel/Gen/Suites.lean

Everything is read from the *running* module of the repository under check (imported in a
subprocess of /venv/bin/python with PYTHONPATH=<repo>), so list surgery done at class-body time
(`tls12Suites.remove(...)`, `extend`, `+`) is seen exactly as the library sees it:

  ietfNames                         suite id -> registered name
  every list-of-int class attribute of CipherSuite (tripleDESSuites ... ecdhAllSuites, ssl2*)
  ALL_/default cipher, MAC and key-exchange names of HandshakeSettings
  selectorOut                       output of every get*Suites classmethod under all-enabling
                                    settings, for each protocol version (3,0)..(3,4)
  selectorUnion                     every suite some selector returned (the "negotiable" domain)

If the module cannot be imported or something has an unexpected shape, the file still compiles but
selectorUnion contains the poison id 0xFFFFFF (unknown to every table), which makes every C20
obligation false: the translator never guesses.
"""
import json
import os
import subprocess

from . import lean_str, lean_list

PY = "/venv/bin/python"
POISON = 0xFFFFFF

PROBE = r'''
import json, sys, inspect
from tlslite.constants import CipherSuite as C
from tlslite import handshakesettings as hs
out = {"problems": []}
names = C.ietfNames
if not isinstance(names, dict) or not all(isinstance(k, int) and isinstance(v, str) for k, v in names.items()):
    out["problems"].append("ietfNames is not a dict int->str")
    names = {}
out["ietfNames"] = sorted([k, v] for k, v in names.items())
lists = {}
for a in sorted(vars(C)):
    v = vars(C)[a]
    if a.startswith("__"):
        continue
    if isinstance(v, (list, tuple, set, frozenset)):
        v = list(v)
        if all(isinstance(x, int) and not isinstance(x, bool) for x in v):
            lists[a] = v
        else:
            out["problems"].append("attribute %s is a sequence with non-int members" % a)
out["lists"] = lists
for n in ("ALL_CIPHER_NAMES", "CIPHER_NAMES", "ALL_MAC_NAMES", "MAC_NAMES", "KEY_EXCHANGE_NAMES"):
    v = getattr(hs, n, None)
    if not isinstance(v, list) or not all(isinstance(x, str) for x in v):
        out["problems"].append("handshakesettings.%s missing" % n)
        v = []
    out[n] = list(v)

class S(object):
    pass
full = S()
full.macNames = list(out["ALL_MAC_NAMES"])
full.cipherNames = list(out["ALL_CIPHER_NAMES"])
full.keyExchangeNames = list(out["KEY_EXCHANGE_NAMES"])
full.maxVersion = (3, 4)
sel = []
getters = [a for a in sorted(dir(C)) if a.startswith("get") and a.endswith("Suites") and callable(getattr(C, a))]
out["getters"] = getters
for g in getters:
    for minor in range(0, 5):
        try:
            r = getattr(C, g)(full, (3, minor))
            if not all(isinstance(x, int) for x in r):
                raise TypeError("non-int")
            sel.append([g, minor, list(r)])
        except Exception as e:
            out["problems"].append("%s((3,%d)) raised %s" % (g, minor, type(e).__name__))
out["selectorOut"] = sel
json.dump(out, sys.stdout)
'''


def probe(repo):
    env = dict(os.environ)
    env["PYTHONPATH"] = repo
    env.pop("PYTHONSTARTUP", None)
    try:
        p = subprocess.run([PY, "-c", PROBE], cwd="/tmp", env=env, stdout=subprocess.PIPE,
                           stderr=subprocess.PIPE, universal_newlines=True, timeout=120)
    except Exception as e:  # pragma: no cover
        return None, "probe did not run: %r" % (e,)
    if p.returncode != 0:
        return None, "probe failed: " + p.stderr.strip().split("\n")[-1][:300]
    try:
        return json.loads(p.stdout), None
    except ValueError:
        return None, "probe output is not JSON"


def ident(a):
    """Lean identifier for a python attribute name"""
    return a if (a[0].isalpha() or a[0] == "_") and all(c.isalnum() or c == "_" for c in a) else "«" + a + "»"


def nats(xs):
    return lean_list(xs, lambda x: "0x%04x" % x if x >= 0 else "0xFFFFFF")


def generate(repo):
    data, err = probe(repo)
    problems = []
    if data is None:
        problems.append(err)
        data = {"ietfNames": [], "lists": {}, "ALL_CIPHER_NAMES": [], "CIPHER_NAMES": [], "ALL_MAC_NAMES": [],
                "MAC_NAMES": [], "KEY_EXCHANGE_NAMES": [], "selectorOut": [], "getters": []}
    problems += data.get("problems", [])
    # lists the hand-written mirrors refer to: a missing one is emitted as [poison] (never guessed)
    required = ["tripleDESSuites", "aes128Suites", "aes256Suites", "rc4Suites", "nullSuites",
                "aes128GcmSuites", "aes256GcmSuites", "aes128CcmSuites", "aes128Ccm_8Suites",
                "aes256CcmSuites", "aes256Ccm_8Suites", "chacha20Suites", "chacha20draft00Suites",
                "shaSuites", "sha256Suites", "sha384Suites", "md5Suites", "aeadSuites", "streamSuites",
                "sha384PrfSuites", "sha256PrfSuites", "ssl3Suites", "tls12Suites", "tls13Suites",
                "srpSuites", "srpCertSuites", "srpDsaSuites", "srpAllSuites", "certSuites", "certAllSuites",
                "dheCertSuites", "ecdheCertSuites", "ecdheEcdsaSuites", "dheDsaSuites", "dhAllSuites",
                "ecdhAllSuites", "anonSuites", "ecdhAnonSuites"]
    lists = dict(data["lists"])
    for r in required:
        if r not in lists:
            problems.append("CipherSuite.%s missing" % r)
            lists[r] = [POISON]
    union = sorted(set(x for _, _, out in data["selectorOut"] for x in out))
    if problems:
        union = union + [POISON]
    L = []
    L.append("/- GENERATED by translate/gen_suites.py from tlslite/constants.py and tlslite/handshakesettings.py")
    L.append("   of the tree under check; do not edit. -/")
    L.append("namespace Tls.Gen.Suites")
    L.append("")
    L.append("/-- problems the translator met (non-empty ⇒ selectorUnion is poisoned) -/")
    L.append("def translatorProblems : List String := " + lean_list(problems, lean_str))
    L.append("")
    L.append("/-- CipherSuite.ietfNames -/")
    L.append("def ietfNames : List (Nat × String) := [")
    L.append(",\n".join("  (0x%04x, %s)" % (k, lean_str(v)) for k, v in data["ietfNames"]))
    L.append("]")
    L.append("")
    L.append("/-- the same names as lists of character codes (kernel evaluation of String.toList is slow;")
    L.append("    the driver op `namecodes` and the harness check that both tables say the same) -/")
    L.append("def ietfNameCodes : List (Nat × List Nat) := [")
    L.append(",\n".join("  (0x%04x, %s)" % (k, lean_list([ord(c) for c in v])) for k, v in data["ietfNames"]))
    L.append("]")
    L.append("")
    for a in sorted(lists):
        L.append("def %s : List Nat := %s" % (ident(a), nats(lists[a])))
    L.append("")
    L.append("/-- every classification list by its python attribute name -/")
    L.append("def allLists : List (String × List Nat) := [")
    L.append(",\n".join("  (%s, %s)" % (lean_str(a), ident(a)) for a in sorted(lists)))
    L.append("]")
    L.append("")
    for n, d in (("ALL_CIPHER_NAMES", "allCipherNames"), ("CIPHER_NAMES", "defaultCipherNames"),
                 ("ALL_MAC_NAMES", "allMacNames"), ("MAC_NAMES", "defaultMacNames"),
                 ("KEY_EXCHANGE_NAMES", "allKeyExchangeNames")):
        L.append("def %s : List String := %s" % (d, lean_list(data[n], lean_str)))
    L.append("")
    L.append("/-- names of the get*Suites selectors found -/")
    L.append("def getters : List String := " + lean_list(data["getters"], lean_str))
    L.append("")
    L.append("/-- (selector, minor version, output) with every cipher/MAC/key-exchange name enabled -/")
    L.append("def selectorOut : List (String × Nat × List Nat) := [")
    L.append(",\n".join("  (%s, %d, %s)" % (lean_str(g), m, nats(out)) for g, m, out in data["selectorOut"]))
    L.append("]")
    L.append("")
    allids = sorted(set([k for k, _ in data["ietfNames"]]) | set(x for v in lists.values() for x in v))
    L.append("/-- every identifier the library knows: keys of ietfNames and members of any list (sorted, distinct) -/")
    L.append("def allIds : List Nat := " + nats(allids))
    L.append("")
    L.append("/-- every suite some selector returned for some version (sorted, distinct) -/")
    L.append("def selectorUnion : List Nat := " + nats(union))
    L.append("")
    L.append("end Tls.Gen.Suites")
    L.append("")
    return {"TlsModel/Gen/Suites.lean": "\n".join(L)}
