import TlsModel.Proto
/- driver stub for C17: replaced when the model exists -/
def main : IO Unit := Tls.protoMain (fun _ => none)
