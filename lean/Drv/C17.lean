import TlsModel.ConnDrv
/- driver for C17: stateful history executor over Tls.Conn (protocol in TlsModel/ConnDrv.lean) -/
def main : IO Unit := Tls.protoMainS Tls.Conn.handle (Tls.Conn.initWorld true)
