import TlsModel.Proto
import TlsModel.Interop
/-
  Driver for C07 (expectation model only; OpenSSL is observed by the harness, not modelled).
    expect cVers cSuites cGroups cSigs sVers sSuites sGroups sSigs sDhLegacy keyType keyCurve
        lists: comma separated decimal code points, `-` = empty
        keyType: rsa | rsapss | ecdsa | ed25519 | ed448 | dsa | none ; keyCurve: group id (0 if n/a)
        -> ok <version> <suite>:<g>,<g>;<suite>:-;...   |   fail <reason>
    alpn cProtos sProtos      (comma separated tokens)  -> comma separated common protocols | -
    suite id                  -> <kx> <auth> <tls12Only>  | unknown
    vok id version            -> true|false   (suite defined for the version)
    ccert version cGroups sGroups keyType keyCurve      -> true|false  (client certificate usable)
    csig version cSigs sSigs keyType keyCurve           -> true|false  (client CertificateVerify scheme available)
    resume mech cMechs sMechs v0 s0 <expect-args...>    -> true|false
-/
open Tls Tls.Interop

def parseNats (s : String) : Option (List Nat) :=
  if s == "-" then some [] else (s.splitOn ",").mapM (·.toNat?)

def parseToks (s : String) : List String :=
  if s == "-" then [] else s.splitOn ","

def parseKey (t : String) (curve : Nat) : Option KeyType :=
  match t with
  | "rsa" => some .rsa
  | "rsapss" => some .rsaPss
  | "ecdsa" => some (.ecdsa curve)
  | "ed25519" => some .ed25519
  | "ed448" => some .ed448
  | "dsa" => some .dsa
  | "none" => some .none
  | _ => none

def parseMech (t : String) : Option Mech :=
  match t with
  | "sid" => some .sessionId
  | "ticket" => some .ticket
  | "psk" => some .psk
  | _ => none

def kxOut : Kx → String
  | .rsa => "rsa" | .dhe => "dhe" | .ecdhe => "ecdhe" | .dhAnon => "dhanon" | .ecdhAnon => "ecdhanon"
  | .tls13 => "tls13"

def authOut : Auth → String
  | .rsa => "rsa" | .ecdsa => "ecdsa" | .dss => "dss" | .anon => "anon" | .any => "any"

def parseExpect (a : List String) : Option (Caps × Caps × KeyType) :=
  match a with
  | [cv, cs, cg, csig, sv, ss, sg, ssig, sdh, kt, kc] => do
    let c : Caps := ⟨← parseNats cv, ← parseNats cs, ← parseNats cg, ← parseNats csig, []⟩
    let s : Caps := ⟨← parseNats sv, ← parseNats ss, ← parseNats sg, ← parseNats ssig, ← parseNats sdh⟩
    let k ← parseKey kt (← kc.toNat?)
    some (c, s, k)
  | _ => none

def handle : List String → Option String
  | "expect" :: rest => do
    let (c, s, k) ← parseExpect rest
    some (expectedOutcome c s k).render
  | ["alpn", cp, sp] =>
    let r := expectedAlpn (parseToks cp) (parseToks sp)
    some (if r.isEmpty then "-" else ",".intercalate r)
  | ["ccert", v, cg, sg, kt, kc] => do
    let k ← parseKey kt (← kc.toNat?)
    some (boolOut (clientCertOk (← v.toNat?) ⟨[], [], ← parseNats cg, [], []⟩ ⟨[], [], ← parseNats sg, [], []⟩ k))
  | ["csig", v, cs, ss, kt, kc] => do
    let k ← parseKey kt (← kc.toNat?)
    some (boolOut (clientSigOk (← v.toNat?) ⟨[], [], [], ← parseNats cs, []⟩ ⟨[], [], [], ← parseNats ss, []⟩ k))
  | ["suite", id] => do
    let id ← id.toNat?
    match suiteInfo id with
    | none => some "unknown"
    | some si => some (kxOut si.kx ++ " " ++ authOut si.auth ++ " " ++ boolOut si.tls12Only)
  | ["vok", id, v] => do
    let id ← id.toNat?
    let v ← v.toNat?
    match suiteInfo id with
    | none => some "unknown"
    | some si => some (boolOut (versionOk si v))
  | "resume" :: m :: cm :: sm :: v0 :: s0 :: rest => do
    let m ← parseMech m
    let cm ← (parseToks cm).mapM parseMech
    let sm ← (parseToks sm).mapM parseMech
    let (c, s, k) ← parseExpect rest
    some (boolOut (resumeExpected m cm sm (← v0.toNat?) (← s0.toNat?) (expectedOutcome c s k)))
  | _ => none

def main : IO Unit := protoMain handle
