import TlsModel.Proto
import TlsModel.CT
import TlsModel.PyInt
/-
  Driver for C12.
    cbc  vmaj vmin bs dlen mblock seqhex ct datahex table   -> true|false   (cbcCheck)
    cbco ...same...                                        -> cbcCheckOld
    wf   ...same...                                        -> wellFormed
    strip dlen datahex                                     -> hex of stripPadMac
    pad  bs datahex                                        -> hex of addPadding
    lt|le|eq|neq a b ; nz|lsb8|lsb16 a                     -> the hand-model helpers (naturals)
    py and|or|xor|shl|shr|fdiv a b ; py not a              -> Tls.Py (TlsModel/PyInt.lean) on signed
                                                              ints; `exc` where Python raises
  `table` = comma separated hex digests; entry i is the tag of (header ++ data[:i]) where the
  header is the one for the clamped mac_start of this body (computed by the harness with the real
  hmac object).  The model's `digest` looks its argument's length up in the table.
-/
open Tls Tls.CT

def parseTable (s : String) : Option (List Bytes) :=
  if s == "-" then some [] else (s.splitOn ",").mapM ofHex

def mkMac (dlen mblock hdrLen : Nat) (table : List Bytes) : MacAlg :=
  { dlen := dlen, blockSize := mblock,
    digest := fun x => table.getD (x.length - hdrLen) [] }

def handle : List String → Option String
  | [op, vmaj, vmin, bs, dlen, mblock, seq, ct, data, table] => do
    let vmaj ← vmaj.toNat?
    let vmin ← vmin.toNat?
    let bs ← bs.toNat?
    let dlen ← dlen.toNat?
    let mblock ← mblock.toNat?
    let seq ← ofHex seq
    let ct ← ct.toNat?
    let data ← ofHex data
    let table ← parseTable table
    let hdrLen := seq.length + 1 + (if isSsl3 vmaj vmin then 0 else 2) + 2
    let m := mkMac dlen mblock hdrLen table
    match op with
    | "cbc" => some (boolOut (cbcCheck m data seq (UInt8.ofNat ct) vmaj vmin bs))
    | "cbco" => some (boolOut (cbcCheckOld m data seq (UInt8.ofNat ct) vmaj vmin bs))
    | "wf" => some (boolOut (wellFormed m data seq (UInt8.ofNat ct) vmaj vmin bs))
    | _ => none
  | ["strip", dlen, data] => do
    let dlen ← dlen.toNat?
    let data ← ofHex data
    some (hexOut (stripPadMac { dlen := dlen, blockSize := 1, digest := fun _ => [] } data))
  | ["pad", bs, data] => do
    let bs ← bs.toNat?
    let data ← ofHex data
    if bs == 0 then none else some (hexOut (addPadding bs data))
  | ["lt", a, b] => do some (toString (ctLtU32 (← a.toNat?) (← b.toNat?)))
  | ["le", a, b] => do some (toString (ctLeU32 (← a.toNat?) (← b.toNat?)))
  | ["eq", a, b] => do some (toString (ctEqU32 (← a.toNat?) (← b.toNat?)))
  | ["neq", a, b] => do some (toString (ctNeqU32 (← a.toNat?) (← b.toNat?)))
  | ["nz", a] => do some (toString (ctIsNonZeroU32 (← a.toNat?)))
  | ["lsb8", a] => do some (toString (ctLsbPropU8 (← a.toNat?)))
  | ["lsb16", a] => do some (toString (ctLsbPropU16 (← a.toNat?)))
  | ["py", op, a, b] => do
    let a ← a.toInt?
    let b ← b.toInt?
    let out (r : Option Int) : String := match r with | some v => toString v | none => "exc"
    match op with
    | "and" => some (toString (Py.band a b))
    | "or" => some (toString (Py.bor a b))
    | "xor" => some (toString (Py.bxor a b))
    | "shl" => some (out (Py.lshift a b))
    | "shr" => some (out (Py.rshift a b))
    | "fdiv" => some (out (Py.floordiv a b))
    | "max" => some (toString (Py.max2 a b))
    | "min" => some (toString (Py.min2 a b))
    | _ => none
  | ["py", "not", a] => do some (toString (Py.bnot (← a.toInt?)))
  | _ => none

def main : IO Unit := protoMain handle
