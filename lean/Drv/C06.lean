import TlsModel.Proto
import TlsModel.Order
/-
  Driver for C06.
    run <cfg> <tok> ...      -> <status> acc=<n> accdone=<n> del=<n> ep=<n> warn=<n> hs=<0|1> out=<n> st=<state> steps=<codes>
         status: complete | waiting | abort@<i>:<alert> | closed@<i>
         codes (one per token): N accepted, X accepted-then-abort, I ignored, W warning sent,
                                D data delivered, P post-handshake message, B fragment buffered,
                                L local action, A abort, C closed by peer alert, - not read
    accepts <cfg> <tok> ...  -> true|false   (handshake completes exactly on the last token)
    allowed <cfg> <kind> ... -> true|false   (RFC grammar)
    postallowed <cfg> <n> <tok> ... -> true|false   (post-handshake grammar, n requests outstanding)
    valid <cfg>              -> true|false
    hsstart <cfg> <tok> ...  -> ok|error     (_handshakeStart after the run)
  cfg = role,ver,kx,reqCert,clientCert,tickets,npn,hrr,resume,compCert,hb,compat,keypair
  tok = kind[:epoch][+][<|>]  |  !pha  |  !close
-/
open Tls Tls.Order

def outCode : Out → Char
  | .next _ _ => 'N' | .acceptAbort _ => 'X' | .ignore => 'I' | .warn => 'W'
  | .deliver => 'D' | .post _ => 'P' | .phaStart _ => 'N' | .buffer _ => 'B'
  | .abort _ => 'A' | .peerClosed => 'C' | .acceptClosed => 'C'

/-- fold with a log: (run, index of the token that killed the connection, codes) -/
def runLog (c : Cfg) (es : List Ev) : Run × Option Nat × List Char :=
  let rec go (r : Run) (i : Nat) (dead : Option Nat) (acc : List Char) : List Ev → Run × Option Nat × List Char
    | [] => (r, dead, acc.reverse)
    | e :: es =>
      if r.st == .dead then go r (i + 1) dead ('-' :: acc) es
      else
        let code := match e with
          | .msg m => outCode (step c r m)
          | _ => 'L'
        let r' := feedEv c r e
        go r' (i + 1) (if r'.st == .dead then some i else dead) (code :: acc) es
  go (start c) 0 none [] es

def showRun (c : Cfg) (es : List Ev) : String :=
  let (r, dead, codes) := runLog c es
  let status :=
    match dead with
    | some i =>
      (match r.alert with
       | some a => s!"abort@{i}:{a.name}"
       | none => s!"closed@{i}")
    | none => if r.hsDone then "complete" else "waiting"
  let codeStr := if codes.isEmpty then "." else String.ofList codes
  s!"{status} acc={r.acc} accdone={r.accAtDone} del={r.delivered} ep={r.epoch} warn={r.warns} hs={if r.hsDone then 1 else 0} out={r.outstanding} st={r.st.name} steps={codeStr}"

def msgsOf (es : List Ev) : List Msg := es.filterMap fun | .msg m => some m | _ => none

def handle : List String → Option String
  | "run" :: cfg :: toks => do
    let c ← Cfg.ofString cfg
    let es ← toks.mapM Ev.ofString
    some (showRun c es)
  | "accepts" :: cfg :: toks => do
    let c ← Cfg.ofString cfg
    let ms ← toks.mapM Msg.ofString
    some (boolOut (accepts c ms))
  | "allowed" :: cfg :: ks => do
    let c ← Cfg.ofString cfg
    let ks ← ks.mapM MsgKind.ofName
    some (boolOut (allowed c ks))
  | "postallowed" :: cfg :: n :: toks => do
    let c ← Cfg.ofString cfg
    let n ← n.toNat?
    let es ← toks.mapM Ev.ofString
    some (boolOut (postAllowed c n es))
  | ["valid", cfg] => do
    let c ← Cfg.ofString cfg
    some (boolOut c.valid)
  | "hsstart" :: cfg :: toks => do
    let c ← Cfg.ofString cfg
    let es ← toks.mapM Ev.ofString
    match handshakeStart (runEv c (start c) es) with
    | .ok _ => some "ok"
    | .error _ => some "error"
  | _ => none

def main : IO Unit := protoMain handle
