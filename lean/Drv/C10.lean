import TlsModel.Proto
import TlsModel.Rsa
import TlsModel.Dh
import TlsModel.X25519
import TlsModel.SignGuard
import TlsModel.Dsa
/-
  Driver for C10.  Numbers are big-endian hex (`-` = 0), byte strings hex (`-` = empty).
  A hash enters as a table `in:out,in:out,...` computed by the harness with hashlib; an input that
  is not in the table hashes to the empty string (wrong length, so the model rejects / the
  comparison with the implementation fails loudly).

    numbits N | numbytes N | powmod B E M | invmod A B
    pad1 N DATA                         -> addPKCS1Padding(DATA, 1)
    prefix ALG DATA                     -> addPKCS1Prefix           | err:<Exc>
    sha1prefix 0|1 DATA                 -> addPKCS1SHA1Prefix
    pubop N E C                         -> _raw_public_key_op_bytes | err:<Exc>
    privop N E D P Q DP DQ QINV BL UNBL RND M   -> out blinder' unblinder' | err:<Exc>
    privhelper P Q DP DQ QINV M         -> _rawPrivateKeyOpHelper (decimal, may be negative)
    verify PSSONLY N E SIG BYTES PAD ALG HLEN SLEN TABLE  -> true|false|err:<Exc>
         PAD = pkcs1|pss|other, ALG = name or `none`
    sign N E D P Q DP DQ QINV BL UNBL RND BYTES PAD ALG HLEN SALT TABLE -> sig blinder' unblinder'
    mgf1 HLEN MASKLEN SEED TABLE
    pssenc HLEN EMBITS MHASH SALT TABLE
    pssver HLEN EMBITS SLEN MHASH EM TABLE   -> ok | err:<Exc>
    ffnew GROUP TLS13 G P               -> ok G P | err:<Exc>      (GROUP 0 = custom parameters)
    ffpub G P TLS13 PRIV                -> int HEX | bytes HEX | err:<Exc>
    ffshared G P TLS13 PRIV int|bytes V -> HEX | err:<Exc>
    x25519 K U | x448 K U               -> HEX | err:<Exc>
    xshared 25519|448 PRIV PEER         -> HEX | err:<Exc>   (ECDHKeyExchange.calc_shared_key, X groups)
    dsasign P Q G X Y K DATA            -> R S            (python_dsakey.sign before DER encoding)
    dsaverify P Q G X Y R S DATA        -> true|false     (python_dsakey.verify after DER decoding)
    dsasignbytes P Q G X Y K DATA       -> HEX            (python_dsakey.sign, DER included)
    dsaverifybytes P Q G X Y SIG DATA   -> true|false   (python_dsakey.verify on bytes)
    derint N | derlen N                 -> HEX            (ecdsa.der.encode_integer / encode_length)
    derremint HEX | derremseq HEX       -> VALUE REST | BODY REST | err:UnexpectedDER
    guard ske|skeecdsa|cv|cv13 SIG VERIFY(0|1) [BASELEN BYTES] -> send HEX | abort
         (the key object is scripted: sign returns SIG, verify returns VERIFY)
-/
open Tls Tls.Rsa

def num (s : String) : Option Nat := (ofHex s).map beDecode

/-- minimal big-endian hex of a number -/
def numOut (n : Nat) : String := if n = 0 then "-" else toHex (beEncode (numBytes n) n)

def parsePair (s : String) : Option (Bytes × Bytes) :=
  match s.splitOn ":" with
  | [a, b] => do pure ((← ofHex a), (← ofHex b))
  | _ => none

def parseTable (s : String) : Option (List (Bytes × Bytes)) :=
  if s == "-" then some [] else (s.splitOn ",").mapM parsePair

def mkHash (name : String) (hLen : Nat) (t : List (Bytes × Bytes)) : HashAlg :=
  { name := name, hLen := hLen, hash := fun x => match t.lookup x with | some y => y | none => [] }

def errOut (e : Err) : String := "err:" ++ e.name

def parsePad : String → Option Padding
  | "pkcs1" => some .pkcs1
  | "pss" => some .pss
  | "other" => some .other
  | _ => none

def parseAlg (s : String) : Option String := if s == "none" then none else some s

def dhErr (e : Tls.Dh.Err) : String := "err:" ++ e.name
def xErr (e : Tls.X25519.Err) : String := "err:" ++ e.name

def handleDh : List String → Option String
  | ["ffnew", grp, t13, g, p] => do
    match Tls.Dh.FFDH.new (← grp.toNat?) (t13 == "1") (← num g) (← num p) with
    | .ok k => some ("ok " ++ numOut k.generator ++ " " ++ numOut k.prime)
    | .error e => some (dhErr e)
  | ["ffpub", g, p, t13, priv] => do
    let k : Tls.Dh.FFDH := { generator := ← num g, prime := ← num p, tls13 := t13 == "1" }
    if k.prime = 0 then none else
    match k.calcPublic (← num priv) with
    | .ok (.int y) => some ("int " ++ numOut y)
    | .ok (.bytes b) => some ("bytes " ++ hexOut b)
    | .error e => some (dhErr e)
  | ["ffshared", g, p, t13, priv, kind, v] => do
    let k : Tls.Dh.FFDH := { generator := ← num g, prime := ← num p, tls13 := t13 == "1" }
    if k.prime = 0 then none else
    let share ← match kind with
      | "int" => (num v).map Tls.Dh.Share.int
      | "bytes" => (ofHex v).map Tls.Dh.Share.bytes
      | _ => none
    match k.calcShared (← num priv) share with
    | .ok b => some (hexOut b)
    | .error e => some (dhErr e)
  | ["guard", site, sig, ver] => do
    let sig ← ofHex sig
    let sg : Tls.SignGuard.Signer := { sign := fun _ => sig, verify := fun _ _ => ver == "1" }
    let out ← match site with
      | "ske" => some (Tls.SignGuard.signServerKeyExchange sg [])
      | "skeecdsa" => some (Tls.SignGuard.signServerKeyExchangeEcdsa sg [] 32)
      | "skeeddsa" => some (Tls.SignGuard.signServerKeyExchangeEddsa sg [])
      | "cv" => some (Tls.SignGuard.makeCertificateVerify sg [])
      | "cv13" => some (Tls.SignGuard.tls13CertificateVerify sg [])
      | _ => none
    match out with
    | .send s => some ("send " ++ hexOut s)
    | .abort => some "abort"
  | ["dsasign", p, q, g, x, y, k, data] => do
    let key : Tls.Dsa.Key := { p := ← num p, q := ← num q, g := ← num g, x := ← num x, y := ← num y }
    if key.p = 0 ∨ key.q = 0 then none else
    let rs := Tls.Dsa.signRS key (← num k) (← ofHex data)
    some (numOut rs.1 ++ " " ++ numOut rs.2)
  | ["dsaverify", p, q, g, x, y, r, s, data] => do
    let key : Tls.Dsa.Key := { p := ← num p, q := ← num q, g := ← num g, x := ← num x, y := ← num y }
    if key.p = 0 ∨ key.q = 0 then none else
    some (boolOut (Tls.Dsa.verifyRS key (← num r) (← num s) (← ofHex data)))
  | ["dsasignbytes", p, q, g, x, y, k, data] => do
    let key : Tls.Dsa.Key := { p := ← num p, q := ← num q, g := ← num g, x := ← num x, y := ← num y }
    if key.p = 0 ∨ key.q = 0 then none else
    some (hexOut (Tls.Dsa.sign key (← num k) (← ofHex data)))
  | ["dsaverifybytes", p, q, g, x, y, sig, data] => do
    let key : Tls.Dsa.Key := { p := ← num p, q := ← num q, g := ← num g, x := ← num x, y := ← num y }
    if key.p = 0 ∨ key.q = 0 then none else
    some (boolOut (Tls.Dsa.verify key (← ofHex sig) (← ofHex data)))
  | ["derint", n] => do some (hexOut (Tls.Der.encodeInteger (← num n)))
  | ["derlen", n] => do some (hexOut (Tls.Der.encodeLength (← num n)))
  | ["derremint", s] => do
    match Tls.Der.removeInteger (← ofHex s) with
    | .ok (v, rest) => some (numOut v ++ " " ++ hexOut rest)
    | .error () => some "err:UnexpectedDER"
  | ["derremseq", s] => do
    match Tls.Der.removeSequence (← ofHex s) with
    | .ok (b, rest) => some (hexOut b ++ " " ++ hexOut rest)
    | .error () => some "err:UnexpectedDER"
  | ["x25519", k, u] => do
    match Tls.X25519.x25519 (← ofHex k) (← ofHex u) with
    | .ok b => some (hexOut b)
    | .error e => some (xErr e)
  | ["x448", k, u] => do
    match Tls.X25519.x448 (← ofHex k) (← ofHex u) with
    | .ok b => some (hexOut b)
    | .error e => some (xErr e)
  | ["xshared", which, priv, peer] => do
    let priv ← ofHex priv
    let peer ← ofHex peer
    let (size, f) ← match which with
      | "25519" => some (32, Tls.X25519.x25519)
      | "448" => some (56, Tls.X25519.x448)
      | _ => none
    -- the length check comes first; only then is the function evaluated
    if peer.length ≠ size then some (dhErr .illegalParameter) else
    match f priv peer with
    | .error e => some (xErr e)
    | .ok _ =>
      match Tls.Dh.xShared size (fun a b => match f a b with | .ok r => r | .error _ => []) priv peer with
      | .ok b => some (hexOut b)
      | .error e => some (dhErr e)
  | _ => none

def handleRsa : List String → Option String
  | ["numbits", n] => do some (toString (numBits (← num n)))
  | ["numbytes", n] => do some (toString (numBytes (← num n)))
  | ["powmod", b, e, m] => do
    let m ← num m
    if m = 0 then none else some (numOut (powMod (← num b) (← num e) m))
  | ["invmod", a, b] => do some (numOut (invMod (← num a) (← num b)))
  | ["pad1", n, data] => do some (hexOut (addPKCS1Padding (← num n) (← ofHex data)))
  | ["prefix", alg, data] => do
    match addPKCS1Prefix (← ofHex data) alg with
    | .ok b => some (hexOut b)
    | .error e => some (errOut e)
  | ["sha1prefix", w, data] => do
    some (hexOut (addPKCS1SHA1Prefix (← ofHex data) (w == "1")))
  | ["pubop", n, e, c] => do
    match rawPublicKeyOpBytes { n := ← num n, e := ← num e } (← ofHex c) with
    | .ok b => some (hexOut b)
    | .error e => some (errOut e)
  | ["privop", n, e, d, p, q, dP, dQ, qInv, bl, unbl, rnd, m] => do
    let k : PrivKey := { pub := { n := ← num n, e := ← num e }, d := ← num d, p := ← num p, q := ← num q,
                         dP := ← num dP, dQ := ← num dQ, qInv := ← num qInv }
    match rawPrivateKeyOpBytes k { blinder := ← num bl, unblinder := ← num unbl } (← num rnd) (← ofHex m) with
    | .ok (b, st) => some (hexOut b ++ " " ++ numOut st.blinder ++ " " ++ numOut st.unblinder)
    | .error e => some (errOut e)
  | ["privhelper", p, q, dP, dQ, qInv, m] => do
    let k : PrivKey := { pub := { n := 0, e := 0 }, d := 0, p := ← num p, q := ← num q,
                         dP := ← num dP, dQ := ← num dQ, qInv := ← num qInv }
    if k.p = 0 ∨ k.q = 0 then some (errOut .arith) else
    some (toString (rawPrivateKeyOpHelper k (← num m)))
  | ["verify", pssOnly, n, e, sig, bytes, pad, alg, hLen, sLen, table] => do
    let k : PubKey := { n := ← num n, e := ← num e, pssOnly := pssOnly == "1" }
    let alg := parseAlg alg
    let H := mkHash (alg.getD "") (← hLen.toNat?) (← parseTable table)
    match verify k (← ofHex sig) (← ofHex bytes) (← parsePad pad) alg H (← sLen.toNat?) with
    | .ok b => some (boolOut b)
    | .error e => some (errOut e)
  | ["sign", n, e, d, p, q, dP, dQ, qInv, bl, unbl, rnd, bytes, pad, alg, hLen, salt, table] => do
    let k : PrivKey := { pub := { n := ← num n, e := ← num e }, d := ← num d, p := ← num p, q := ← num q,
                         dP := ← num dP, dQ := ← num dQ, qInv := ← num qInv }
    let alg := parseAlg alg
    let H := mkHash (alg.getD "") (← hLen.toNat?) (← parseTable table)
    match sign k { blinder := ← num bl, unblinder := ← num unbl } (← num rnd) (← ofHex bytes)
        (← parsePad pad) alg H (← ofHex salt) with
    | .ok (b, st) => some (hexOut b ++ " " ++ numOut st.blinder ++ " " ++ numOut st.unblinder)
    | .error e => some (errOut e)
  | ["mgf1", hLen, maskLen, seed, table] => do
    let H := mkHash "" (← hLen.toNat?) (← parseTable table)
    match mgf1 H (← ofHex seed) (← maskLen.toNat?) with
    | .ok b => some (hexOut b)
    | .error e => some (errOut e)
  | ["pssenc", hLen, emBits, mHash, salt, table] => do
    let H := mkHash "" (← hLen.toNat?) (← parseTable table)
    match emsaPssEncode H (← ofHex mHash) (← emBits.toNat?) (← ofHex salt) with
    | .ok b => some (hexOut b)
    | .error e => some (errOut e)
  | ["pssver", hLen, emBits, sLen, mHash, em, table] => do
    let H := mkHash "" (← hLen.toNat?) (← parseTable table)
    match emsaPssVerify H (← ofHex mHash) (← ofHex em) (← emBits.toNat?) (← sLen.toNat?) with
    | .ok () => some "ok"
    | .error e => some (errOut e)
  | _ => none

def handle (toks : List String) : Option String :=
  match handleRsa toks with
  | some r => some r
  | none => handleDh toks

def main : IO Unit := protoMain handle
