import TlsModel.Proto
import TlsModel.Codec
import TlsModel.Fmt
import TlsModel.FmtAid
import TlsModel.Msgs
import TlsModel.Ssl2
import TlsModel.Gen.Codec
/-
  Driver for C15.  Formats are named as in `Tls.Msgs.table` (plus `ext:<ctx>`,
  `extdata:<cls>`, `serverHelloAuto`); values use the text syntax of TlsModel/FmtAid.lean.

    enc  <fmt> <val>        -> ok <hex> | overflow | shape
    dec  <fmt> <hex>        -> ok <val> <unread> | decode_error
    lens <fmt> <hex>        -> off:width,off:width,... | - | decode_error
    show <fmt>              -> <format text> <exact>      names -> table names
    wf   <fmt>              -> self | tail | no        (self-delimiting / tail-only / ill-formed)
    fits <fmt> <val>        -> true|false   shape <fmt> <val> -> true|false   len <fmt> <val> -> n
    w <op> ...              -> Writer primitives, reply: ok <hex> | overflow | tuple_mismatch
        w add <hex> <x> <n> | w one <hex> <x> | w two .. | w three .. | w four ..
        w fixseq <hex> <n> <x,x,..> | w varseq <hex> <n> <ll> <x,x,..>
        w vartuple <hex> <n> <ll> <x,x;x,x;..> | w varbytes <hex> <ll> <hex>
    p <hex> <op> <op> ...   -> Parser script, replies joined by `|`, stops at the first error
        get:n fix:n var:ll skip:n fixlist:n:k varlist:n:ll vartuple:n:k:ll start:ll set:n stop at rem idx
-/
open Tls Tls.Fmt Tls.Codec

/-- hex reader that copes with multi-megabyte strings (`Tls.ofHex` recurses once per byte) -/
def ofHexT (s : String) : Option Bytes :=
  if s == "-" then some []
  else
    let (b, rest) := readHex s.toList []
    if rest.isEmpty then some b else none

def natList? (s : String) : Option (List Nat) :=
  if s == "-" then some [] else (s.splitOn ",").mapM (·.toNat?)

def tupleList? (s : String) : Option (List (List Nat)) :=
  if s == "-" then some [] else (s.splitOn ";").mapM natList?

def wOut : Except WErr Writer → String
  | .ok w => "ok " ++ hexOut w
  | .error .overflow => "overflow"
  | .error .tupleMismatch => "tuple_mismatch"

def pErr : PErr → String
  | .readPast => "err:readPast"
  | .notMultiple => "err:notMultiple"
  | .underOver => "err:underOver"
  | .zeroDiv => "err:zeroDiv"

def natsOut (l : List Nat) : String := if l.isEmpty then "-" else ",".intercalate (l.map toString)

/-- one step of a Parser script -/
def pStep (p : Parser) (op : String) : Option (Except PErr (String × Parser)) :=
  match op.splitOn ":" with
  | ["get", n] => do
    let n ← n.toNat?
    some ((Parser.get p n).map fun (x, p) => ("n" ++ toString x, p))
  | ["fix", n] => do
    let n ← n.toNat?
    some ((Parser.getFixBytes p n).map fun (b, p) => ("b" ++ toHex b, p))
  | ["var", ll] => do
    let ll ← ll.toNat?
    some ((Parser.getVarBytes p ll).map fun (b, p) => ("b" ++ toHex b, p))
  | ["skip", n] => do
    let n ← n.toNat?
    some ((Parser.skipBytes p n).map fun p => ("ok", p))
  | ["fixlist", n, k] => do
    let n ← n.toNat?
    let k ← k.toNat?
    some ((Parser.getFixList p n k).map fun (l, p) => ("l" ++ natsOut l, p))
  | ["varlist", n, ll] => do
    let n ← n.toNat?
    let ll ← ll.toNat?
    some ((Parser.getVarList p n ll).map fun (l, p) => ("l" ++ natsOut l, p))
  | ["vartuple", n, k, ll] => do
    let n ← n.toNat?
    let k ← k.toNat?
    let ll ← ll.toNat?
    some ((Parser.getVarTupleList p n k ll).map fun (l, p) =>
      ("t" ++ (if l.isEmpty then "-" else ";".intercalate (l.map natsOut)), p))
  | ["start", ll] => do
    let ll ← ll.toNat?
    some ((Parser.startLengthCheck p ll).map fun p => ("ok", p))
  | ["set", n] => do
    let n ← n.toNat?
    some (.ok ("ok", Parser.setLengthCheck p n))
  | ["stop"] => some ((Parser.stopLengthCheck p).map fun _ => ("ok", p))
  | ["at"] => some ((Parser.atLengthCheck p).map fun b => (boolOut b, p))
  | ["rem"] => some (.ok ("r" ++ toString (Parser.getRemainingLength p), p))
  | ["idx"] => some (.ok ("i" ++ toString p.index, p))
  | _ => none

def pRun : Parser → List String → List String → Option String
  | _, [], acc => some ("|".intercalate acc.reverse)
  | p, op :: ops, acc =>
    match pStep p op with
    | none => none
    | some (.error e) => some ("|".intercalate (pErr e :: acc).reverse)
    | some (.ok (s, p)) => pRun p ops (s :: acc)

def fmtOf (name : String) (input : Option Bytes) (v : Option Val) : Option Msgs.Msg :=
  if name == "serverHelloAuto" then
    match input, v with
    | some b, _ => some { fmt := Msgs.serverHelloFor b }
    | none, some v => some { fmt := Msgs.serverHelloForVal v }
    | none, none => some { fmt := Msgs.serverHello }
  else Msgs.lookup name

/-! ### the regenerated codec.py (TlsModel/Gen/Codec.lean), run on Python ints of either sign
    gw <op> …   like `w`, reply: ok <hex> | valueError | decodeError | other
    gp <hex> <op> …   like `p`, errors rendered as err:<exception>
    gpw <type> <hex>  HandshakeMsg.postWrite -/

def intList? (s : String) : Option (List Int) :=
  if s == "-" then some [] else (s.splitOn ",").mapM (·.toInt?)

def intTuples? (s : String) : Option (List (List Int)) :=
  if s == "-" then some [] else (s.splitOn ";").mapM intList?

def excOut : PyO.Exc → String
  | .valueError => "valueError" | .decodeError => "decodeError" | .structError => "structError"
  | .overflowError => "overflowError" | .zeroDivision => "zeroDivision" | .indexError => "indexError"
  | .other => "other"

def gwOut : PyO.M PyO.Writer → String
  | .ok w => "ok " ++ hexOut w.bytes
  | .error e => excOut e

def intsOut (l : List Int) : String := if l.isEmpty then "-" else ",".intercalate (l.map toString)

def gpStep (p : PyO.Parser) (op : String) : Option (PyO.M (String × PyO.Parser)) :=
  match op.splitOn ":" with
  | ["get", n] => do
    let n ← n.toInt?
    some ((Codec.Gen.Parser_get p n).map fun (x, p) => ("n" ++ toString x, p))
  | ["fix", n] => do
    let n ← n.toInt?
    some ((Codec.Gen.Parser_getFixBytes p n).map fun (b, p) => ("b" ++ toHex b, p))
  | ["var", ll] => do
    let ll ← ll.toInt?
    some ((Codec.Gen.Parser_getVarBytes p ll).map fun (b, p) => ("b" ++ toHex b, p))
  | ["skip", n] => do
    let n ← n.toInt?
    some ((Codec.Gen.Parser_skip_bytes p n).map fun p => ("ok", p))
  | ["fixlist", n, k] => do
    let n ← n.toInt?
    let k ← k.toInt?
    some ((Codec.Gen.Parser_getFixList p n k).map fun (l, p) => ("l" ++ intsOut l, p))
  | ["varlist", n, ll] => do
    let n ← n.toInt?
    let ll ← ll.toInt?
    some ((Codec.Gen.Parser_getVarList p n ll).map fun (l, p) => ("l" ++ intsOut l, p))
  | ["vartuple", n, k, ll] => do
    let n ← n.toInt?
    let k ← k.toInt?
    let ll ← ll.toInt?
    some ((Codec.Gen.Parser_getVarTupleList p n k ll).map fun (l, p) =>
      ("t" ++ (if l.isEmpty then "-" else ";".intercalate (l.map intsOut)), p))
  | ["start", ll] => do
    let ll ← ll.toInt?
    some ((Codec.Gen.Parser_startLengthCheck p ll).map fun p => ("ok", p))
  | ["set", n] => do
    let n ← n.toInt?
    some ((Codec.Gen.Parser_setLengthCheck p n).map fun p => ("ok", p))
  | ["stop"] => some ((Codec.Gen.Parser_stopLengthCheck p).map fun p => ("ok", p))
  | ["at"] => some ((Codec.Gen.Parser_atLengthCheck p).map fun (b, p) => (boolOut b, p))
  | ["rem"] => some ((Codec.Gen.Parser_getRemainingLength p).map fun (n, p) => ("r" ++ toString n, p))
  | ["idx"] => some (.ok ("i" ++ toString p.index, p))
  | _ => none

def gpRun : PyO.Parser → List String → List String → Option String
  | _, [], acc => some ("|".intercalate acc.reverse)
  | p, op :: ops, acc =>
    match gpStep p op with
    | none => none
    | some (.error e) => some ("|".intercalate (("err:" ++ excOut e) :: acc).reverse)
    | some (.ok (s, p)) => gpRun p ops (s :: acc)

def handleGen : List String → Option String
  | ["gw", "add", w, x, n] => do
    some (gwOut (Codec.Gen.Writer_add ⟨← ofHexT w⟩ (← x.toInt?) (← n.toInt?)))
  | ["gw", "one", w, x] => do some (gwOut (Codec.Gen.Writer_addOne ⟨← ofHexT w⟩ (← x.toInt?)))
  | ["gw", "two", w, x] => do some (gwOut (Codec.Gen.Writer_addTwo ⟨← ofHexT w⟩ (← x.toInt?)))
  | ["gw", "three", w, x] => do some (gwOut (Codec.Gen.Writer_addThree ⟨← ofHexT w⟩ (← x.toInt?)))
  | ["gw", "four", w, x] => do some (gwOut (Codec.Gen.Writer_addFour ⟨← ofHexT w⟩ (← x.toInt?)))
  | ["gw", "fixseq", w, n, xs] => do
    some (gwOut (Codec.Gen.Writer_addFixSeq ⟨← ofHexT w⟩ (← intList? xs) (← n.toInt?)))
  | ["gw", "varseq", w, n, ll, xs] => do
    some (gwOut (Codec.Gen.Writer_addVarSeq ⟨← ofHexT w⟩ (← intList? xs) (← n.toInt?) (← ll.toInt?)))
  | ["gw", "vartuple", w, n, ll, ts] => do
    some (gwOut (Codec.Gen.Writer_addVarTupleSeq ⟨← ofHexT w⟩ (← intTuples? ts) (← n.toInt?) (← ll.toInt?)))
  | ["gw", "varbytes", w, ll, d] => do
    some (gwOut (Codec.Gen.Writer_add_var_bytes ⟨← ofHexT w⟩ (← ofHexT d) (← ll.toInt?)))
  | ["gpw", t, body] => do
    match Codec.Gen.HandshakeMsg_postWrite (← t.toInt?) ⟨← ofHexT body⟩ with
    | .ok b => some ("ok " ++ hexOut b)
    | .error e => some (excOut e)
  | "gp" :: hex :: ops => do
    let b ← ofHexT hex
    gpRun ⟨b, 0, 0, 0⟩ ops []
  | _ => none

/-- the SSLv2-framed structures have hand-written codecs (TlsModel/Ssl2.lean) -/
def ssl2Codec? : String → Option ((Val → Option Bytes) × (Bytes → Except Err (Val × Bytes)))
  | "recordHeader2" => some (Ssl2.rh2EncodeVal, Ssl2.rh2DecodeVal)
  | "ssl2ClientHello" => some (Ssl2.chEncode, Ssl2.chDecode)
  | "ssl2ServerHello" => some (Ssl2.shEncode, Ssl2.shDecode)
  | "ssl2ClientMasterKey" => some (Ssl2.cmkEncode, Ssl2.cmkDecode)
  | _ => none

def handleSsl2 : List String → Option String
  | ["enc", name, val] => do
    let (e, _) ← ssl2Codec? name
    let v ← Val.ofString? val
    match e v with
    | some b => some ("ok " ++ hexOut b)
    | none => some "overflow"
  | ["dec", name, hex] => do
    let (_, d) ← ssl2Codec? name
    let b ← ofHexT hex
    match d b with
    | .ok (v, r) => some ("ok " ++ v.render ++ " " ++ toString r.length)
    | .error _ => some "decode_error"
  | ["show", name] => (ssl2Codec? name).map fun _ => "- false"
  | _ => none

def handle : List String → Option String
  | ["enc", name, val] => do
    let v ← Val.ofString? val
    let m ← fmtOf name none (some v)
    match m.encode v with
    | some b => some ("ok " ++ hexOut b)
    | none => some (if shape m.fmt 0 v then "overflow" else "shape")
  | ["dec", name, hex] => do
    let b ← ofHexT hex
    let m ← fmtOf name (some b) none
    match m.decode b with
    | .ok (v, r) => some ("ok " ++ v.render ++ " " ++ toString r.length)
    | .error _ => some "decode_error"
  | ["lens", name, hex] => do
    let b ← ofHexT hex
    let m ← fmtOf name (some b) none
    match lenFields m.fmt 0 0 b with
    | some (l, _, _) =>
      some (if l.isEmpty then "-" else ",".intercalate (l.map fun (o, w) => toString o ++ ":" ++ toString w))
    | none => some "decode_error"
  | ["show", name] => do
    let m ← fmtOf name none none
    some (m.fmt.render ++ " " ++ boolOut m.exact)
  | ["ticketver", c, e, m, n] =>
    some (toString (Msgs.ticketVersion (c == "1") (e == "1") (m == "1") (n == "1")))
  | ["names"] => some (",".intercalate (Msgs.table.map (·.1)))
  | ["wf", name] => do
    let m ← fmtOf name none none
    some (if wf false m.fmt then "self" else if wf true m.fmt then "tail" else "no")
  | ["fits", name, val] => do
    let v ← Val.ofString? val
    let m ← fmtOf name none (some v)
    some (boolOut (fits m.fmt 0 v))
  | ["shape", name, val] => do
    let v ← Val.ofString? val
    let m ← fmtOf name none (some v)
    some (boolOut (shape m.fmt 0 v))
  | ["len", name, val] => do
    let v ← Val.ofString? val
    let m ← fmtOf name none (some v)
    some (toString (encLen m.fmt 0 v))
  | ["w", "add", w, x, n] => do
    some (wOut (Writer.add (← ofHexT w) (← x.toNat?) (← n.toNat?)))
  | ["w", "one", w, x] => do some (wOut (Writer.addOne (← ofHexT w) (← x.toNat?)))
  | ["w", "two", w, x] => do some (wOut (Writer.addTwo (← ofHexT w) (← x.toNat?)))
  | ["w", "three", w, x] => do some (wOut (Writer.addThree (← ofHexT w) (← x.toNat?)))
  | ["w", "four", w, x] => do some (wOut (Writer.addFour (← ofHexT w) (← x.toNat?)))
  | ["w", "fixseq", w, n, xs] => do
    some (wOut (Writer.addFixSeq (← ofHexT w) (← natList? xs) (← n.toNat?)))
  | ["w", "varseq", w, n, ll, xs] => do
    some (wOut (Writer.addVarSeq (← ofHexT w) (← natList? xs) (← n.toNat?) (← ll.toNat?)))
  | ["w", "vartuple", w, n, ll, ts] => do
    some (wOut (Writer.addVarTupleSeq (← ofHexT w) (← tupleList? ts) (← n.toNat?) (← ll.toNat?)))
  | ["w", "varbytes", w, ll, d] => do
    some (wOut (Writer.addVarBytes (← ofHexT w) (← ofHexT d) (← ll.toNat?)))
  | "p" :: hex :: ops => do
    let b ← ofHexT hex
    pRun (Parser.new b) ops []
  | _ => none

def main : IO Unit := protoMain (fun l => ((handleGen l).orElse (fun _ => handleSsl2 l)).orElse (fun _ => handle l))
