import TlsModel.Proto
import TlsModel.Codec
import TlsModel.Fmt
import TlsModel.FmtAid
import TlsModel.Msgs
import TlsModel.Ssl2
/-
  Driver for C15.  Formats are named as in `Tls.Msgs.table` (plus `ext:<ctx>`,
  `extdata:<cls>`, `serverHelloAuto`); values use the text syntax of TlsModel/FmtAid.lean.

    enc  <fmt> <val>        -> ok <hex> | overflow | shape
    dec  <fmt> <hex>        -> ok <val> <unread> | decode_error
    lens <fmt> <hex>        -> off:width,off:width,... | - | decode_error
    show <fmt>              -> <format text> <exact>      names -> table names
    wf   <fmt>              -> self | tail | no        (self-delimiting / tail-only / ill-formed)
    fits <fmt> <val>        -> true|false   shape <fmt> <val> -> true|false   len <fmt> <val> -> n
    w <op> ...              -> Writer primitives, reply: ok <hex> | overflow | tuple_mismatch
        w add <hex> <x> <n> | w one <hex> <x> | w two .. | w three .. | w four ..
        w fixseq <hex> <n> <x,x,..> | w varseq <hex> <n> <ll> <x,x,..>
        w vartuple <hex> <n> <ll> <x,x;x,x;..> | w varbytes <hex> <ll> <hex>
    p <hex> <op> <op> ...   -> Parser script, replies joined by `|`, stops at the first error
        get:n fix:n var:ll skip:n fixlist:n:k varlist:n:ll vartuple:n:k:ll start:ll set:n stop at rem idx
-/
open Tls Tls.Fmt Tls.Codec

/-- hex reader that copes with multi-megabyte strings (`Tls.ofHex` recurses once per byte) -/
def ofHexT (s : String) : Option Bytes :=
  if s == "-" then some []
  else
    let (b, rest) := readHex s.toList []
    if rest.isEmpty then some b else none

def natList? (s : String) : Option (List Nat) :=
  if s == "-" then some [] else (s.splitOn ",").mapM (·.toNat?)

def tupleList? (s : String) : Option (List (List Nat)) :=
  if s == "-" then some [] else (s.splitOn ";").mapM natList?

def wOut : Except WErr Writer → String
  | .ok w => "ok " ++ hexOut w
  | .error .overflow => "overflow"
  | .error .tupleMismatch => "tuple_mismatch"

def pErr : PErr → String
  | .readPast => "err:readPast"
  | .notMultiple => "err:notMultiple"
  | .underOver => "err:underOver"
  | .zeroDiv => "err:zeroDiv"

def natsOut (l : List Nat) : String := if l.isEmpty then "-" else ",".intercalate (l.map toString)

/-- one step of a Parser script -/
def pStep (p : Parser) (op : String) : Option (Except PErr (String × Parser)) :=
  match op.splitOn ":" with
  | ["get", n] => do
    let n ← n.toNat?
    some ((Parser.get p n).map fun (x, p) => ("n" ++ toString x, p))
  | ["fix", n] => do
    let n ← n.toNat?
    some ((Parser.getFixBytes p n).map fun (b, p) => ("b" ++ toHex b, p))
  | ["var", ll] => do
    let ll ← ll.toNat?
    some ((Parser.getVarBytes p ll).map fun (b, p) => ("b" ++ toHex b, p))
  | ["skip", n] => do
    let n ← n.toNat?
    some ((Parser.skipBytes p n).map fun p => ("ok", p))
  | ["fixlist", n, k] => do
    let n ← n.toNat?
    let k ← k.toNat?
    some ((Parser.getFixList p n k).map fun (l, p) => ("l" ++ natsOut l, p))
  | ["varlist", n, ll] => do
    let n ← n.toNat?
    let ll ← ll.toNat?
    some ((Parser.getVarList p n ll).map fun (l, p) => ("l" ++ natsOut l, p))
  | ["vartuple", n, k, ll] => do
    let n ← n.toNat?
    let k ← k.toNat?
    let ll ← ll.toNat?
    some ((Parser.getVarTupleList p n k ll).map fun (l, p) =>
      ("t" ++ (if l.isEmpty then "-" else ";".intercalate (l.map natsOut)), p))
  | ["start", ll] => do
    let ll ← ll.toNat?
    some ((Parser.startLengthCheck p ll).map fun p => ("ok", p))
  | ["set", n] => do
    let n ← n.toNat?
    some (.ok ("ok", Parser.setLengthCheck p n))
  | ["stop"] => some ((Parser.stopLengthCheck p).map fun _ => ("ok", p))
  | ["at"] => some ((Parser.atLengthCheck p).map fun b => (boolOut b, p))
  | ["rem"] => some (.ok ("r" ++ toString (Parser.getRemainingLength p), p))
  | ["idx"] => some (.ok ("i" ++ toString p.index, p))
  | _ => none

def pRun : Parser → List String → List String → Option String
  | _, [], acc => some ("|".intercalate acc.reverse)
  | p, op :: ops, acc =>
    match pStep p op with
    | none => none
    | some (.error e) => some ("|".intercalate (pErr e :: acc).reverse)
    | some (.ok (s, p)) => pRun p ops (s :: acc)

def fmtOf (name : String) (input : Option Bytes) (v : Option Val) : Option Msgs.Msg :=
  if name == "serverHelloAuto" then
    match input, v with
    | some b, _ => some { fmt := Msgs.serverHelloFor b }
    | none, some v => some { fmt := Msgs.serverHelloForVal v }
    | none, none => some { fmt := Msgs.serverHello }
  else Msgs.lookup name

/-- the SSLv2-framed structures have hand-written codecs (TlsModel/Ssl2.lean) -/
def ssl2Codec? : String → Option ((Val → Option Bytes) × (Bytes → Except Err (Val × Bytes)))
  | "recordHeader2" => some (Ssl2.rh2EncodeVal, Ssl2.rh2DecodeVal)
  | "ssl2ClientHello" => some (Ssl2.chEncode, Ssl2.chDecode)
  | "ssl2ServerHello" => some (Ssl2.shEncode, Ssl2.shDecode)
  | "ssl2ClientMasterKey" => some (Ssl2.cmkEncode, Ssl2.cmkDecode)
  | _ => none

def handleSsl2 : List String → Option String
  | ["enc", name, val] => do
    let (e, _) ← ssl2Codec? name
    let v ← Val.ofString? val
    match e v with
    | some b => some ("ok " ++ hexOut b)
    | none => some "overflow"
  | ["dec", name, hex] => do
    let (_, d) ← ssl2Codec? name
    let b ← ofHexT hex
    match d b with
    | .ok (v, r) => some ("ok " ++ v.render ++ " " ++ toString r.length)
    | .error _ => some "decode_error"
  | ["show", name] => (ssl2Codec? name).map fun _ => "- false"
  | _ => none

def handle : List String → Option String
  | ["enc", name, val] => do
    let v ← Val.ofString? val
    let m ← fmtOf name none (some v)
    match m.encode v with
    | some b => some ("ok " ++ hexOut b)
    | none => some (if shape m.fmt 0 v then "overflow" else "shape")
  | ["dec", name, hex] => do
    let b ← ofHexT hex
    let m ← fmtOf name (some b) none
    match m.decode b with
    | .ok (v, r) => some ("ok " ++ v.render ++ " " ++ toString r.length)
    | .error _ => some "decode_error"
  | ["lens", name, hex] => do
    let b ← ofHexT hex
    let m ← fmtOf name (some b) none
    match lenFields m.fmt 0 0 b with
    | some (l, _, _) =>
      some (if l.isEmpty then "-" else ",".intercalate (l.map fun (o, w) => toString o ++ ":" ++ toString w))
    | none => some "decode_error"
  | ["show", name] => do
    let m ← fmtOf name none none
    some (m.fmt.render ++ " " ++ boolOut m.exact)
  | ["ticketver", c, e, m, n] =>
    some (toString (Msgs.ticketVersion (c == "1") (e == "1") (m == "1") (n == "1")))
  | ["names"] => some (",".intercalate (Msgs.table.map (·.1)))
  | ["wf", name] => do
    let m ← fmtOf name none none
    some (if wf false m.fmt then "self" else if wf true m.fmt then "tail" else "no")
  | ["fits", name, val] => do
    let v ← Val.ofString? val
    let m ← fmtOf name none (some v)
    some (boolOut (fits m.fmt 0 v))
  | ["shape", name, val] => do
    let v ← Val.ofString? val
    let m ← fmtOf name none (some v)
    some (boolOut (shape m.fmt 0 v))
  | ["len", name, val] => do
    let v ← Val.ofString? val
    let m ← fmtOf name none (some v)
    some (toString (encLen m.fmt 0 v))
  | ["w", "add", w, x, n] => do
    some (wOut (Writer.add (← ofHexT w) (← x.toNat?) (← n.toNat?)))
  | ["w", "one", w, x] => do some (wOut (Writer.addOne (← ofHexT w) (← x.toNat?)))
  | ["w", "two", w, x] => do some (wOut (Writer.addTwo (← ofHexT w) (← x.toNat?)))
  | ["w", "three", w, x] => do some (wOut (Writer.addThree (← ofHexT w) (← x.toNat?)))
  | ["w", "four", w, x] => do some (wOut (Writer.addFour (← ofHexT w) (← x.toNat?)))
  | ["w", "fixseq", w, n, xs] => do
    some (wOut (Writer.addFixSeq (← ofHexT w) (← natList? xs) (← n.toNat?)))
  | ["w", "varseq", w, n, ll, xs] => do
    some (wOut (Writer.addVarSeq (← ofHexT w) (← natList? xs) (← n.toNat?) (← ll.toNat?)))
  | ["w", "vartuple", w, n, ll, ts] => do
    some (wOut (Writer.addVarTupleSeq (← ofHexT w) (← tupleList? ts) (← n.toNat?) (← ll.toNat?)))
  | ["w", "varbytes", w, ll, d] => do
    some (wOut (Writer.addVarBytes (← ofHexT w) (← ofHexT d) (← ll.toNat?)))
  | "p" :: hex :: ops => do
    let b ← ofHexT hex
    pRun (Parser.new b) ops []
  | _ => none

def main : IO Unit := protoMain (fun l => (handleSsl2 l).orElse (fun _ => handle l))
