import TlsModel.RecordDrv
/- driver for C02: record-layer model with toy primitives (see TlsModel/RecordDrv.lean for the protocol) -/
def main : IO Unit := Tls.protoMain Tls.Rec.Drv.handle
