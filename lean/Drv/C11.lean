import TlsModel.Proto
import TlsModel.RsaDecrypt
import TlsModel.RsaServer
/-
  Driver for C11.
    dec  nhex dhex emhex chex shatable hmactable   -> none | some <hex> | error <name>
         RSAKey.decrypt model.  `emhex` is the value the real key's private operation returns for
         the ciphertext (oracle value for `_rawPrivateKeyOp`); `shatable` = comma separated
         `in:out` pairs, `hmactable` = comma separated `key:msg:out` triples, all hex, computed by
         the harness with hashlib/hmac.  A lookup miss returns the empty string (and then the
         reply differs from the implementation's).
    synth k kdkhex hmactable                       -> hex | error <name>   (synthMessage)
    parse emhex                                    -> none | <msg start>   (parseEM, the plain spec)
    cke  cvmaj cvmin svmaj svmin randhex decres    -> hex   (substitutePremaster; decres = none|hex)
    nbits x / nbytes x (hex)                       -> decimal
    srv vmaj vmin ems cert ccsType cvmaj cvmin randhex decres clientPmsHex consumed
         -> <trace> <outcome>   server path after ClientKeyExchange (TlsModel/RsaServer.lean) on the
         symbolic primitives: the server's premaster is substitutePremaster(decres, rand, client
         version, negotiated version); the client's flight is the honest one for clientPms.
-/
open Tls Tls.RsaDec Tls.RsaServer

def showEmit (e : Emit) : String :=
  match e.alert with
  | some (l, d) => s!"alert:{l}:{d}@{e.consumed}"
  | none => s!"{e.ctype}:{if e.encrypted then "e" else "p"}{e.plainLen}@{e.consumed}"

def showOutcome : Outcome → String
  | .done => "done"
  | .localAlert d => s!"localAlert:{d}"
  | .remoteAlert l d => s!"remoteAlert:{l}:{d}"
  | .wouldBlock => "wouldBlock"
  | .pyErr e => "pyErr:" ++ e.name

def splitTable (s : String) : List String := if s == "-" then [] else s.splitOn ","

def parseSha (s : String) : Option (List (Bytes × Bytes)) :=
  (splitTable s).mapM fun e =>
    match e.splitOn ":" with
    | [a, b] => do pure (← ofHex a, ← ofHex b)
    | _ => none

def parseHmac (s : String) : Option (List (Bytes × Bytes × Bytes)) :=
  (splitTable s).mapM fun e =>
    match e.splitOn ":" with
    | [a, b, c] => do pure (← ofHex a, ← ofHex b, ← ofHex c)
    | _ => none

def lookupSha (t : List (Bytes × Bytes)) (x : Bytes) : Bytes :=
  match t.find? (fun e => e.1 == x) with
  | some e => e.2
  | none => []

def lookupHmac (t : List (Bytes × Bytes × Bytes)) (k m : Bytes) : Bytes :=
  match t.find? (fun e => e.1 == k && e.2.1 == m) with
  | some e => e.2.2
  | none => []

def handle : List String → Option String
  | ["dec", n, d, em, c, sha, hm] => do
    let n := beDecode (← ofHex n)
    let d := beDecode (← ofHex d)
    let em := beDecode (← ofHex em)
    let c ← ofHex c
    let sha ← parseSha sha
    let hm ← parseHmac hm
    let K : Key := { n := n, d := d }
    let P : Prims := { sha256 := lookupSha sha, hmac := lookupHmac hm, privInt := fun _ => em }
    match decrypt K P c with
    | .error e => some ("error " ++ e.name)
    | .ok none => some "none"
    | .ok (some m) => some ("some " ++ hexOut m)
  | ["synth", k, kdk, hm] => do
    let k ← k.toNat?
    let kdk ← ofHex kdk
    let hm ← parseHmac hm
    match synthMessage (lookupHmac hm) k kdk with
    | .error e => some ("error " ++ e.name)
    | .ok m => some (hexOut m)
  | ["parse", em] => do
    let em ← ofHex em
    match parseEM em with
    | none => some "none"
    | some s => some (toString s)
  | ["cke", cvmaj, cvmin, svmaj, svmin, rand, dec] => do
    let cv := ((← cvmaj.toNat?), (← cvmin.toNat?))
    let sv := ((← svmaj.toNat?), (← svmin.toNat?))
    let rand ← ofHex rand
    let dec ← (if dec == "none" then some none else (ofHex dec).map some)
    some (hexOut (substitutePremaster dec rand cv sv))
  | ["srv", vmaj, vmin, ems, cert, ccs, cvmaj, cvmin, rand, dec, cpms, consumed] => do
    let ver := ((← vmaj.toNat?), (← vmin.toNat?))
    let cv := ((← cvmaj.toNat?), (← cvmin.toNat?))
    let rand ← ofHex rand
    let dec ← (if dec == "none" then some none else (ofHex dec).map some)
    let cpms ← ofHex cpms
    let E : SrvEnv := { version := ver, ems := ems == "1", hasClientCert := cert == "1", clientRandom := [1, 1],
                        serverRandom := [2, 2], transcript := [[1, 0], [16, 0]], keyLen := 104,
                        consumed := (← consumed.toNat?) }
    let pms := substitutePremaster dec rand cv ver
    let r := serverAfterCKE symPrims E pms (symClientFlight E cpms (← ccs.toNat?))
    let tr := if r.trace.isEmpty then "-" else String.intercalate "," (r.trace.map showEmit)
    some (tr ++ " " ++ showOutcome r.outcome)
  | ["nbits", x] => do some (toString (numBits (beDecode (← ofHex x))))
  | ["nbytes", x] => do some (toString (numBytes (beDecode (← ofHex x))))
  | _ => none

def main : IO Unit := protoMain handle
