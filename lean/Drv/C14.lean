import TlsModel.Proto
import TlsModel.IO
import TlsModel.Gen.Wrappers
/-
  Stateful driver for C14: executes the IO model under a scripted schedule.

    sock <streamhex> <rsched> <ssched> <buffered 0|1>   reset the device
         rsched: comma list of  c<k> | wb | eof | err     ssched: a<k> | wb | err     ("-" = empty)
    feed <hex> <rsched>            append bytes in flight / receive events
    recvall <n>                    _sockRecvAll(n)           -> y=<yields> r=<res> up=<upstream hex>
    recvhdr                        _recvHeader()
    recordrecv <limit> <tls13 0|1> RecordSocket.recv()
    sendall <hex>                  _sockSendAll(data)        -> y=.. r=.. sent=<hex>
    recordsend <vmaj> <vmin> <type> <hex> <padding>
    brecv <n> | bsend <hex> | bsendall <hex> | bflush | bufw <0|1>     BufferedSocket methods
    sent                           bytes accepted by the raw socket so far, write queue
    dnew | dtls | dstatic t n | ddynamic t off sos | dadd t hex | dget | dempty | dclear
    getall <tls13 0|1> <records>   records: type:ssl2:hex;...  -> everything _getNextRecord delivers
    asmnew | asm <op> <gen>        op: inRead inWrite setHandshake setClose setWrite
                                   gen: y<v> | stop | raise    -> state and outcome
    fragment <recordSize> <hex>    payload lengths of the records _sendMsg cuts the buffer into
    alertpeek <tls13> <limit>      error path of _sendMsgThroughSocket: read on until a message, classify
    asmdrain <op> <gen> <gen,..>   inRead/inWrite event with _doReadOp's read-ahead drain loop (extra reads do <gen,..>)
    wrappers                       the generated blocking-wrapper shape facts
-/
open Tls Tls.IO

structure St where
  dev : BSock := {}
  buffered : Bool := false
  defrag : Defrag := {}
  asm : ASM := {}

def parseREv (s : String) : Option REv :=
  if s == "wb" then some .wb else if s == "eof" then some .eof else if s == "err" then some .err
  else if s.startsWith "c" then (s.drop 1).toNat?.map .chunk else none

def parseSEv (s : String) : Option SEv :=
  if s == "wb" then some .wb else if s == "err" then some .err
  else if s.startsWith "a" then (s.drop 1).toNat?.map .accept else none

def parseList {α : Type} (f : String → Option α) (s : String) : Option (List α) :=
  if s == "-" then some [] else (s.splitOn ",").mapM f

def excName : Exc → String
  | .abruptClose => "abruptClose" | .socketError => "socketError"
  | .illegalParameter => "illegalParameter" | .recordOverflow => "recordOverflow"
  | .syntaxError => "syntaxError" | .indexError => "indexError" | .valueError => "valueError"
  | .keyError => "keyError" | .unexpectedMessage => "unexpectedMessage"

def resStr {α : Type} (f : α → String) : Res α → String
  | .ok a => "ok:" ++ f a
  | .exc e => "exc:" ++ excName e
  | .pending => "pending"
  | .fuelOut => "fuelout"

def yStr (ys : List Nat) : String :=
  if ys.isEmpty then "-" else String.join (ys.map toString)

def hdrStr (h : Header) : String :=
  s!"{h.type},{h.vmaj},{h.vmin},{h.length},{boolOut h.ssl2},{h.padding},{boolOut h.securityEscape}"

def upstream (st : St) : Bytes := st.dev.readBuf ++ st.dev.inner.stream

/-- run a reader on the raw socket or through the BufferedSocket -/
def runR {α : Type} (st : St) (raw : Sock → Out Sock α) (buf : BSock → Out BSock α)
    (f : α → String) : St × Option String :=
  if st.buffered then
    let o := buf st.dev
    let st' := { st with dev := o.dev }
    (st', some s!"y={yStr o.yields} r={resStr f o.res} up={hexOut (upstream st')}")
  else
    let o := raw st.dev.inner
    let st' := { st with dev := { st.dev with inner := o.dev } }
    (st', some s!"y={yStr o.yields} r={resStr f o.res} up={hexOut (upstream st')}")

def runS (st : St) (raw : Sock → Out Sock Unit) (buf : BSock → Out BSock Unit) : St × Option String :=
  if st.buffered then
    let o := buf st.dev
    let st' := { st with dev := o.dev }
    (st', some s!"y={yStr o.yields} r={resStr (fun _ => "-") o.res} sent={hexOut st'.dev.inner.sent}")
  else
    let o := raw st.dev.inner
    let st' := { st with dev := { st.dev with inner := o.dev } }
    (st', some s!"y={yStr o.yields} r={resStr (fun _ => "-") o.res} sent={hexOut st'.dev.inner.sent}")

def parseRec (s : String) : Option Rec :=
  match s.splitOn ":" with
  | [t, z, d] => do
    let t ← t.toNat?
    let d ← ofHex d
    some { type := t, ssl2 := z == "1", data := d }
  | _ => none

def goutStr : GOut → String
  | .msg t d => s!"m{t}:{hexOut d}"
  | .record r => s!"r{r.type}:{if r.ssl2 then "1" else "0"}:{hexOut r.data}"

def defragStr (d : Defrag) : String :=
  String.intercalate "," (d.buffers.map fun (k, v) => s!"{k}={hexOut v}")

def asmStr (a : ASM) : String :=
  let b (x : Bool) := if x then "1" else "0"
  let r := match a.result with | none => "N" | some v => toString v
  s!"{b a.handshaker}{b a.closer}{b a.reader}{b a.writer}/{r}"

def asmResStr : AsmRes → String
  | .ok evs => "ok" ++ String.join (evs.map fun
      | .outConnect => "+connect" | .outClose => "+close" | .outRead => "+read" | .outWrite => "+write")
  | .assertionError => "AssertionError"
  | .raised => "raised"

def parseGen (s : String) : Option GenStep :=
  if s == "stop" then some .stop else if s == "raise" then some .raise
  else if s.startsWith "y" then (s.drop 1).toNat?.map .yld else none

def parseOp (s : String) : Option AsmOp :=
  match s with
  | "inRead" => some .inRead | "inWrite" => some .inWrite | "setHandshake" => some .setHandshake
  | "setClose" => some .setClose | "setWrite" => some .setWrite | _ => none

def exceptStr {α : Type} (f : α → String) : Except Exc α → String
  | .ok a => "ok:" ++ f a
  | .error e => "exc:" ++ excName e

def handle (st : St) (toks : List String) : St × Option String :=
  match toks with
  | ["sock", stream, rs, ss, b] =>
    match ofHex stream, parseList parseREv rs, parseList parseSEv ss with
    | some stream, some rs, some ss =>
      ({ st with dev := { inner := { stream := stream, rsched := rs, ssched := ss } }, buffered := b == "1" },
       some "ok")
    | _, _, _ => (st, none)
  | ["feed", data, rs] =>
    match ofHex data, parseList parseREv rs with
    | some data, some rs =>
      let i := st.dev.inner
      ({ st with dev := { st.dev with inner := { i with stream := i.stream ++ data, rsched := i.rsched ++ rs } } },
       some "ok")
    | _, _ => (st, none)
  | ["recvall", n] =>
    match n.toNat? with
    | some n => runR st (sockRecvAll n) (sockRecvAll n) hexOut
    | none => (st, none)
  | ["recvhdr"] => runR st recvHeader recvHeader hdrStr
  | ["recordrecv", lim, t13] =>
    match lim.toNat? with
    | some lim =>
      let cfg : RSCfg := { recvRecordLimit := lim, tls13record := t13 == "1" }
      runR st (recordRecv cfg) (recordRecv cfg) (fun (h, b) => hdrStr h ++ "/" ++ hexOut b)
    | none => (st, none)
  | ["sendall", data] =>
    match ofHex data with
    | some data => runS st (sockSendAll data) (sockSendAll data)
    | none => (st, none)
  | ["recordsend", vmaj, vmin, ty, data, pad] =>
    match vmaj.toNat?, vmin.toNat?, ty.toNat?, ofHex data, pad.toNat? with
    | some vmaj, some vmin, some ty, some data, some pad =>
      runS st (recordSend vmaj vmin ty data pad) (recordSend vmaj vmin ty data pad)
    | _, _, _, _, _ => (st, none)
  | ["brecv", n] =>
    match n.toNat? with
    | some n =>
      let (r, d) := st.dev.recv n
      let st' := { st with dev := d }
      let rs := match r with
        | .data b => "data:" ++ hexOut b | .wouldBlock => "wouldblock" | .error => "error"
        | .exhausted => "exhausted"
      (st', some s!"{rs} buf={hexOut d.readBuf} up={hexOut (upstream st')}")
    | none => (st, none)
  | ["bsend", data] =>
    match ofHex data with
    | some data =>
      let (r, d) := st.dev.send data
      let rs := match r with
        | .sent k => s!"sent:{k}" | .wouldBlock => "wouldblock" | .error => "error" | .exhausted => "exhausted"
      ({ st with dev := d }, some rs)
    | none => (st, none)
  | ["bsendall", data] =>
    match ofHex data with
    | some data => ({ st with dev := st.dev.sendall data }, some "ok")
    | none => (st, none)
  | ["bflush"] => ({ st with dev := st.dev.flush }, some "ok")
  | ["bufw", b] => ({ st with dev := { st.dev with bufferWrites := b == "1" } }, some "ok")
  | ["sent"] =>
    (st, some s!"sent={hexOut st.dev.inner.sent} queue={String.intercalate "," (st.dev.writeQueue.map hexOut)}")
  | ["dnew"] => ({ st with defrag := {} }, some "ok")
  | ["dtls"] => ({ st with defrag := tlsDefrag }, some "ok")
  | ["dstatic", t, n] =>
    match t.toNat?, n.toNat? with
    | some t, some n =>
      match st.defrag.addStaticSize t n with
      | .ok d => ({ st with defrag := d }, some "ok")
      | .error e => (st, some ("exc:" ++ excName e))
    | _, _ => (st, none)
  | ["ddynamic", t, off, sos] =>
    match t.toNat?, off.toNat?, sos.toNat? with
    | some t, some off, some sos =>
      match st.defrag.addDynamicSize t off sos with
      | .ok d => ({ st with defrag := d }, some "ok")
      | .error e => (st, some ("exc:" ++ excName e))
    | _, _, _ => (st, none)
  | ["dadd", t, data] =>
    match t.toNat?, ofHex data with
    | some t, some data =>
      match st.defrag.addData t data with
      | .ok d => ({ st with defrag := d }, some "ok")
      | .error e => (st, some ("exc:" ++ excName e))
    | _, _ => (st, none)
  | ["dget"] =>
    match st.defrag.getMessage with
    | .ok (some (t, m), d) => ({ st with defrag := d }, some s!"msg:{t}:{hexOut m} bufs={defragStr d}")
    | .ok (none, d) => ({ st with defrag := d }, some s!"none bufs={defragStr d}")
    | .error e => (st, some ("exc:" ++ excName e))
  | ["dempty"] => (st, some (boolOut st.defrag.isEmpty))
  | ["dclear"] => ({ st with defrag := st.defrag.clearBuffers }, some "ok")
  | ["getall", t13, recs] =>
    let recs := if recs == "-" then some [] else (recs.splitOn ";").mapM parseRec
    match recs with
    | some recs =>
      let fuel := recs.foldl (fun acc r => acc + r.data.length + 2) 2 +
                  st.defrag.buffers.foldl (fun acc kv => acc + kv.2.length) 0
      let (gs, e, d) := getAll (t13 == "1") fuel st.defrag recs
      let es := match e with | none => "none" | some e => excName e
      ({ st with defrag := d },
       some s!"out={if gs.isEmpty then "-" else String.intercalate ";" (gs.map goutStr)} exc={es} bufs={if e.isSome then "?" else defragStr d}")
    | none => (st, none)
  | ["alertpeek", t13, lim] =>
    match lim.toNat? with
    | some lim =>
      let cfg : RSCfg := { recvRecordLimit := lim }
      let f (r : PeekRes) : String := match r with
        | .remoteAlert l d => s!"remoteAlert:{l}:{d}" | .originalError => "originalError"
      let fuel := (upstream st).length + 2
      runR st (alertPeek cfg (t13 == "1") fuel tlsDefrag) (alertPeek cfg (t13 == "1") fuel tlsDefrag) f
    | none => (st, none)
  | ["fragment", k, data] =>
    match k.toNat?, ofHex data with
    | some k, some data =>
      (st, some (String.intercalate "," ((fragmentMsg k data).map fun f => toString f.length)))
    | _, _ => (st, none)
  | ["asmnew"] => ({ st with asm := {} }, some (asmStr {}))
  | ["asmset", h, c, r, w, res] =>
    let b (x : String) := x == "1"
    let res := if res == "N" then some none else res.toNat?.map some
    match res with
    | some res =>
      let a : ASM := { handshaker := b h, closer := b c, reader := b r, writer := b w, result := res }
      ({ st with asm := a }, some (asmStr a))
    | none => (st, none)
  | ["asmdrain", op, g, pend] =>
    match parseGen g, (if pend == "-" then some [] else (pend.splitOn ",").mapM parseGen) with
    | some g, some pend =>
      let r := if op == "inWrite" then st.asm.inWriteDrain g pend else st.asm.inReadDrain g pend
      ({ st with asm := r.1 },
       some s!"{asmStr r.1} {asmResStr r.2} wr={repr r.1.wantsReadEvent} ww={repr r.1.wantsWriteEvent}")
    | _, _ => (st, none)
  | ["asm", op, g] =>
    match parseOp op, parseGen g with
    | some op, some g =>
      let (a, r) := st.asm.step op g
      ({ st with asm := a },
       some s!"{asmStr a} {asmResStr r} wr={repr a.wantsReadEvent} ww={repr a.wantsWriteEvent}{match r with | .ok (_ :: _) => " cb=" ++ asmStr a | _ => ""}")
    | _, _ => (st, none)
  | ["wrappers"] =>
    (st, some (String.intercalate "," (Tls.Gen.Wrappers.facts.map fun (n, b) => s!"{n}={boolOut b}")))
  | _ => (st, none)

def main : IO Unit := Tls.protoMainS handle ({} : St)
