import TlsModel.Proto
import TlsModel.Suites
/-
  Driver for C20 (suite numbers decimal, lists comma separated, `-` = empty list, `None` = Python None).
    cs s                         -> keyLength ivLength factory|None           | AssertionError
    ms s                         -> macLength digest|None                     | AssertionError
    obj factory keyLength        -> name isAEAD isBlock blockSize tagLength   | AssertionError | ValueError
    prf s                        -> sha256 32 | sha384 48
    kuprf s                      -> sha256 32 | sha384 48       (_calcTLS1_3KeyUpdate)
    calcprf vmaj vmin s          -> PRF_SSL|PRF|PRF_1_2|PRF_1_2_SHA384        | AssertionError
    ffv minmaj minmin maxmaj maxmin suites            -> suites
    fsl vmaj vmin macs ciphers kexs suites            -> suites      (_filterSuites)
    get getter vmaj vmin macs ciphers kexs            -> suites      (CipherSuite.get*Suites)
    ffc alg|None suites                               -> suites      (filter_for_certificate)
    cguard vmaj vmin s offered                        -> 1|0         (client's ServerHello suite guard)
    resok vmaj vmin s macs ciphers kexs               -> 1|0         (server's resumption suite check)
    ccn s / cmn s                -> canonical cipher / MAC name | None
    ckex s                       -> class expectsCertificate expectsSKE checksChain   (generated client chain/conditions)
    ske s                        -> kind|AssertionError signed
    skex s                       -> helper class sendsCertificate recordsChain | AssertionError recordsChain (generated server chain)
    chainproblems                -> - | what the chain translator could not classify
    obs s vmaj vmin client|server-> rendered Obs | None      (modelObs)
    spec s vmaj vmin             -> rendered Obs | None      (specObsOf)
    sem s                        -> rendered SuiteSem | None (semOf: generated char codes)
    parse NAME                   -> rendered SuiteSem | None (parseIana on the string)
    name s                       -> registered name | None
    namecodes                    -> ok | bad   (ietfNameCodes is ietfNames, character by character)
    neg client|server vmaj vmin  -> suites     (negotiableAt)
    selunion                     -> suites     (modelSelectorUnion)
-/
open Tls Tls.Suites Tls.Gen.Suites Tls.Gen.KexChains

def natsOut (l : List Nat) : String := natList l

def parseNats (s : String) : Option (List Nat) :=
  if s == "-" then some [] else (s.splitOn ",").mapM String.toNat?

/-- names outside the vocabulary are ignored by `_filterSuites` (no `in` test mentions them) -/
def parseNames {α} (all : List α) (str : α → String) (s : String) : List α :=
  if s == "-" then [] else (s.splitOn ",").filterMap (ofStr all str)

def exOut {α} (f : α → String) : Except String α → String
  | .ok a => f a
  | .error e => e

def parseRole : String → Option Role
  | "client" => some .client
  | "server" => some .server
  | _ => none

def handle : List String → Option String
  | ["cs", s] => do
    let s ← s.toNat?
    some (exOut (fun c => s!"{c.keyLength} {c.ivLength} {optStr Factory.str c.factory}") (getCipherSettings s))
  | ["ms", s] => do
    let s ← s.toNat?
    some (exOut (fun (m : Nat × Option Digest) => s!"{m.1} {optStr Digest.str m.2}") (getMacSettings s))
  | ["obj", f, k] => do
    let f ← ofStr Factory.all Factory.str f
    let k ← k.toNat?
    some (exOut (fun o => s!"{o.name.str} {boolStr o.isAEAD} {boolStr o.isBlockCipher} {o.blockSize} {o.tagLength}")
      (factoryObj f k))
  | ["prf", s] => do
    let s ← s.toNat?
    let p := prfParams s
    some s!"{p.1.str} {p.2}"
  | ["kuprf", s] => do
    let s ← s.toNat?
    let p := prfAfterKeyUpdate s
    some s!"{p.1.str} {p.2}"
  | ["calcprf", a, b, s] => do
    let s ← s.toNat?
    some (exOut PrfFn.str (calcKeyPrf (← a.toNat?, ← b.toNat?) s))
  | ["ffv", a, b, c, d, l] => do
    let l ← parseNats l
    some (natsOut (filterForVersion l (← a.toNat?, ← b.toNat?) (← c.toNat?, ← d.toNat?)))
  | ["fsl", a, b, m, c, k, l] => do
    let l ← parseNats l
    some (natsOut (filterSuites l (parseNames MName.all MName.str m) (parseNames CName.all CName.str c)
      (parseNames KName.all KName.str k) (← a.toNat?, ← b.toNat?)))
  | ["get", g, a, b, m, c, k] => do
    let g ← ofStr Getter.all Getter.str g
    some (natsOut (getter g (parseNames MName.all MName.str m) (parseNames CName.all CName.str c)
      (parseNames KName.all KName.str k) (← a.toNat?, ← b.toNat?)))
  | ["cguard", a, b, s, l] => do
    let l ← parseNats l
    some (boolStr (clientAcceptsSuite l (← a.toNat?, ← b.toNat?) (← s.toNat?)))
  | ["resok", a, b, s, m, c, k] => do
    some (boolStr (resumeSuiteOk (parseNames MName.all MName.str m) (parseNames CName.all CName.str c)
      (parseNames KName.all KName.str k) (← a.toNat?, ← b.toNat?) (← s.toNat?)))
  | ["ffc", alg, l] => do
    let l ← parseNats l
    let alg ← if alg == "None" then some none else (ofStr CertAlg.all CertAlg.str alg).map some
    some (natsOut (filterForCertificate l alg))
  | ["ccn", s] => do some (optStr CName.str (canonicalCipherName (← s.toNat?)))
  | ["cmn", s] => do some (optStr MName.str (canonicalMacName (← s.toNat?)))
  | ["ckex", s] => do
    let s ← s.toNat?
    some s!"{optStr KexClass.str (clientKexClass s)} {optStr boolStr (clientExpectsCertificate s)} {optStr boolStr (clientExpectsSKE s)} {optStr boolStr (clientChecksChain s)}"
  | ["ske", s] => do
    let s ← s.toNat?
    some s!"{exOut SkeKind.str (skeKind s)} {boolStr (skeSigned s)}"
  | ["skex", s] => do
    let s ← s.toNat?
    let leaf := match serverKexChain.eval s with
      | none => "unknown"
      | some none => "AssertionError"
      | some (some (p, c)) => s!"{p.str} {c.str} {optStr boolStr ((serverPathSendsCert p).eval s)}"
    some s!"{leaf} {optStr boolStr (serverRecordsChain s)}"
  | ["chainproblems"] =>
    let u := clientKexChain.unknowns ++ serverKexChain.unknowns ++ clientExpectsCertificateCond.unknowns ++
      clientExpectsSKECond.unknowns ++ clientChecksChainCond.unknowns ++ serverRecordsChainCond.unknowns ++
      (serverPathSendsCert .srp).unknowns ++ (serverPathSendsCert .cert).unknowns ++ (serverPathSendsCert .anon).unknowns ++
      Tls.Gen.KexChains.translatorProblems
    some (if u.isEmpty then "-" else "|".intercalate (u.map fun w => w.replace " " "_"))
  | ["obs", s, a, b, r] => do
    let s ← s.toNat?
    let r ← parseRole r
    some (optStr Obs.render (modelObs s (← a.toNat?, ← b.toNat?) r))
  | ["spec", s, a, b] => do
    let s ← s.toNat?
    some (optStr Obs.render (specObsOf s (← a.toNat?, ← b.toNat?)))
  | ["sem", s] => do some (optStr SuiteSem.render (semOf (← s.toNat?)))
  | ["parse", n] => some (optStr SuiteSem.render (parseIana n))
  | ["name", s] => do some (optStr id (ietfName (← s.toNat?)))
  | ["namecodes"] =>
    some (if ietfNames.map (fun p => (p.1, p.2.toList.map Char.toNat)) == ietfNameCodes then "ok" else "bad")
  | ["neg", r, a, b] => do
    let r ← parseRole r
    some (natsOut (negotiableAt r (← a.toNat?, ← b.toNat?)))
  | ["selunion"] => some (natsOut modelSelectorUnion)
  | _ => none

def main : IO Unit := protoMain handle
