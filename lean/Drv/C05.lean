import TlsModel.Proto
import TlsModel.Auth
/-
  Driver for C05 (symbolic instantiation of the abstract cryptography).

  Signatures are symbolic: `toySign k alg data = [k] ++ tag(alg) ++ data`, `verify` compares.
  Hashes are symbolic and length-faithful: `tag(h) :: fit(x, hashLen h - 1)`.

  Ops (tokens are `key:value`, order free; lists are comma separated, `-` = empty):

    shl ver:<n> small:<0|1> cert:<alg|->:<curve> set:<settings>
        -> `a.b,a.b,...` | `-` | raise:<Name>                        (sigHashesToList)

    site site:<ske|cv12|cv13c|cv13s|pha|dc> ver:<n> cert:<alg>:<curve>:<baselen>:<bits>
         set:<settings> ch:<ids the verifier put in ClientHello/CertificateRequest | auto>
         fam:<rsa|ecdsa> label:<a.b|-> sig:<form> [own:<a.b|->] [dc:<...>]
        -> ok | alert:<n> | raise:<Name>
      <form> = empty | garbage | badder | s:<signer>:<salg a.b|->:<msg>
      <signer> = ee | other | dckey ;  <msg> = this | other | swaptag | nocontext

    srp N:<n> g:<n> k:<n> x:<n> a:<n> b:<n> u:<n> [v:<n>] [A:<n>] [B:<n>]
        -> <client premaster or alert:n> <server premaster or alert:n>

    psk prf:<h> last:<0|1> cfg:<id>=<secret>=<hash>,... ids:<id>=<binderform>,...
        -> none | sel:<index>:<id> | alert:<n>
      <binderform> = ok:<secret hex> | bad

    hs12s / hs13c / ...   handshake-level ordering ops, see `handle`.
-/
open Tls Tls.Auth Tls.Auth.Gen

def tagOfHash : HashName → UInt8
  | .none => 0 | .md5 => 1 | .sha1 => 2 | .sha224 => 3 | .sha256 => 4 | .sha384 => 5
  | .sha512 => 6 | .intrinsic => 8

def toyHashLen : HashName → Nat
  | .md5 => 16 | .sha1 => 20 | .sha224 => 28 | .sha256 => 32 | .sha384 => 48 | .sha512 => 64
  | _ => 0

def fit (x : Bytes) (n : Nat) : Bytes := (x ++ List.replicate n 0).take n

/-- 64-bit FNV-style accumulator, sensitive to every input byte and to the length -/
def fnv (seed : Nat) (x : Bytes) : Nat :=
  x.foldl (fun a b => ((a ^^^ (b.toNat + 1)) * 1099511628211 + 0x9e37) % 18446744073709551616) (seed + x.length)

/-- symbolic hash of the right length: tag byte, then 8-byte FNV words with different seeds -/
def toyHash (h : HashName) (x : Bytes) : Bytes :=
  tagOfHash h :: fit ((List.range 8).flatMap fun i => beEncode 8 (fnv (14695981039346656037 + 7919 * i + (tagOfHash h).toNat) x))
    (toyHashLen h - 1)

def algTag : SigAlg → Bytes
  | .rsaPkcs1 => [1]
  | .rsaPss h n => [2, tagOfHash h, UInt8.ofNat n]
  | .ecdsa => [3]
  | .eddsa => [4]
  | .dsa => [5]

/-- ECDSA / DSA reduce the digest to the group order: compare on the leading 32 bytes only -/
def normData (a : SigAlg) (d : Bytes) : Bytes :=
  match a with
  | .ecdsa | .dsa => d.take 32
  | _ => d

def toySign (k : Nat) (a : SigAlg) (d : Bytes) : Bytes :=
  [0x53, UInt8.ofNat k] ++ algTag a ++ normData a d

def toyCrypto : Crypto :=
  { verify := fun k a d s => s == toySign k a d
    hash := toyHash
    hashLen := toyHashLen
    pkcs1Prefix := fun h => [0x30, tagOfHash h]
    pkcs1Sha1Alt := [0x31, 2]
    derOk := fun s => s.head? != some 0xEE
    hmac := fun h k d => [0x48, tagOfHash h] ++ k ++ [0x7c] ++ d
    finKey := fun h s => [0x46, tagOfHash h] ++ s
    prf12 := fun v m l t => [0x50, UInt8.ofNat v] ++ m ++ [0x7c] ++ l ++ [0x7c] ++ t
    binderKey := fun h p e => [0x42, tagOfHash h, if e then 1 else 0] ++ p }

/-! ### parsing -/

def kv (toks : List String) (k : String) : Option String :=
  toks.findSome? fun t =>
    match t.splitOn ":" with
    | k' :: rest => if k' == k then some (String.intercalate ":" rest) else none
    | [] => none

def listOf (s : String) : List String := if s == "-" || s == "" then [] else s.splitOn ","

def parseHash : String → Option HashName
  | "none" => some .none | "md5" => some .md5 | "sha1" => some .sha1 | "sha224" => some .sha224
  | "sha256" => some .sha256 | "sha384" => some .sha384 | "sha512" => some .sha512
  | "intrinsic" => some .intrinsic | _ => none

def parsePad : String → Option RsaPad
  | "pkcs1" => some .pkcs1 | "pss" => some .pss | _ => none

def parseMore : String → Option MoreScheme
  | "ed25519" => some .ed25519 | "ed448" => some .ed448 | "bp256" => some .bp256
  | "bp384" => some .bp384 | "bp512" => some .bp512 | "mldsa44" => some .mldsa44
  | "mldsa65" => some .mldsa65 | "mldsa87" => some .mldsa87 | _ => none

def parseCurve : String → Option Curve
  | "nist256" => some .nist256 | "nist384" => some .nist384 | "nist521" => some .nist521
  | "bp256" => some .bp256 | "bp384" => some .bp384 | "bp512" => some .bp512
  | "other" => some .other | "-" => some .other | _ => none

def parseAlg : String → Option CertAlg
  | "rsa" => some .rsa | "rsapss" => some .rsaPss | "ecdsa" => some .ecdsa
  | "ed25519" => some .ed25519 | "ed448" => some .ed448 | "dsa" => some .dsa | _ => none

def parseId (s : String) : Option SchemeId :=
  match s.splitOn "." with
  | [a, b] => do pure (← a.toNat?, ← b.toNat?)
  | _ => none

def parseIds (s : String) : Option (List SchemeId) := (listOf s).mapM parseId

def parseSettings (s : String) : Option Settings := do
  let parts := s.splitOn ";"
  let get (k : String) : Option String := parts.findSome? fun t =>
    match t.splitOn "=" with
    | [k', v] => if k' == k then some v else none
    | _ => none
  pure { rsaSigHashes := ← (listOf (← get "rh")).mapM parseHash
         rsaSchemes := ← (listOf (← get "rs")).mapM parsePad
         ecdsaSigHashes := ← (listOf (← get "eh")).mapM parseHash
         dsaSigHashes := ← (listOf (← get "dh")).mapM parseHash
         moreSigSchemes := ← (listOf (← get "ms")).mapM parseMore
         eccCurves := ← (listOf (← get "cv")).mapM parseCurve
         minKeySize := ← (← get "min").toNat?
         maxKeySize := ← (← get "max").toNat?
         dcSigAlgs := ← parseIds ((get "dc").getD "-") }

def showIds (l : List SchemeId) : String :=
  if l.isEmpty then "-" else String.intercalate "," (l.map fun p => s!"{p.1}.{p.2}")

def showReject : Reject → String
  | .alert n => s!"alert:{n}"
  | .raise n => s!"raise:{n}"

def showRes {α : Type} (r : Except Reject α) : String :=
  match r with
  | .ok _ => "ok"
  | .error e => showReject e

/-- cert:<alg>:<curve>:<baselen>:<bits> with key id `k` -/
def parseCert (k : Nat) (s : String) : Option Cert :=
  match s.splitOn ":" with
  | [a, c, bl, bits] => do
    pure { key := k, alg := ← parseAlg a, curve := ← parseCurve c, baselen := ← bl.toNat?, bits := ← bits.toNat? }
  | [a, c] => do pure { key := k, alg := ← parseAlg a, curve := ← parseCurve c }
  | _ => none

/-! ### the honest prover (specification side: what a peer holding `key` signs) -/

def thisT : Transcript := [0xA1, 1, 2, 3, 4, 5, 6, 7]
def otherT : Transcript := [0xB2, 1, 2, 3, 4, 5, 6, 7]
def crThis : Bytes := List.replicate 32 0x11
def crOther : Bytes := List.replicate 32 0x12
def srThis : Bytes := List.replicate 32 0x21
def skeParams : Bytes := [3, 0, 23, 4, 9, 9, 9, 9]
def certBytesThis : Bytes := [0x30, 0x82, 7, 7]
def credBytesThis : Bytes := [0, 9, 0x3a, 0x80, 8, 7, 0, 0, 3, 1, 2, 3]
def firstHsT : Transcript := [0xF1, 0xF2, 0xF3]
def crBytesThis : Bytes := [13, 0, 0, 5, 4, 0xC1, 0xC2, 0xC3, 0xC4]
def crBytesOther : Bytes := [13, 0, 0, 5, 4, 0xD1, 0xD2, 0xD3, 0xD4]
def crCtxThis : Bytes := [0xC1, 0xC2, 0xC3, 0xC4]
def certMsgThis : Bytes := [11, 0, 0, 3, 9, 9, 9]

/-- the message a peer at `site` signs (before any hashing), for message selector `msg` -/
def proverMsg (site msg : String) (prf : HashName) : Bytes :=
  let tr := if msg == "other" then otherT else thisT
  match site with
  | "ske" => (if msg == "other" then crOther else crThis) ++ srThis ++ skeParams
  | "cv12" => tr
  | "cv13c" =>          -- the client verifies: the server signs with the `server` tag
    tbs13 (if msg == "swaptag" then tagClient else tagServer) (toyHash prf tr)
  | "cv13s" => tbs13 (if msg == "swaptag" then tagServer else tagClient) (toyHash prf tr)
  | "pha" =>
    let t := if msg == "nocontext" then firstHsT ++ certMsgThis
      else if msg == "other" then firstHsT ++ crBytesOther ++ certMsgThis
      else firstHsT ++ crBytesThis ++ certMsgThis
    tbs13 (if msg == "swaptag" then tagServer else tagClient) (toyHash prf t)
  | _ => []

/-- hash-then-sign as a holder of `key` (algorithm family from the KEY, parameters from `salg`) -/
def proverSign (key : Cert) (salg : Option SchemeId) (legacyCv : Bool) (m : Bytes) : Bytes :=
  let hOf : HashName := match salg with
    | some sid => match schemeRepr sid.1 sid.2 with
      | some i => i.hash
      | none => (hashRepr sid.1).getD .sha1
    | none => .sha1
  match key.alg with
  | .rsa | .rsaPss =>
    match salg with
    | none => toySign key.key .rsaPkcs1 (toyHash .md5 m ++ toyHash .sha1 m)
    | some sid =>
      let isPss : Bool := match schemeRepr sid.1 sid.2 with
        | some i => i.pad == some .pss
        | none => false
      if isPss then toySign key.key (.rsaPss hOf (toyHashLen hOf)) (toyHash hOf m)
      else toySign key.key .rsaPkcs1 ([0x30, tagOfHash hOf] ++ toyHash hOf m)
  | .ecdsa => toySign key.key .ecdsa (toyHash hOf m)
  | .ed25519 | .ed448 => toySign key.key .eddsa m
  | .dsa =>
    -- tlslite's TLS 1.0/1.1 DSA CertificateVerify signs MD5‖SHA-1 (mirrored, not RFC 4346)
    if salg.isNone && legacyCv then toySign key.key .dsa (toyHash .md5 m ++ toyHash .sha1 m)
    else toySign key.key .dsa (toyHash hOf m)

def parseSigForm (form site : String) (prf : HashName) (ee other dck : Cert) (legacyCv : Bool)
    (dcMsg : Bytes) : Option Bytes :=
  match form.splitOn ":" with
  | ["empty"] => some []
  | ["garbage"] => some [0x47, 1, 2, 3]
  | ["badder"] => some [0xEE, 1, 2, 3]
  | ["s", signer, salg, msg] => do
    let key ← match signer with
      | "ee" => some ee | "other" => some other | "dckey" => some dck | _ => none
    let salg ← if salg == "-" then some none else (parseId salg).map some
    let m := if site == "dcsig" then dcMsg else proverMsg site msg prf
    pure (proverSign key salg legacyCv m)
  | _ => none

/-! ### handlers -/

def handleShl (toks : List String) : Option String := do
  let ver ← (← kv toks "ver").toNat?
  let small := (← kv toks "small") == "1"
  let s ← parseSettings (← kv toks "set")
  let chain : Chain ← match (← kv toks "cert") with
    | "-" => some []
    | c => (parseCert 1 c).map fun x => [x]
  match sigHashesToList s small chain ver with
  | .ok l => some (showIds l)
  | .error e => some (showReject e)

def handleSite (toks : List String) : Option String := do
  let site ← kv toks "site"
  let ver ← (← kv toks "ver").toNat?
  let ee ← parseCert 1 (← kv toks "cert")
  let other : Cert := { ee with key := 2 }
  let s ← parseSettings (← kv toks "set")
  let prf : HashName := (parseHash ((kv toks "prf").getD "sha256")).getD .sha256
  let label : Option SchemeId ← match (← kv toks "label") with
    | "-" => some none
    | x => (parseId x).map some
  let fam : SuiteSig := if (kv toks "fam").getD "rsa" == "ecdsa" then .ecdsaOrDsa else .rsaLike
  let own : Option SchemeId := (kv toks "own").bind parseId
  -- delegated credential description: dc:<alg>:<curve>:<dcscheme a.b>:<delegation alg a.b>:<delegation sigform>
  let dcTok := kv toks "dc"
  let C := toyCrypto
  let chain : Chain := if (kv toks "nochain").isSome then [] else [ee]
  let chAuto : List SchemeId :=
    match sigHashesToList s false [] 4, sigHashesToList s false [] 3 with
    | .ok l4, .ok l3 => l4 ++ l3.filter (fun x => !(l4.contains x))
    | _, _ => []
  let ch : List SchemeId ← match (kv toks "ch").getD "auto" with
    | "auto" => some chAuto
    | x => parseIds x
  let dcKey : Cert ← match dcTok with
    | some d => match d.splitOn ":" with
      | a :: c :: _ => (parseCert 3 (a ++ ":" ++ c)).map fun k =>
          { k with baselen := match k.curve with | .nist384 | .bp384 => 48 | .nist521 => 66 | .bp512 => 64 | _ => 32 }
      | _ => none
    | none => some { ee with key := 3 }
  let form ← kv toks "sig"
  let legacyCv := site == "cv12"
  let sig ← parseSigForm form site prf ee other dcKey legacyCv []
  let cv : CertVerify := { scheme := label, signature := sig }
  match site with
  | "ske" =>
    let (ha, sa) := label.getD (0, 0)
    let ske : SKE := { hashAlg := ha, signAlg := sa, params := skeParams, signature := sig }
    some (showRes (verifySKE C s ver fam chain (some ske) crThis srThis))
  | "cv12" => some (showRes (verifyCV12 C s ver chain thisT cv))
  | "cv13s" => some (showRes (verifyCV13Server C s ch chain thisT prf own cv))
  | "cv13c" =>
    match dcTok with
    | none => some (showRes (verifyCV13Client C s ch chain certBytesThis [] thisT prf cv))
    | some d =>
      match d.splitOn ":" with
      | [_, _, dcs, dalg, dsigner, dsalg, dform] => do
        let dcScheme ← parseId dcs
        let dAlg ← parseId dalg
        let dmsg := dcContext certBytesThis credBytesThis dAlg
        let dsig ← if dform == "ok" then
            parseSigForm s!"s:{dsigner}:{dsalg}:this" "dcsig" prf ee other dcKey false dmsg
          else parseSigForm dform "dcsig" prf ee other dcKey false dmsg
        let dc : DelegatedCred := { dcKey := dcKey, dcScheme := dcScheme, credBytes := credBytesThis,
                                    algorithm := dAlg, signature := dsig }
        some (showRes (verifyCV13Client C s ch chain certBytesThis [dc] thisT prf cv))
      | _ => none
  | "pha" =>
    let cr : CertRequest := { context := crCtxThis, sigAlgs := ch, bytes := crBytesThis }
    let st : PhaState := { requests := [(crCtxThis, cr)], clientCertChain := [], firstHs := firstHsT,
                           clAppSecret := [7, 7], prf := prf, certRequired := false }
    let cvBytes : Bytes := [15, 0, 0, 2, 1, 1]
    let ctx1 := firstHsT ++ crBytesThis ++ certMsgThis ++ (if chain.isEmpty then [] else cvBytes)
    let fin := if (kv toks "fin").getD "ok" == "ok" then finished13 C prf [7, 7] ctx1 else [0]
    let ctxTok := (kv toks "ctx").getD "this"
    let crContext := if ctxTok == "this" then crCtxThis else if ctxTok == "empty" then [] else [0xD1, 0xD2, 0xD3, 0xD4]
    match phaServer C s st crContext chain certMsgThis cv cvBytes fin with
    | .ok st' => some (if st'.clientCertChain.isEmpty then "ok:nochain" else "ok")
    | .error e => some (showReject e)
  | _ => none

def showSrp (r : Except Reject Nat) : String :=
  match r with
  | .ok n => toString n
  | .error e => showReject e

def handleSrp (toks : List String) : Option String := do
  let n (k : String) : Option Nat := (kv toks k).bind String.toNat?
  let N ← n "N"; let g ← n "g"; let k ← n "k"; let x ← n "x"; let a ← n "a"; let b ← n "b"; let u ← n "u"
  let v := (n "v").getD (powMod g x N)
  let A := (n "A").getD (srpClientA N g a)
  let B := (n "B").getD (srpServerB N g k v b)
  let uc := (n "uc").getD u
  let us := (n "us").getD u
  some (showSrp (srpClientPremaster N g k x a B uc) ++ " " ++ showSrp (srpServerPremaster N v b A us))

def handlePsk (toks : List String) : Option String := do
  let prf ← parseHash (← kv toks "prf")
  let last := (← kv toks "last") == "1"
  let cfgs ← (listOf (← kv toks "cfg")).mapM fun t =>
    match t.splitOn "=" with
    | [i, sec, h] => do pure ({ identity := ← ofHex i, secret := ← ofHex sec, hash := ← parseHash h } : PskConfig)
    | _ => none
  let C := toyCrypto
  let trunc : Transcript := [1, 0, 0, 9, 3, 3]
  let ids ← (listOf (← kv toks "ids")).mapM fun t =>
    match t.splitOn "=" with
    | [i, "bad"] => do pure (← ofHex i, ([0xBA, 0xD0] : Bytes))
    | [i, "empty"] => do pure (← ofHex i, ([] : Bytes))
    | [i, "ok", sec, h, ext] => do
      pure (← ofHex i, calcBinder C (← parseHash h) (← ofHex sec) trunc (ext == "1"))
    | [i, "prefix", sec, h] => do
      pure (← ofHex i, (calcBinder C (← parseHash h) (← ofHex sec) trunc true).dropLast)
    | _ => none
  match pskSelect C cfgs prf trunc last ids 0 with
  | .ok none => some "none"
  | .ok (some (i, c)) => some s!"sel:{i}:{toHex c.identity}"
  | .error e => some (showReject e)

def showOutcome (o : Outcome) : String :=
  let idn := match o.session with
    | none => "nosession"
    | some s =>
      "scc=" ++ (if s.serverCertChain.isEmpty then "0" else "1") ++
      ",ccc=" ++ (if s.clientCertChain.isEmpty then "0" else "1") ++
      ",srp=" ++ (if s.srpUsername.isSome then "1" else "0") ++
      ",psk=" ++ (if s.pskIdentity.isSome then "1" else "0") ++
      ",res=" ++ (if s.resumable then "1" else "0")
  (if o.completed then "done" else "fail") ++ " " ++
    (match o.reject with | some r => showReject r | none => "-") ++ " " ++ idn ++
    " closed=" ++ (if o.closed then "1" else "0")

/-- handshake-level ordering ops: the proofs are honest or bad as flags
      hs12s ver cv:<ok|bad|none> fin:<ok|bad> [checker:<ok|second|bad>] [extra:<0|1>]
      hs12c ver ske:<ok|bad|none> fin:<ok|bad> [checker]
      hs13c cv:<ok|bad> fin:<ok|bad> [checker]
      hs13s mode:<cert|psk|pskbad> cv:<ok|bad|none> fin:<ok|bad> [checker]
      hssrp A:<ok|zero> fin:<ok|bad> -/
def handleHs (op : String) (toks : List String) : Option String := do
  let C := toyCrypto
  let s : Settings := { rsaSigHashes := [.sha256], rsaSchemes := [.pss, .pkcs1], ecdsaSigHashes := [.sha256],
                        dsaSigHashes := [], moreSigSchemes := [], eccCurves := [.nist256],
                        minKeySize := 1023, maxKeySize := 8193 }
  let srv : Cert := { key := 1, alg := .rsa, bits := 2048 }
  let cli : Cert := { key := 5, alg := .rsa, bits := 2048 }
  let finTok := (kv toks "fin").getD "ok"
  let fp : Cert → Bytes := fun c => [UInt8.ofNat c.key]
  let wrap (isClient : Bool) (o : Outcome) : Outcome :=
    match kv toks "checker" with
    | some "ok" => wrapper fp (some (if isClient then [1] else [5])) isClient o
    | some "second" => wrapper fp (some [9]) isClient o      -- fingerprint of the extra certificate
    | some "bad" => wrapper fp (some [77]) isClient o        -- fingerprint of no certificate in the chain
    | _ => o
  -- `extra:1`: the peer's chain carries a second certificate (key 9) after its end-entity certificate
  let extra : Chain := if (kv toks "extra").getD "0" == "1" then [{ key := 9, alg := .rsa, bits := 2048 }] else []
  match op with
  | "hs12s" =>
    let ver ← (← kv toks "ver").toNat?
    let cvTok ← kv toks "cv"
    let chain : Chain := if cvTok == "none" then [] else [cli] ++ extra
    let lab : Option SchemeId := if ver = 3 then some (8, 4) else none
    let sig := if cvTok == "ok" then proverSign cli lab true thisT else [0]
    let master : Bytes := [9, 9]
    let fin := if finTok == "ok" then finished12 C ver master lblClientFinished otherT else [0]
    some (showOutcome (wrap false (hsServer12 C s ver [srv] chain thisT { scheme := lab, signature := sig } master otherT fin)))
  | "hs12c" =>
    let ver ← (← kv toks "ver").toNat?
    let skeTok ← kv toks "ske"
    let lab : Option SchemeId := if ver = 3 then some (8, 4) else none
    let sig := if skeTok == "ok" then proverSign srv lab false (crThis ++ srThis ++ skeParams) else [0]
    let (ha, sa) := lab.getD (0, 0)
    let ske : Option SKE := if skeTok == "none" then none
      else some { hashAlg := ha, signAlg := sa, params := skeParams, signature := sig }
    let master : Bytes := [9, 9]
    let fin := if finTok == "ok" then finished12 C ver master lblServerFinished otherT else [0]
    some (showOutcome (wrap true (hsClient12 C s ver .rsaLike ([srv] ++ extra) ske crThis srThis master otherT fin [])))
  | "hs13c" =>
    let cvTok ← kv toks "cv"
    let sig := if cvTok == "ok" then proverSign srv (some (8, 4)) false (tbs13 tagServer (toyHash .sha256 thisT)) else [0]
    let fin := if finTok == "ok" then finished13 C .sha256 [4, 4] otherT else [0]
    some (showOutcome (wrap true (hsClient13 C s [(8, 4)] ([srv] ++ extra) certBytesThis [] thisT .sha256
      { scheme := some (8, 4), signature := sig } [4, 4] otherT fin)))
  | "hs13s" =>
    let mode ← kv toks "mode"
    let cvTok ← kv toks "cv"
    let cfg : PskConfig := { identity := [0x69], secret := [0x6b], hash := .sha256 }
    let trunc : Transcript := [1, 0, 0, 9]
    let offered : List (Bytes × Bytes) :=
      if mode == "psk" then [([0x69], calcBinder C .sha256 [0x6b] trunc true)]
      else if mode == "pskbad" then [([0x69], [0])]
      else []
    let chain : Chain := if cvTok == "none" then [] else [cli] ++ extra
    let sig := if cvTok == "ok" then proverSign cli (some (8, 4)) false (tbs13 tagClient (toyHash .sha256 thisT)) else [0]
    let fin := if finTok == "ok" then finished13 C .sha256 [4, 4] otherT else [0]
    some (showOutcome (wrap false (hsServer13 C s [srv] [cfg] .sha256 trunc true offered true [(8, 4)] chain thisT (some (8, 4))
      { scheme := some (8, 4), signature := sig } [4, 4] otherT fin)))
  | "hs13t" =>
    -- TLS 1.3 server, the client offers a session ticket of a victim (client chain key 66)
    --   tk:<good|badbinder|hash|expired|unknown|version>  own:<cert|none>
    let tkTok ← kv toks "tk"
    let ownTok := (kv toks "own").getD "none"
    let victim : Cert := { key := 66, alg := .rsa, bits := 2048 }
    let tk : Ticket := { psk := [0x70], hash := if tkTok == "hash" then .sha384 else .sha256,
                         version := if tkTok == "version" then 3 else 4, creation := 100, clientChain := [victim] }
    let dec : Bytes → Option Ticket := fun i => if i == [0x74] && tkTok != "unknown" then some tk else none
    let now := if tkTok == "expired" then 200 else 120
    let trunc : Transcript := [1, 0, 0, 9]
    let binder := if tkTok == "badbinder" then [0] else calcBinder C .sha256 tk.psk trunc false
    let chain : Chain := if ownTok == "cert" then [cli] else []
    let sig := proverSign cli (some (8, 4)) false (tbs13 tagClient (toyHash .sha256 thisT))
    let fin := if finTok == "ok" then finished13 C .sha256 [4, 4] otherT else [0]
    let o := hsServer13T C s [srv] [] dec 50 now .sha256 trunc true [([0x74], binder)] true [(8, 4)] chain thisT (some (8, 4))
      { scheme := some (8, 4), signature := sig } [4, 4] otherT fin
    let who := match o.session with
      | some se => match se.clientCertChain with
        | c :: _ => if c.key == 66 then "victim" else "own"
        | [] => "none"
      | none => "none"
    some (showOutcome o ++ " who=" ++ who)
  | "hssrp" =>
    let aTok ← kv toks "A"
    let N := 23; let v := 4; let b := 3; let u := 5
    let A := if aTok == "zero" then 46 else 8
    let masterOf : Nat → Bytes := fun n => [UInt8.ofNat n]
    let S := (srpServerPremaster N v b A u).toOption.getD 0
    let fin := if finTok == "ok" then finished12 C 3 (masterOf S) lblClientFinished otherT else [0]
    some (showOutcome (hsServerSRP C 3 [0x61] N v b A u masterOf otherT fin))
  | _ => none

/-- chk mode:<cert|extpsk|ticket13|sessid12|ticket12|srp|anon> client:<0|1> chain:<0|1> pin:<ok|bad|none> cr:<0|1>
      -> resumed=<0|1> <done|fail> -/
def handleChk (toks : List String) : Option String := do
  let mode ← match (← kv toks "mode") with
    | "cert" => some AuthMode.cert | "extpsk" => some .extPsk | "ticket13" => some .ticket13
    | "sessid12" => some .sessionId12 | "ticket12" => some .ticket12 | "srp" => some .srp
    | "anon" => some .anon | _ => none
  let isClient := (← kv toks "client") == "1"
  let hasChain := (← kv toks "chain") == "1"
  let peer : Cert := { key := 3, alg := .rsa, bits := 2048 }
  let chain : Chain := if hasChain then [peer] else []
  let sess : Session := if isClient then { serverCertChain := chain } else { clientCertChain := chain }
  let o := Outcome.done sess
  let fp : Cert → Bytes := fun c => [UInt8.ofNat c.key]
  let cr := (kv toks "cr").getD "0" == "1"
  let checker : Option (Bytes × Bool) := match (kv toks "pin").getD "none" with
    | "ok" => some ([3], cr) | "bad" => some ([9], cr) | _ => none
  let r := wrapperR fp checker isClient (resumedOf mode) o
  some ("resumed=" ++ (if resumedOf mode then "1" else "0") ++ " " ++ (if r.completed then "done" else "fail"))

def handle : List String → Option String
  | "shl" :: toks => handleShl toks
  | "chk" :: toks => handleChk toks
  | "site" :: toks => handleSite toks
  | "srp" :: toks => handleSrp toks
  | "psk" :: toks => handlePsk toks
  | op :: toks => handleHs op toks
  | [] => none

def main : IO Unit := protoMain handle
