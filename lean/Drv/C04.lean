import TlsModel.Proto
import TlsModel.Transcript
import TlsModel.TranscriptKeys
/-
  Driver for C04 (one request line, one reply line; hex for bytes, `-` = empty).

    tail  smaj smin vmaj vmin rnd8                    -> hex of serverRandomTail
    tailres smaj smin vmaj vmin rnd8                  -> hex of serverRandomTailResumed (abbreviated ServerHello)
    sent  cmaj cmin vmaj vmin tail                    -> proceed | abort:illegal_parameter
    selver minmaj minmin smaj smin chmaj chmin sversions ext -> ok M N | err:protocol_version
             (version lists `3.4,3.3`; ext `none` when the extension is absent, `-` when empty)
    after minmaj minmin smaj smin chmaj chmin sversions ext suites found(0|1)
                                                      -> ok M N abbreviated|full | err:<alert>   (serverAfterHello)
    scsv  smaj smin vmaj vmin suites                  -> proceed | abort:inappropriate_fallback
    wire  suites flag                                 -> suites on the wire
    offer cmaj cmin cversions                         -> M N ext
    realver chmaj chmin ext                           -> M N
    script flow opts                                  -> events in wire order (C:1 S:2 ccsS finC restart …)
    shape flow opts                                   -> handshake types hashed, in order, at completion
    points13 flow opts                                -> hs sCV sFin ap cCV cFin res offset  (transcript lengths, RFC 8446 7.1)
    points12 flow opts                                -> ems cFin sFin
    detector flow opts i                              -> client | server | client,server | none
    run side flow opts htable cfin sfin produce input -> ok <transcript> <pre> | abort:<why>
             htable  in:out;…  (digest oracle for message_hash, computed by the harness with hashlib)
             cfin/sfin       verify_data of the two Finished as captured (Finished value oracle)
             produce kind:body,…   bodies this side sends (ch1 ch2 sh hrr nst ee cert ske cr shd cv cke np)
             input   items delivered to this side: ccs | type:body
    split bytes                                       -> t:body,… (decodeAll)
    trunc ch binders(b1,b2)                           -> psk_truncate
    hrr   ch1 ch2 groups selected cookie              -> ok | err:<why>      (hello: v;random;sid;suites;comp;typ:data,…)
-/
open Tls Tls.Transcript Tls.Transcript.GenBase Tls.Transcript.Keys

def parseVer (a b : String) : Option Version := do some (← a.toNat?, ← b.toNat?)

def parseVerList (s : String) : Option (List Version) :=
  if s == "-" then some [] else
  (s.splitOn ",").mapM fun x =>
    match x.splitOn "." with
    | [a, b] => parseVer a b
    | _ => none

def parseNatList (s : String) : Option (List Nat) :=
  if s == "-" then some [] else (s.splitOn ",").mapM (·.toNat?)

def parseFlow : String → Option Flow
  | "full12" => some .full12 | "resumeId12" => some .resumeId12
  | "resumeTicket12" => some .resumeTicket12 | "full13" => some .full13
  | "hrr13" => some .hrr13 | "psk13" => some .psk13 | "pskHrr13" => some .pskHrr13
  | _ => none

def parseOpts (s : String) : Option Opts :=
  match s.toList with
  | [a, b, c, d, e, f, g] =>
    let bit (c : Char) : Option Bool := if c == '1' then some true else if c == '0' then some false else none
    do some { serverCert := ← bit a, ske := ← bit b, certReq := ← bit c, clientCert := ← bit d,
              nst := ← bit e, npn := ← bit f, compress := ← bit g }
  | _ => none

def sideName : Side → String
  | .client => "client" | .server => "server"

def parseSide : String → Option Side
  | "client" => some .client | "server" => some .server | _ => none

def evName : Ev → String
  | .msg s k => (if s == .client then "C:" else "S:") ++ toString k.htype.toNat
  | .ccs s => if s == .client then "ccsC" else "ccsS"
  | .fin s => if s == .client then "finC" else "finS"
  | .restart => "restart"

def verdictName : Verdict → String
  | .proceed => "proceed"
  | .abort .illegalParameter => "abort:illegal_parameter"
  | .abort .inappropriateFallback => "abort:inappropriate_fallback"
  | .abort .protocolVersion => "abort:protocol_version"

def abortName : Abort → String
  | .noInput => "no_input" | .unexpectedMessage => "unexpected_message" | .rejected => "rejected"
  | .badFinished => "bad_finished" | .tooLong => "too_long"

def parsePairs (s : String) : Option (List (String × Bytes)) :=
  if s == "-" then some [] else
  (s.splitOn ",").mapM fun x =>
    match x.splitOn ":" with
    | [a, b] => do some (a, ← ofHex b)
    | _ => none

def parseHTable (s : String) : Option (List (Bytes × Bytes)) :=
  if s == "-" then some [] else
  (s.splitOn ";").mapM fun x =>
    match x.splitOn ":" with
    | [a, b] => do some (← ofHex a, ← ofHex b)
    | _ => none

def parseInput (s : String) : Option (List Wire) :=
  if s == "-" then some [] else
  (s.splitOn ",").mapM fun x =>
    if x == "ccs" then some Wire.ccs else
    match x.splitOn ":" with
    | [a, b] => do some (Wire.hs ⟨UInt8.ofNat (← a.toNat?), ← ofHex b⟩)
    | _ => none

def lookupBody (tbl : List (String × Bytes)) (k : String) : Bytes :=
  match tbl.find? (·.1 == k) with
  | some (_, b) => b
  | none => [0xde, 0xad]      -- a body the implementation never sent: the comparison will fail

def kindKey (k : Kind) (tr : List Msg) : String :=
  match k with
  | .clientHello => if tr.isEmpty then "ch1" else "ch2"
  | .serverHello => "sh" | .helloRetryRequest => "hrr" | .newSessionTicket => "nst"
  | .encryptedExtensions => "ee" | .certificate => "cert" | .serverKeyExchange => "ske"
  | .certificateRequest => "cr" | .serverHelloDone => "shd" | .certificateVerify => "cv"
  | .clientKeyExchange => "cke" | .nextProtocol => "np" | .finished => "fin" | .messageHash => "mh"
  | .compressedCertificate => "cert"

def parseHello (s : String) : Option Hello :=
  match s.splitOn ";" with
  | [v, random, sid, suites, comp, exts] => do
    let v ← match v.splitOn "." with
      | [a, b] => parseVer a b
      | _ => none
    let exts ← if exts == "-" then some [] else
      (exts.splitOn ",").mapM fun x =>
        match x.splitOn ":" with
        | [t, d] => do some ({ typ := ← t.toNat?, data := ← ofHex d } : Ext)
        | _ => none
    some { version := v, random := ← ofHex random, sessionId := ← ofHex sid,
           suites := ← parseNatList suites, compression := ← parseNatList comp, exts := exts }
  | _ => none

def hrrErrName : HrrErr → String
  | .missingKeyShare => "missing_key_share" | .multipleShares => "multiple_shares"
  | .wrongGroup => "wrong_group" | .malformedCookie => "malformed_cookie"
  | .missingCookie => "missing_cookie" | .pskNotLast => "psk_not_last" | .mismatch => "mismatch"
  | .indexError => "index_error"

def natsOut (l : List Nat) : String := if l.isEmpty then "-" else ",".intercalate (l.map toString)

def handle : List String → Option String
  | ["tail", sa, sb, va, vb, rnd] => do
    some (hexOut (serverRandomTail (← parseVer sa sb) (← parseVer va vb) (← ofHex rnd)))
  | ["tailres", sa, sb, va, vb, rnd] => do
    some (hexOut (serverRandomTailResumed (← parseVer sa sb) (← parseVer va vb) (← ofHex rnd)))
  | ["sent", ca, cb, va, vb, tail] => do
    some (verdictName (clientChecksSentinel (← parseVer ca cb) (← parseVer va vb) (← ofHex tail)))
  | ["selver", na, nb, sa, sb, ca, cb, svs, ext] => do
    let ext ← if ext == "none" then some none else (parseVerList ext).map some
    match serverSelectVersion (← parseVerList svs) (← parseVer na nb) (← parseVer sa sb) (← parseVer ca cb) ext with
    | .ok v => some s!"ok {v.1} {v.2}"
    | .error _ => some "err:protocol_version"
  | ["after", na, nb, sa, sb, ca, cb, svs, ext, suites, found] => do
    let ext ← if ext == "none" then some none else (parseVerList ext).map some
    match serverAfterHello (← parseVerList svs) (← parseVer na nb) (← parseVer sa sb) (← parseVer ca cb) ext
        (← parseNatList suites) (found == "1") with
    | .ok (v, p) => some s!"ok {v.1} {v.2} {if p == .abbreviated then "abbreviated" else "full"}"
    | .error .protocolVersion => some "err:protocol_version"
    | .error .inappropriateFallback => some "err:inappropriate_fallback"
    | .error .illegalParameter => some "err:illegal_parameter"
  | ["scsv", sa, sb, va, vb, suites] => do
    some (verdictName (serverChecksScsv (← parseVer sa sb) (← parseVer va vb) (← parseNatList suites)))
  | ["wire", suites, flag] => do
    some (natsOut (clientWireSuites (← parseNatList suites) (flag == "1")))
  | ["offer", ca, cb, cvs] => do
    let (v, ext) := clientOffer (← parseVer ca cb) (← parseVerList cvs)
    let e := match ext with
      | none => "none"
      | some l => if l.isEmpty then "-" else ",".intercalate (l.map fun (w : Version) => s!"{w.1}.{w.2}")
    some s!"{v.1} {v.2} {e}"
  | ["realver", ca, cb, ext] => do
    let ext ← if ext == "none" then some none else (parseVerList ext).map some
    let v := clientHelloRealVersion (← parseVer ca cb) ext
    some s!"{v.1} {v.2}"
  | ["script", f, o] => do
    some (" ".intercalate ((flowScript (← parseFlow f) (← parseOpts o)).map evName))
  | ["shape", f, o] => do
    some (natsOut ((shapeOf (flowScript (← parseFlow f) (← parseOpts o)) []).map (·.toNat)))
  | ["points13", f, o] => do
    let f ← parseFlow f
    let o ← parseOpts o
    match specPoints13 f o with
    | none => some "none"
    | some p =>
      let off := (shapeOf (flowScript f o) []).length - (hashedFromLastHello (flowScript f o)).length
      let on (x : Option Nat) : String := match x with
        | some n => toString n
        | none => "-"
      some s!"{p.hs} {on p.sCertVerify} {p.sFinished} {p.ap} {on p.cCertVerify} {p.cFinished} {p.res} {off}"
  | ["points12", f, o] => do
    match specPoints12 (← parseFlow f) (← parseOpts o) with
    | none => some "none"
    | some p => some s!"{match p.ems with | some n => toString n | none => "-"} {p.cFinished} {p.sFinished}"
  | ["detector", f, o, i] => do
    let l := detectors (← parseFlow f) (← parseOpts o) (← i.toNat?)
    some (if l.isEmpty then "none" else ",".intercalate (l.map sideName))
  | ["run", side, f, o, htable, cfin, sfin, produce, input] => do
    let side ← parseSide side
    let ht ← parseHTable htable
    let cfin ← ofHex cfin
    let sfin ← ofHex sfin
    let tbl ← parsePairs produce
    let P : Prims :=
      { inner := fun _ _ t => t,
        outer := fun _ s _ => if s == .client then cfin else sfin,
        H := fun x => match ht.find? (·.1 == x) with
          | some (_, d) => d
          | none => [] }
    let B : Beh :=
      { produce := fun k tr => lookupBody tbl (kindKey k tr), secret := fun _ => [],
        check := fun _ _ _ => true }
    match runSide P side B (flowScript (← parseFlow f) (← parseOpts o)) (← parseInput input) with
    | .ok e => some s!"ok {hexOut (encAll e.tr)} {hexOut (encAll e.pre)}"
    | .error a => some ("abort:" ++ abortName a)
  | ["split", b] => do
    let b ← ofHex b
    match decodeAll (b.length + 1) b with
    | some ms => some (if ms.isEmpty then "-" else
        ",".intercalate (ms.map fun m => s!"{m.htype.toNat}:{hexOut m.body}"))
    | none => some "err"
  | ["trunc", ch, binders] => do
    let bs ← if binders == "-" then some [] else (binders.splitOn ",").mapM ofHex
    some (hexOut (pskTruncate (← ofHex ch) bs))
  | ["hrr", ch1, ch2, groups, selected, cookie] => do
    match hrrConsistent (← parseHello ch1) (← parseHello ch2) (← parseNatList groups)
        (← selected.toNat?) (← ofHex cookie) with
    | .ok _ => some "ok"
    | .error e => some ("err:" ++ hrrErrName e)
  | _ => none

def main : IO Unit := protoMain handle
