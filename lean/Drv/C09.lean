import TlsModel.Proto
import TlsModel.Crypto.Poly1305
import TlsModel.Crypto.Modes
import TlsModel.Crypto.Kdf
import TlsModel.Crypto.Gcm
import TlsModel.Crypto.Ccm
import TlsModel.Crypto.Aes
/-
  Driver for C09 (one request per line, bytes in hex, `-` = empty; replies: hex | none | raise:<Exc>).

    chacha key nonce counter rounds pt        Model: ChaCha(key, nonce, counter, rounds).encrypt(pt)
    chacha_blk key nonce counter rounds       Model: word_to_bytearray(chacha_block(...))
    chacha_qr a b c d                         Model: the quarter round arithmetic on four ints
    chacha_spec key nonce counter pt          Spec : RFC 8439 §2.4
    poly key msg                              Model: Poly1305(key).create_tag(msg)
    poly2 key msg1 msg2                       Model: two create_tag calls on one object (second tag)
    poly_spec key msg                         Spec : RFC 8439 §2.5
    aead_seal key nonce pt aad                Model: CHACHA20_POLY1305(key).seal(nonce, pt, aad)
    aead_open key nonce ct aad                Model: .open(nonce, ct, aad)
    aead_seal_spec / aead_open_spec           Spec : RFC 8439 §2.8

  Oracle tables (`tab`): `in:out,in:out,...` in hex or `-`; the block cipher / hash of the model is
  the table lookup (a miss yields the empty string, which no real primitive returns, so the
  reply then differs from the implementation's).
    cbc_enc_seq keylen tabE iv m1 m2 ...      Model: one Python_AES object, encrypt(m1), encrypt(m2)...  -> iv' c1 c2 ...
    cbc_dec_seq keylen tabD iv c1 c2 ...      Model: decrypt calls                                        -> iv' p1 p2 ...
    tdes_enc_seq e1;d1;e2;d2;e3;d3 iv m...    Model: Python_TripleDES.encrypt calls (six raw-DES tables)
    tdes_dec_seq e1;d1;e2;d2;e3;d3 iv c...
    ctr_seq keylen tabE iv m1 m2 ...          Model: Python_AES_CTR(key, 6, iv), encrypt calls           -> counter c1 c2 ...
    ctr_set_seq tabE counter cb m1 ...        Model: object with `counter` set and `_counter_bytes` = cb
    rc4_seq key m1 m2 ...                     Model: Python_RC4(key), encrypt calls                       -> c1 c2 ...
    cbc_spec bs tabE iv pt | cbc_dec_spec bs tabD iv ct | ctr_spec m tabE T pt | rc4_spec key m1 m2 ...   Spec

  KDFs: a hash is three tokens `bs ds tab` (block size, digest size, oracle table); `4h` = md5 sha1 sha256 sha384
  tables (sizes fixed 64/16, 64/20, 64/32, 128/48); optional values are hex or `None`.
    labels                                        the label byte constants equal the string literals
    hmac bs ds tab key m1 m2 ...                  Model: tlshmac.HMAC(key); update(m1); copy(); update(m2)...; digest()
    phash bs ds tab secret seed length            Model: P_hash
    prf t5 t1 secret label seed length            Model: PRF (TLS 1.0/1.1)
    prf12 bs ds tab secret label seed length      Model: PRF_1_2 / PRF_1_2_SHA384
    prfssl t5 t1 secret seed length               Model: PRF_SSL
    digestssl t5 t1 buffer ms label               Model: HandshakeHashes.digestSSL
    macssl bs ds tab isMd5 key msg                Model: MAC_SSL
    calckey 4h vmaj vmin secret sha384 label hh cr sr len        Model: calc_key
    exporter 4h vmaj vmin sha384 ms cr sr ems label len          Model: TLSConnection.keyingMaterialExporter
    hkdf bs ds tab prk info L                     Model: HKDF_expand (HMAC over the table hash)
    hkdf_label label ctx length                   Model: the HkdfLabel bytes
    hkdf_expand_label bs ds tab secret label ctx length | derive_secret bs ds tab secret label hh
    slice kb m k i                                Model: key block slicing  -> cmac smac ckey skey civ siv
    pending 4h vmaj vmin sha384 client ms cr sr m k i            Model: calcPendingStates -> wmac wkey wiv rmac rkey riv
    tls13_pending bs ds tab client cl sr keylen   -> wkey wiv rkey riv ;  tls13_update bs ds tab secret keylen -> next key iv
    hmac_spec | phash_spec | prf12_spec | hkdf_spec | hkdf_expand_label_spec    the specifications, same arguments

  AEADs over the table block cipher:
    gcm_seal tabE nonce pt aad | gcm_open tabE nonce ct aad          Model: AESGCM.seal / open
    gcm_seq tabE|aes:KEY (s|o nonce data aad)...                     Model: a HISTORY of seal/open calls on one AESGCM object
    gcm_mul h y                                                      Model: _mul(y) with the table built from h
    gcm_table h                                                      Model: _productTable
    gcm_gfmul x y | gcm_seal_spec ... | gcm_open_spec ...            Spec : SP 800-38D
    ccm_seal tabE taglen nonce pt aad | ccm_open tabE taglen nonce ct aad     Model: AESCCM.seal / open
    ccm_seal_spec ... | ccm_open_spec ...                            Spec : RFC 3610

  AES core (reference, validated by correspondence, model = spec not proved):
    aes_model key enc|dec block       Model: Rijndael(key, 16).encrypt / decrypt (generated tables)
    aes_spec  key enc|dec block       Spec : FIPS-197 Cipher / InvCipher
-/
open Tls Tls.Crypto

def outB : Except Err Bytes → String := errOut hexOut
def outOB : Except Err (Option Bytes) → String :=
  errOut fun | some b => hexOut b | none => "none"

def handleChaCha : List String → Option String
  | ["chacha", key, nonce, counter, rounds, pt] => do
    let key ← ofHex key; let nonce ← ofHex nonce; let pt ← ofHex pt
    let counter ← counter.toNat?; let rounds ← rounds.toNat?
    some (outB (ChaCha.Model.init key nonce counter rounds >>= fun s => ChaCha.Model.encrypt s pt))
  | ["chacha_blk", key, nonce, counter, rounds] => do
    let key ← ofHex key; let nonce ← ofHex nonce
    let counter ← counter.toNat?; let rounds ← rounds.toNat?
    some (outB (ChaCha.Model.init key nonce counter rounds >>= fun s =>
      ChaCha.Model.chachaBlock s.key s.counter s.nonce s.rounds >>= ChaCha.Model.wordToBytearray))
  | ["chacha_qr", a, b, c, d] => do
    let r := ChaCha.Model.qrArith (← a.toNat?) (← b.toNat?) (← c.toNat?) (← d.toNat?)
    some s!"{r.1} {r.2.1} {r.2.2.1} {r.2.2.2}"
  | ["chacha_spec", key, nonce, counter, pt] => do
    let key ← ofHex key; let nonce ← ofHex nonce; let pt ← ofHex pt
    let counter ← counter.toNat?
    some (hexOut (ChaCha.Spec.encrypt key counter nonce pt))
  | ["poly", key, msg] => do
    let key ← ofHex key; let msg ← ofHex msg
    some (outB ((Poly1305.Model.init key).map fun st => (Poly1305.Model.createTag st msg).2))
  | ["poly2", key, m1, m2] => do
    let key ← ofHex key; let m1 ← ofHex m1; let m2 ← ofHex m2
    some (outB ((Poly1305.Model.init key).map fun st =>
      (Poly1305.Model.createTag (Poly1305.Model.createTag st m1).1 m2).2))
  | ["poly_spec", key, msg] => do
    let key ← ofHex key; let msg ← ofHex msg
    some (hexOut (Poly1305.Spec.mac key msg))
  | ["aead_seal", key, nonce, pt, aad] => do
    let key ← ofHex key; let nonce ← ofHex nonce; let pt ← ofHex pt; let aad ← ofHex aad
    some (outB (ChaChaPoly.Model.new key >>= fun k => ChaChaPoly.Model.aseal k nonce pt aad))
  | ["aead_open", key, nonce, ct, aad] => do
    let key ← ofHex key; let nonce ← ofHex nonce; let ct ← ofHex ct; let aad ← ofHex aad
    some (outOB (ChaChaPoly.Model.new key >>= fun k => ChaChaPoly.Model.aopen k nonce ct aad))
  | ["aead_seal_spec", key, nonce, pt, aad] => do
    let key ← ofHex key; let nonce ← ofHex nonce; let pt ← ofHex pt; let aad ← ofHex aad
    some (hexOut (ChaChaPoly.Spec.aseal key nonce pt aad))
  | ["aead_open_spec", key, nonce, ct, aad] => do
    let key ← ofHex key; let nonce ← ofHex nonce; let ct ← ofHex ct; let aad ← ofHex aad
    some (match ChaChaPoly.Spec.aopen key nonce ct aad with | some b => hexOut b | none => "none")
  | _ => none

/-! oracle tables -/
def parsePair (s : String) : Option (Bytes × Bytes) :=
  match s.splitOn ":" with
  | [a, b] => do some (← ofHex a, ← ofHex b)
  | _ => none

def parseTab (s : String) : Option (List (Bytes × Bytes)) :=
  if s == "-" then some [] else (s.splitOn ",").mapM parsePair

def tabFn (t : List (Bytes × Bytes)) : Bytes → Bytes := fun x => (t.lookup x).getD []

def seqOut (r : Except Err (Bytes × List Bytes)) : String :=
  errOut (fun (p : Bytes × List Bytes) => " ".intercalate ((hexOut p.1) :: p.2.map hexOut)) r

/-- run a stateful operation over a list of messages, threading the state -/
def runSeq {σ : Type} (f : σ → Bytes → Except Err (σ × Bytes)) : σ → List Bytes → Except Err (σ × List Bytes)
  | st, [] => .ok (st, [])
  | st, m :: ms => do
    let (st, c) ← f st m
    let (st, cs) ← runSeq f st ms
    pure (st, c :: cs)

def handleModes : List String → Option String
  | "cbc_enc_seq" :: kl :: tab :: iv :: msgs => do
    let E := tabFn (← parseTab tab); let iv ← ofHex iv; let msgs ← msgs.mapM ofHex; let kl ← kl.toNat?
    some (seqOut (Modes.Model.aesInitGuard kl 2 iv.length >>= fun _ => runSeq (Modes.Model.cbcEncrypt E) iv msgs))
  | "cbc_dec_seq" :: kl :: tab :: iv :: msgs => do
    let D := tabFn (← parseTab tab); let iv ← ofHex iv; let msgs ← msgs.mapM ofHex; let kl ← kl.toNat?
    some (seqOut (Modes.Model.aesInitGuard kl 2 iv.length >>= fun _ => runSeq (Modes.Model.cbcDecrypt D) iv msgs))
  | op :: tabs :: iv :: msgs =>
    if op == "tdes_enc_seq" || op == "tdes_dec_seq" then do
      match (← (tabs.splitOn ";").mapM parseTab) with
      | [e1, d1, e2, d2, e3, d3] =>
        let k : Modes.Model.Des3 := ⟨tabFn e1, tabFn d1, tabFn e2, tabFn d2, tabFn e3, tabFn d3⟩
        let iv ← ofHex iv; let msgs ← msgs.mapM ofHex
        if op == "tdes_enc_seq" then some (seqOut (runSeq (Modes.Model.tdesEncrypt k) iv msgs))
        else some (seqOut (runSeq (Modes.Model.tdesDecrypt k) iv msgs))
      | _ => none
    else if op == "ctr_seq" then
      match msgs with
      | iv' :: msgs => do
        let kl ← tabs.toNat?; let E := tabFn (← parseTab iv); let iv ← ofHex iv'; let msgs ← msgs.mapM ofHex
        some (seqOut ((Modes.Model.aesInitGuard kl 6 iv.length >>= fun _ => Modes.Model.ctrInit iv >>= fun c =>
          runSeq (Modes.Model.ctrEncrypt E) c msgs).map fun r => (r.1.counter, r.2)))
      | _ => none
    else if op == "ctr_set_seq" then
      match msgs with
      | cb :: msgs => do
        let E := tabFn (← parseTab tabs); let ctr ← ofHex iv; let cb ← cb.toNat?; let msgs ← msgs.mapM ofHex
        some (seqOut ((runSeq (Modes.Model.ctrEncrypt E) ⟨ctr, cb⟩ msgs).map fun r => (r.1.counter, r.2)))
      | _ => none
    else if op == "cbc_spec" || op == "cbc_dec_spec" then
      match msgs with
      | [iv', pt] => do
        let bs ← tabs.toNat?; let F := tabFn (← parseTab iv); let iv' ← ofHex iv'; let pt ← ofHex pt
        if bs == 0 then none
        else if op == "cbc_spec" then some (hexOut (Modes.Spec.cbcEncrypt bs F iv' pt))
        else some (hexOut (Modes.Spec.cbcDecrypt bs F iv' pt))
      | _ => none
    else if op == "ctr_spec" then
      match msgs with
      | [t, pt] => do
        let m ← tabs.toNat?; let E := tabFn (← parseTab iv); let t ← ofHex t; let pt ← ofHex pt
        some (hexOut (Modes.Spec.ctrEncrypt E (Modes.Spec.incM m) t pt))
      | _ => none
    else none
  | _ => none

def handleRc4 : List String → Option String
  | "rc4_seq" :: key :: msgs => do
    let key ← ofHex key; let msgs ← msgs.mapM ofHex
    some (errOut (fun (l : List Bytes) => if l.isEmpty then "-" else " ".intercalate (l.map hexOut))
      (Modes.Model.rc4Init key >>= fun st =>
        (runSeq (fun st m => .ok (Modes.Model.rc4Encrypt st m)) st msgs).map (·.2)))
  | "rc4_spec" :: key :: msgs => do
    let key ← ofHex key; let msgs ← msgs.mapM ofHex
    if h : 0 < key.length then
      let r := msgs.foldl (fun (acc : Modes.Spec.Rc4 × List Bytes) m =>
        let r := Modes.Spec.rc4Encrypt acc.1 m; (r.1, acc.2 ++ [r.2])) (Modes.Spec.ksa key h, [])
      some (if r.2.isEmpty then "-" else " ".intercalate (r.2.map hexOut))
    else none
  | _ => none

/-! KDF ops -/
open Kdf in
def mkHash (bs ds tab : String) : Option Kdf.Hash := do
  some { H := tabFn (← parseTab tab), blockSize := ← bs.toNat?, digestSize := ← ds.toNat? }

open Kdf in
def mkHashes (t5 t1 t256 t384 : String) : Option Kdf.Model.Hashes := do
  some ⟨← mkHash "64" "16" t5, ← mkHash "64" "20" t1, ← mkHash "64" "32" t256, ← mkHash "128" "48" t384⟩

def optHex (s : String) : Option (Option Bytes) :=
  if s == "None" then some none else (ofHex s).map some

def optNat (s : String) : Option (Option Nat) :=
  if s == "None" then some none else s.toNat?.map some

def kmOut (k : Kdf.Model.KeyMaterial) : String := s!"{hexOut k.macKey} {hexOut k.key} {hexOut k.iv}"

open Kdf in
def handleKdf : List String → Option String
  | ["labels"] => some (boolOut labelsOk)
  | "hmac" :: bs :: ds :: tab :: key :: msgs => do
    let h ← mkHash bs ds tab; let key ← ofHex key; let msgs ← msgs.mapM ofHex
    some (hexOut (Model.hmacDigest h (msgs.foldl (fun o m => Model.hmacUpdate (Model.hmacCopy o) m) (Model.hmacNew h key none))))
  | ["hmac_spec", bs, ds, tab, key, msg] => do
    some (hexOut (Spec.hmac (← mkHash bs ds tab) (← ofHex key) (← ofHex msg)))
  | ["phash", bs, ds, tab, secret, seed, length] => do
    some (outB (Model.pHash (← mkHash bs ds tab) (← ofHex secret) (← ofHex seed) (← length.toNat?)))
  | ["phash_spec", bs, ds, tab, secret, seed, length] => do
    let h ← mkHash bs ds tab
    some (hexOut (Spec.pHash (Spec.hmac h) h.digestSize (← ofHex secret) (← ofHex seed) (← length.toNat?)))
  | ["prf", t5, t1, secret, label, seed, length] => do
    some (outB (Model.prf (← mkHash "64" "16" t5) (← mkHash "64" "20" t1) (← ofHex secret) (← ofHex label)
      (← ofHex seed) (← length.toNat?)))
  | ["prf12", bs, ds, tab, secret, label, seed, length] => do
    some (outB (Model.prf12 (← mkHash bs ds tab) (← ofHex secret) (← ofHex label) (← ofHex seed) (← length.toNat?)))
  | ["prf12_spec", bs, ds, tab, secret, label, seed, length] => do
    some (hexOut (Spec.prf12 (← mkHash bs ds tab) (← ofHex secret) (← ofHex label) (← ofHex seed) (← length.toNat?)))
  | ["prfssl", t5, t1, secret, seed, length] => do
    some (hexOut (Model.prfSsl (← mkHash "64" "16" t5) (← mkHash "64" "20" t1) (← ofHex secret) (← ofHex seed)
      (← length.toNat?)))
  | ["digestssl", t5, t1, buffer, ms, label] => do
    let hs ← mkHashes t5 t1 "-" "-"
    some (hexOut (Model.digestSSL hs (← ofHex buffer) (← ofHex ms) (← ofHex label)))
  | ["macssl", bs, ds, tab, isMd5, key, msg] => do
    some (hexOut (Model.macSsl (← mkHash bs ds tab) (isMd5 == "1") (← ofHex key) (← ofHex msg)))
  | ["calckey", t5, t1, t256, t384, vmaj, vmin, secret, sha384, label, hh, cr, sr, len] => do
    let hs ← mkHashes t5 t1 t256 t384
    some (outB (Model.calcKey hs (← vmaj.toNat?, ← vmin.toNat?) (← ofHex secret) (sha384 == "1") (← ofHex label)
      (← optHex hh) (← optHex cr) (← optHex sr) (← optNat len)))
  | ["exporter", t5, t1, t256, t384, vmaj, vmin, sha384, ms, cr, sr, ems, label, len] => do
    let hs ← mkHashes t5 t1 t256 t384
    some (outB (Model.keyingMaterialExporter hs (Spec.hmac hs.sha256) (Spec.hmac hs.sha384) (← vmaj.toNat?, ← vmin.toNat?)
      (sha384 == "1") (← ofHex ms) (← ofHex cr) (← ofHex sr) (← ofHex ems) (← ofHex label) (← len.toNat?)))
  | ["hkdf", bs, ds, tab, prk, info, l] => do
    let h ← mkHash bs ds tab
    some (outB (Model.hkdfExpand (Spec.hmac h) h.digestSize (← ofHex prk) (← ofHex info) (← l.toNat?)))
  | ["hkdf_spec", bs, ds, tab, prk, info, l] => do
    let h ← mkHash bs ds tab
    some (hexOut (Spec.hkdfExpand (Spec.hmac h) h.digestSize (← ofHex prk) (← ofHex info) (← l.toNat?)))
  | ["hkdf_label", label, ctx, length] => do
    some (outB (Model.hkdfLabel (← ofHex label) (← ofHex ctx) (← length.toNat?)))
  | ["hkdf_expand_label", bs, ds, tab, secret, label, ctx, length] => do
    let h ← mkHash bs ds tab
    some (outB (Model.hkdfExpandLabel (Spec.hmac h) h.digestSize (← ofHex secret) (← ofHex label) (← ofHex ctx)
      (← length.toNat?)))
  | ["hkdf_expand_label_spec", bs, ds, tab, secret, label, ctx, length] => do
    let h ← mkHash bs ds tab
    some (hexOut (Spec.hkdfExpandLabel (Spec.hmac h) h.digestSize (← ofHex secret) (← ofHex label) (← ofHex ctx)
      (← length.toNat?)))
  | ["derive_secret", bs, ds, tab, secret, label, hh] => do
    let h ← mkHash bs ds tab
    some (outB (Model.deriveSecret (Spec.hmac h) h (← ofHex secret) (← ofHex label) (← optHex hh)))
  | ["slice", kb, m, k, i] => do
    some (errOut (fun (p : Model.KeyMaterial × Model.KeyMaterial) =>
        s!"{hexOut p.1.macKey} {hexOut p.2.macKey} {hexOut p.1.key} {hexOut p.2.key} {hexOut p.1.iv} {hexOut p.2.iv}")
      (Model.sliceKeyBlock (← ofHex kb) (← m.toNat?) (← k.toNat?) (← i.toNat?)))
  | ["pending", t5, t1, t256, t384, vmaj, vmin, sha384, client, ms, cr, sr, m, k, i] => do
    let hs ← mkHashes t5 t1 t256 t384
    some (errOut (fun (p : Model.KeyMaterial × Model.KeyMaterial) => s!"{kmOut p.1} {kmOut p.2}")
      (Model.calcPendingStates hs (← vmaj.toNat?, ← vmin.toNat?) (sha384 == "1") (client == "1") (← ofHex ms)
        (← ofHex cr) (← ofHex sr) (← m.toNat?) (← k.toNat?) (← i.toNat?)))
  | ["tls13_pending", bs, ds, tab, client, cl, sr, keylen] => do
    let h ← mkHash bs ds tab
    some (errOut (fun (p : (Bytes × Bytes) × (Bytes × Bytes)) =>
        s!"{hexOut p.1.1} {hexOut p.1.2} {hexOut p.2.1} {hexOut p.2.2}")
      (Model.calcTls13PendingState (Spec.hmac h) h.digestSize (client == "1") (← ofHex cl) (← ofHex sr) (← keylen.toNat?)))
  | ["tls13_update", bs, ds, tab, secret, keylen] => do
    let h ← mkHash bs ds tab
    some (errOut (fun (p : Bytes × Bytes × Bytes) => s!"{hexOut p.1} {hexOut p.2.1} {hexOut p.2.2}")
      (Model.calcTls13KeyUpdate (Spec.hmac h) h.digestSize (← ofHex secret) (← keylen.toNat?)))
  | _ => none

def handleAead : List String → Option String
  | ["gcm_seal", tab, nonce, pt, aad] => do
    let E := tabFn (← parseTab tab); let nonce ← ofHex nonce; let pt ← ofHex pt; let aad ← ofHex aad
    some (outB (Gcm.Model.new E >>= fun o => Gcm.Model.aseal E o nonce pt aad))
  | ["gcm_open", tab, nonce, ct, aad] => do
    let E := tabFn (← parseTab tab); let nonce ← ofHex nonce; let ct ← ofHex ct; let aad ← ofHex aad
    some (outOB (Gcm.Model.new E >>= fun o => Gcm.Model.aopen E o nonce ct aad))
  | ["gcm_seal_spec", tab, nonce, pt, aad] => do
    some (hexOut (Gcm.Spec.aseal (tabFn (← parseTab tab)) (← ofHex nonce) (← ofHex pt) (← ofHex aad)))
  | ["gcm_open_spec", tab, nonce, ct, aad] => do
    some (match Gcm.Spec.aopen (tabFn (← parseTab tab)) (← ofHex nonce) (← ofHex ct) (← ofHex aad) with
      | some b => hexOut b | none => "none")
  | "gcm_seq" :: ciph :: rest => do
    -- history on ONE object: calls are groups `s|o nonce data aad`; `ciph` = table or `aes:<keyhex>`
    let E : Bytes → Bytes ←
      if ciph.startsWith "aes:" then do
        let key ← ofHex (ciph.drop 4).toString
        match Aes.Model.init key with
        | .ok k => some (fun b => match Aes.Model.encrypt k b with | .ok c => c | .error _ => [])
        | .error _ => none
      else (parseTab ciph).map tabFn
    let rec groups : List String → Option (List Gcm.Model.Call)
      | [] => some []
      | op :: n :: d :: a :: more => do
        some ({ isSeal := op == "s", nonce := ← ofHex n, data := ← ofHex d, aad := ← ofHex a } :: (← groups more))
      | _ => none
    let cs ← groups rest
    some (errOut (fun (r : Gcm.Model.ObjS × List (Option Bytes)) =>
        if r.2.isEmpty then "-" else " ".intercalate (r.2.map fun | some b => hexOut b | none => "none"))
      (Gcm.Model.newS E >>= fun o => Gcm.Model.runCalls E o cs))
  | ["gcm_mul", h, y] => do
    let h ← h.toNat?; let y ← y.toNat?
    some (errOut toString (Gcm.Model.productTable h >>= fun t => Gcm.Model.mul t y))
  | ["gcm_table", h] => do
    some (errOut (fun (t : List Nat) => " ".intercalate (t.map toString)) (Gcm.Model.productTable (← h.toNat?)))
  | ["gcm_gfmul", x, y] => do some (toString (Gcm.Spec.gfmul (← x.toNat?) (← y.toNat?)))
  | ["aes_model", key, dir, blk] => do
    let key ← ofHex key; let blk ← ofHex blk
    some (outB (Aes.Model.init key >>= fun k => if dir == "enc" then Aes.Model.encrypt k blk else Aes.Model.decrypt k blk))
  | ["aes_spec", key, dir, blk] => do
    let key ← ofHex key; let blk ← ofHex blk
    some (hexOut (if dir == "enc" then Aes.Spec.cipher key blk else Aes.Spec.invCipher key blk))
  | ["ccm_seal", tab, tl, nonce, pt, aad] => do
    some (outB (Ccm.Model.aseal (tabFn (← parseTab tab)) (← tl.toNat?) (← ofHex nonce) (← ofHex pt) (← ofHex aad)))
  | ["ccm_open", tab, tl, nonce, ct, aad] => do
    some (outOB (Ccm.Model.aopen (tabFn (← parseTab tab)) (← tl.toNat?) (← ofHex nonce) (← ofHex ct) (← ofHex aad)))
  | ["ccm_seal_spec", tab, tl, nonce, pt, aad] => do
    some (hexOut (Ccm.Spec.aseal (tabFn (← parseTab tab)) (← tl.toNat?) (← ofHex nonce) (← ofHex pt) (← ofHex aad)))
  | ["ccm_open_spec", tab, tl, nonce, ct, aad] => do
    some (match Ccm.Spec.aopen (tabFn (← parseTab tab)) (← tl.toNat?) (← ofHex nonce) (← ofHex ct) (← ofHex aad) with
      | some b => hexOut b | none => "none")
  | _ => none

def kdfOps : List String :=
  ["labels", "hmac", "hmac_spec", "phash", "phash_spec", "prf", "prf12", "prf12_spec", "prfssl", "digestssl", "macssl",
   "calckey", "exporter", "hkdf", "hkdf_spec", "hkdf_label", "hkdf_expand_label", "hkdf_expand_label_spec", "derive_secret",
   "slice", "pending", "tls13_pending", "tls13_update"]

def handle (toks : List String) : Option String :=
  match toks with
  | [] => none
  | op :: _ =>
    if kdfOps.contains op then handleKdf toks
    else if op.startsWith "gcm" || op.startsWith "ccm" || op.startsWith "aes_" then handleAead toks
    else if op.startsWith "rc4" then handleRc4 toks
    else if op.startsWith "cbc" || op.startsWith "tdes" || op.startsWith "ctr" then handleModes toks
    else handleChaCha toks

def main : IO Unit := protoMain handle
