import TlsModel.Proto
import TlsModel.Cache
import TlsModel.Db
/-
  Driver for C18 (stateful): one SessionCache model object and the specification log side by side.
    new maxEntries maxAge      -> ok                      (fresh object; maxAge may be negative)
    set id t sess              -> <impl> <spec>           done | internal:<err>
    get id t                   -> <impl> <spec>           sess:<n> | KeyError | internal:<err>
    inval sess                 -> done done
    size                       -> dictLen countLen liveLen firstIndex lastIndex
    dict                       -> id:sess,... (sorted by id) or -
  ids, sessions: naturals; times: integers.

  Verifier database (BaseDB model and its specification side by side); names >= 1000 are the
  reserved ones ("--Reserved--..."), 1000 is the type record; a stored value v was made for user
  v % 10 with password v / 10 (`check k p` is true iff v = k + 10 p):
    dbnew mem|disk             -> ok
    db create | get k | set k v | del k | in k | keys | check k p   -> <impl> <spec>
        done | val:<v> | bool:true|false | names:<k,k,..>|names:- | KeyError | AssertionError
-/
open Tls Tls.Cache

def dbEnv : Tls.Db.Env :=
  { resv := fun n => n ≥ 1000, typeKey := 1000, typeVal := 0,
    checkItem := fun v k p => v == k + 10 * p }

structure DState where
  cap : Nat
  maxAge : Int
  impl : ImplState
  spec : SpecState
  db : Tls.Db.DB := Tls.Db.DB.new false
  dbSpec : Tls.Db.Spec := Tls.Db.Spec.new false

def DState.fresh (cap : Nat) (maxAge : Int) : DState :=
  { cap := cap, maxAge := maxAge,
    impl := { cache := Cache.new cap maxAge, inval := [] },
    spec := { log := [], inval := [] } }

def errName : Err → String
  | .keyError => "keyError"
  | .removeKeyError => "removeKeyError"
  | .indexError => "indexError"
  | .noneSlot => "noneSlot"
  | .zeroDivision => "zeroDivision"
  | .fuel => "fuel"

def outName : Out → String
  | .done => "done"
  | .sess s => s!"sess:{s}"
  | .keyError => "KeyError"
  | .internal e => "internal:" ++ errName e

def doOp (st : DState) (op : Op) : DState × Option String :=
  let (i, oi) := st.impl.step op
  let (s, os) := st.spec.step st.cap st.maxAge op
  ({ st with impl := i, spec := s }, some (outName oi ++ " " ++ outName os))

def insertSorted (p : Nat × Nat) : List (Nat × Nat) → List (Nat × Nat)
  | [] => [p]
  | q :: r => if p.1 ≤ q.1 then p :: q :: r else q :: insertSorted p r

def insertNat (p : Nat) : List Nat → List Nat
  | [] => [p]
  | q :: r => if p ≤ q then p :: q :: r else q :: insertNat p r

def dbOutName : Tls.Db.Out → String
  | .done => "done"
  | .val v => s!"val:{v}"
  | .bool b => "bool:" ++ boolOut b
  | .names l =>
    let l := l.foldr insertNat []
    "names:" ++ (if l.isEmpty then "-" else ",".intercalate (l.map toString))
  | .keyError => "KeyError"
  | .assertionError => "AssertionError"

def doDb (st : DState) (op : Tls.Db.Op) : DState × Option String :=
  let r := st.db.step dbEnv op
  let q := st.dbSpec.step dbEnv op
  ({ st with db := r.1, dbSpec := q.1 }, some (dbOutName r.2 ++ " " ++ dbOutName q.2))

def handleDb (st : DState) : List String → DState × Option String
  | ["create"] => doDb st .create
  | ["keys"] => doDb st .keys
  | ["get", k] => match k.toNat? with | some k => doDb st (.get k) | none => (st, none)
  | ["del", k] => match k.toNat? with | some k => doDb st (.del k) | none => (st, none)
  | ["in", k] => match k.toNat? with | some k => doDb st (.contains k) | none => (st, none)
  | ["set", k, v] => match k.toNat?, v.toNat? with
    | some k, some v => doDb st (.set k v) | _, _ => (st, none)
  | ["check", k, p] => match k.toNat?, p.toNat? with
    | some k, some p => doDb st (.check k p) | _, _ => (st, none)
  | _ => (st, none)

def handle (st : DState) : List String → DState × Option String
  | ["dbnew", "mem"] => ({ st with db := Tls.Db.DB.new false, dbSpec := Tls.Db.Spec.new false }, some "ok")
  | ["dbnew", "disk"] => ({ st with db := Tls.Db.DB.new true, dbSpec := Tls.Db.Spec.new true }, some "ok")
  | "db" :: rest => handleDb st rest
  | ["new", cap, age] =>
    match cap.toNat?, age.toInt? with
    | some cap, some age => (DState.fresh cap age, some "ok")
    | _, _ => (st, none)
  | ["set", id, t, s] =>
    match id.toNat?, t.toInt?, s.toNat? with
    | some id, some t, some s => doOp st (.set id t s)
    | _, _, _ => (st, none)
  | ["get", id, t] =>
    match id.toNat?, t.toInt? with
    | some id, some t => doOp st (.get id t)
    | _, _ => (st, none)
  | ["inval", s] =>
    match s.toNat? with
    | some s => doOp st (.inval s)
    | _ => (st, none)
  | ["size"] =>
    let c := st.impl.cache
    (st, some s!"{c.dict.length} {c.count.length} {c.liveLen} {c.first} {c.last}")
  | ["dict"] =>
    let l := st.impl.cache.dict.foldr insertSorted []
    (st, some (if l.isEmpty then "-" else ",".intercalate (l.map fun (k, v) => s!"{k}:{v}")))
  | _ => (st, none)

def main : IO Unit := Tls.protoMainS handle (DState.fresh 1 0)
