import TlsModel.Proto
import TlsModel.Cache
/-
  Driver for C18 (stateful): one SessionCache model object and the specification log side by side.
    new maxEntries maxAge      -> ok                      (fresh object; maxAge may be negative)
    set id t sess              -> <impl> <spec>           done | internal:<err>
    get id t                   -> <impl> <spec>           sess:<n> | KeyError | internal:<err>
    inval sess                 -> done done
    size                       -> dictLen countLen liveLen firstIndex lastIndex
    dict                       -> id:sess,... (sorted by id) or -
  ids, sessions: naturals; times: integers.
-/
open Tls Tls.Cache

structure DState where
  cap : Nat
  maxAge : Int
  impl : ImplState
  spec : SpecState

def DState.fresh (cap : Nat) (maxAge : Int) : DState :=
  { cap := cap, maxAge := maxAge,
    impl := { cache := Cache.new cap maxAge, inval := [] },
    spec := { log := [], inval := [] } }

def errName : Err → String
  | .keyError => "keyError"
  | .removeKeyError => "removeKeyError"
  | .indexError => "indexError"
  | .noneSlot => "noneSlot"
  | .zeroDivision => "zeroDivision"
  | .fuel => "fuel"

def outName : Out → String
  | .done => "done"
  | .sess s => s!"sess:{s}"
  | .keyError => "KeyError"
  | .internal e => "internal:" ++ errName e

def doOp (st : DState) (op : Op) : DState × Option String :=
  let (i, oi) := st.impl.step op
  let (s, os) := st.spec.step st.cap st.maxAge op
  ({ st with impl := i, spec := s }, some (outName oi ++ " " ++ outName os))

def insertSorted (p : Nat × Nat) : List (Nat × Nat) → List (Nat × Nat)
  | [] => [p]
  | q :: r => if p.1 ≤ q.1 then p :: q :: r else q :: insertSorted p r

def handle (st : DState) : List String → DState × Option String
  | ["new", cap, age] =>
    match cap.toNat?, age.toInt? with
    | some cap, some age => (DState.fresh cap age, some "ok")
    | _, _ => (st, none)
  | ["set", id, t, s] =>
    match id.toNat?, t.toInt?, s.toNat? with
    | some id, some t, some s => doOp st (.set id t s)
    | _, _, _ => (st, none)
  | ["get", id, t] =>
    match id.toNat?, t.toInt? with
    | some id, some t => doOp st (.get id t)
    | _, _ => (st, none)
  | ["inval", s] =>
    match s.toNat? with
    | some s => doOp st (.inval s)
    | _ => (st, none)
  | ["size"] =>
    let c := st.impl.cache
    (st, some s!"{c.dict.length} {c.count.length} {c.liveLen} {c.first} {c.last}")
  | ["dict"] =>
    let l := st.impl.cache.dict.foldr insertSorted []
    (st, some (if l.isEmpty then "-" else ",".intercalate (l.map fun (k, v) => s!"{k}:{v}")))
  | _ => (st, none)

def main : IO Unit := Tls.protoMainS handle (DState.fresh 1 0)
