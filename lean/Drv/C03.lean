import TlsModel.Proto
import TlsModel.Negotiate
import TlsModel.Compat
/-
  Driver for C03.
    neg <clientSettings> <serverSettings> <clientCfg> <serverCfg>   -> outcome line
    offer <clientSettings> <clientCfg>                              -> the modelled ClientHello
    compat <clientSettings> <serverSettings> <clientCfg> <serverCfg> -> wf / plainCert / clientHelloSane / commonVersion / compatible
    views <clientSettings> <serverSettings> <clientCfg> <serverCfg> -> clientView / serverView fields
    filter <settings> <minor> <suite,suite,...>                     -> _filterSuites output
    sigs <settings> <privBits|-> <cred|-> <minor>                   -> _sigHashesToList output
  Settings: 24 fields separated by ';', lists separated by ',', '-' = empty list / empty string:
    minV;maxV;versions;cipherNames;macNames;keyExchangeNames;eccCurves;dhGroups;keyShares;defaultCurve;
    rsaSigHashes;rsaSchemes;ecdsaSigHashes;dsaSigHashes;more_sig_schemes;minKeySize;maxKeySize;
    useEtM;useEMS;requireEMS;record_size_limit(0=None);dhParamBits(0=None);psk(id:hash,..);psk_modes
  cred: certAlg:bits:curve   clientCfg: flavour;cred;alpn;serverName
  serverCfg: hasDB;srpBits;cred;anon;reqCert;alpn;sni
  Outcome:  ok v=.. suite=.. group=.. dh=.. sig=.. etm=.. ems=.. alpn=.. sni=.. cs=.. cr=.. ss=.. sr=..
               scert=.. ccert=.. csig=.. psk=.. hrr=..
            alert <side> <description>     abort <side> <exception>
-/
open Tls Tls.Neg

def lst (s : String) : List String := if s == "-" then [] else s.splitOn ","
def str (s : String) : String := if s == "-" then "" else s
def natList (s : String) : Option (List Nat) := (lst s).mapM (·.toNat?)
def bool? (s : String) : Option Bool := if s == "1" then some true else if s == "0" then some false else none

def parsePsk (s : String) : Option (List (String × String)) :=
  (lst s).mapM fun e => match e.splitOn ":" with
    | [i, h] => some (str i, str h)
    | _ => none

def parseSettings (s : String) : Option Settings :=
  match s.splitOn ";" with
  | [minV, maxV, vers, ciph, mac, kex, curves, dhg, shares, defc, rsah, rsas, ech, dsah, more, mink, maxk,
     etm, ems, rems, rsl, dhb, psk, pskm] => do
    let st : Settings := {
      minVersion := ← minV.toNat?, maxVersion := ← maxV.toNat?, versions := ← natList vers
      cipherNames := lst ciph, macNames := lst mac, keyExchangeNames := lst kex
      eccCurves := lst curves, dhGroups := lst dhg, keyShares := lst shares, defaultCurve := str defc
      rsaSigHashes := lst rsah, rsaSchemes := lst rsas, ecdsaSigHashes := lst ech, dsaSigHashes := lst dsah
      moreSigSchemes := lst more, minKeySize := ← mink.toNat?, maxKeySize := ← maxk.toNat?
      useEtM := ← bool? etm, useEMS := ← bool? ems, requireEMS := ← bool? rems
      recordSizeLimit := ← rsl.toNat?, dhParamBits := ← dhb.toNat?
      pskConfigs := ← parsePsk psk, pskModes := lst pskm }
    if st.namesKnown then some st else none
  | _ => none

def parseCred (s : String) : Option (Option Cred) :=
  if s == "-" then some none else
  match s.splitOn ":" with
  | [a, b, c] => do some (some { certAlg := a, keyBits := ← b.toNat?, curve := str c })
  | _ => none

def parseClientCfg (s : String) : Option ClientCfg :=
  match s.splitOn ";" with
  | [fl, cred, alpn, sni] => do
    let f ← (match fl with | "cert" => some ClientFlavour.cert | "srp" => some .srp | "anon" => some .anon | _ => none)
    some { flavour := f, cred := ← parseCred cred, alpn := lst alpn, serverName := str sni }
  | _ => none

def parseServerCfg (s : String) : Option ServerCfg :=
  match s.splitOn ";" with
  | [db, bits, cred, anon, req, alpn, sni] => do
    some { hasDB := ← bool? db, srpBits := ← bits.toNat?, cred := ← parseCred cred, anon := ← bool? anon
           reqCert := ← bool? req, alpn := lst alpn, sni := str sni }
  | _ => none

def b01 (b : Bool) : String := if b then "1" else "0"
def dash (s : String) : String := if s == "" then "-" else s
def natsOut (l : List Nat) : String := if l.isEmpty then "-" else ",".intercalate (l.map toString)
def credOut : Option Cred → String
  | none => "-"
  | some c => c.certAlg ++ ":" ++ toString c.keyBits ++ ":" ++ dash c.curve
def sideOut : Side → String
  | .client => "client"
  | .server => "server"

def outcomeOut : Outcome Params → String
  | .alert s d => "alert " ++ sideOut s ++ " " ++ d
  | .abort s d => "abort " ++ sideOut s ++ " " ++ d
  | .ok p =>
    "ok v=" ++ toString p.version ++ " suite=" ++ toString p.suite ++ " group=" ++ toString p.group ++
    " dh=" ++ toString p.dhBits ++ " sig=" ++ toString p.sigScheme ++ " etm=" ++ b01 p.etm ++
    " ems=" ++ b01 p.ems ++ " alpn=" ++ dash p.alpn ++ " sni=" ++ dash p.serverName ++
    " cs=" ++ toString p.cSend ++ " cr=" ++ toString p.cRecv ++ " ss=" ++ toString p.sSend ++
    " sr=" ++ toString p.sRecv ++ " scert=" ++ credOut p.serverCert ++ " ccert=" ++ credOut p.clientCert ++
    " csig=" ++ toString p.clientSig ++ " psk=" ++ (match p.psk with | some i => toString i | none => "-") ++
    " hrr=" ++ b01 p.hrr

def offerOut (o : Offer) : String :=
  "cv=" ++ toString o.clientVersion ++ " suites=" ++ natsOut o.suites ++ " etm=" ++ b01 o.etm ++
  " ems=" ++ b01 o.ems ++ " sigalgs=" ++ (match o.sigAlgs with | some l => natsOut l | none => "none") ++
  " versions=" ++ (match o.supportedVersions with | some l => natsOut l | none => "none") ++
  " shares=" ++ natsOut o.keyShares ++
  " groups=" ++ (match o.groups with | some l => natsOut l | none => "none") ++
  " rsl=" ++ toString o.recordSizeLimit ++ " psk=" ++ toString o.pskIds.length

def handle : List String → Option String
  | ["neg", cs, ss, cc, sc] => do
    let cs ← parseSettings cs
    let ss ← parseSettings ss
    let cc ← parseClientCfg cc
    let sc ← parseServerCfg sc
    let cs := effectiveClient cs cc.flavour
    some (outcomeOut (negotiate cs ss cc sc))
  | ["views", cs, ss, cc, sc] => do
    let cs ← parseSettings cs
    let ss ← parseSettings ss
    let cc ← parseClientCfg cc
    let sc ← parseServerCfg sc
    let cs := effectiveClient cs cc.flavour
    let o := clientOffer cs cc
    match serverSelect ss sc o with
    | .ok sel =>
      let K : KeySched := { master := fun _ _ _ _ _ _ _ => [], derive := fun _ _ _ _ => [], exportKm := fun _ _ _ _ _ _ _ => [] }
      let t : Transcript := { offer := o, selection := sel, clientRandom := [], serverRandom := [], messages := []
                              serverChain := if sc.cred.isSome then [[1]] else []
                              clientChain := if cc.cred.isSome then [[2]] else [] }
      let c := clientView K cs t []
      let s := serverView K ss t []
      let one (n : String) (v : SessionView) : String :=
        n ++ ".v=" ++ toString v.version ++ " " ++ n ++ ".suite=" ++ toString v.suite ++ " " ++
        n ++ ".etm=" ++ b01 v.etm ++ " " ++ n ++ ".ems=" ++ b01 v.ems ++ " " ++ n ++ ".alpn=" ++ dash v.alpn ++ " " ++
        n ++ ".sni=" ++ dash v.serverName ++ " " ++ n ++ ".send=" ++ toString v.sendLimit ++ " " ++
        n ++ ".recv=" ++ toString v.recvLimit ++ " " ++ n ++ ".schain=" ++ b01 (!v.serverChain.isEmpty) ++ " " ++
        n ++ ".cchain=" ++ b01 (!v.clientChain.isEmpty)
      some (one "c" c ++ " " ++ one "s" s)
    | _ => some "no-selection"
  | ["compat", cs, ss, cc, sc] => do
    let cs ← parseSettings cs
    let ss ← parseSettings ss
    let cc ← parseClientCfg cc
    let sc ← parseServerCfg sc
    let cs := effectiveClient cs cc.flavour
    some ("wfc=" ++ b01 cs.wf ++ " wfs=" ++ b01 ss.wf ++ " plain=" ++ b01 (plainCert cs cc sc) ++
          " sane=" ++ b01 (clientHelloSane cs cc) ++
          " v=" ++ (match commonVersion cs ss with | some v => toString v | none => "-") ++
          " compat=" ++ b01 (compatible cs ss cc sc))
  | ["offer", cs, cc] => do
    let cs ← parseSettings cs
    let cc ← parseClientCfg cc
    let cs := effectiveClient cs cc.flavour
    some (offerOut (clientOffer cs cc))
  | ["filter", st, v, suites] => do
    let st ← parseSettings st
    some (natsOut (filterSuites (← natList suites) st (← v.toNat?)))
  | ["sigs", st, priv, cred, v] => do
    let st ← parseSettings st
    let pb ← (if priv == "-" then some none else priv.toNat?.map some)
    some (natsOut (sigHashesToList st pb (← parseCred cred) (← v.toNat?)))
  | _ => none

def main : IO Unit := protoMain handle
