import TlsModel.Proto
import TlsModel.Resume
import TlsModel.Ticket
/-
  Driver for C13 (stateful): one `World` (client session objects, server session objects, caches,
  sealed tickets, connection log) stepped by the harness' history.
    reset                              -> ok
    sha384 s1,s2,...                   -> ok          (CipherSuite.sha384PrfSuites)
    tick c|s N                         -> ok
    srv none | srv CAP AGE             -> ok <index>
    fill SRV id,id,...                 -> ok
    tamper J hex                       -> ok
    close K cf sf                      -> ok          (client / server ran _shutdown(False))
    sess c|s I                         -> resumable flag etc. of a session object
    hs k=v ...                         -> observation line (see `obsLine`)
  Lists are comma separated; bytes are hex, `-` = empty; `none` = absent.
-/
open Tls Tls.Resume

structure DState where
  w : World
  sha384 : List Nat

def kv (toks : List String) (k : String) : Option String :=
  toks.findSome? fun t =>
    match t.splitOn "=" with
    | [a, b] => if a == k then some b else none
    | _ => none

def natList (s : String) : Option (List Nat) :=
  if s == "-" then some [] else (s.splitOn ",").mapM (·.toNat?)

def hexList (s : String) : Option (List Bytes) :=
  if s == "-" then some [] else (s.splitOn ",").mapM ofHex

def boolOf (s : String) : Option Bool :=
  if s == "1" then some true else if s == "0" then some false else none

def verOf (s : String) : Option Ver :=
  match s.splitOn "." with
  | [a, b] => do some ((← a.toNat?), (← b.toNat?))
  | _ => none

def optNat (s : String) : Option (Option Nat) :=
  if s == "-" then some none else s.toNat?.map some

def hashOf (s : String) : Option Hash :=
  if s == "256" then some .sha256 else if s == "384" then some .sha384 else none

/-- `identhex:pskid:256;identhex:pskid:384` -/
def pskCfgs (s : String) : Option (List PskConfig) :=
  if s == "-" then some [] else
  (s.splitOn ";").mapM fun e =>
    match e.splitOn ":" with
    | [i, p, h] => do some { identity := (← ofHex i), psk := (← p.toNat?), hash := (← hashOf h) }
    | _ => none

def editOf (s : String) : Option Edit :=
  match s.splitOn ":" with
  | ["dropems"] => some .dropEms
  | ["addems"] => some .addEms
  | ["dropetm"] => some .dropEtm
  | ["addetm"] => some .addEtm
  | ["setsni", b] => (ofHex b).map .setSni
  | ["setsuites", l] => (natList l).map .setSuites
  | ["setsid", b] => (ofHex b).map .setSid
  | ["badbinder", i] => i.toNat?.map .badBinder
  | ["setticket", b] => if b == "none" then some (.setTicket none) else (ofHex b).map (fun x => .setTicket (some x))
  | _ => none

def editsOf (s : String) : Option (List Edit) :=
  if s == "-" then some [] else (s.splitOn ";").mapM editOf

def parseHs (d : DState) (t : List String) : Option HsArgs := do
  let srv ← (← kv t "srv").toNat?
  let hasCache := match d.w.caches[srv]? with | some (some _) => true | _ => false
  let cs : CliSettings := {
    maxVersion := (← verOf (← kv t "cmax")), suites := (← natList (← kv t "csuites")),
    ems := (← boolOf (← kv t "cems")), etm := (← boolOf (← kv t "cetm")),
    pskConfigs := (← pskCfgs (← kv t "cpsk")), pskModes := (← natList (← kv t "cmodes")) }
  let st : SrvSettings := {
    ticketKeys := (← natList (← kv t "keys")), ticketLifetime := (← (← kv t "life").toNat?),
    ticketCount := (← (← kv t "tcount").toNat?), allowed := (← natList (← kv t "allowed")),
    hasCache := hasCache, pskConfigs := (← pskCfgs (← kv t "spsk")),
    pskModes := (← natList (← kv t "smodes")), hasCert := (← boolOf (← kv t "cert")) }
  some {
    srv := srv, cs := cs, srp := (← ofHex (← kv t "srp")), sni := (← ofHex (← kv t "sni")),
    offer := (← optNat (← kv t "offer")), edits := (← editsOf (← kv t "edits")), st := st,
    ver := (← verOf (← kv t "ver")), sha384 := d.sha384, freshSid := (← ofHex (← kv t "fsid")),
    nsuite := (← (← kv t "nsuite").toNat?), nems := (← boolOf (← kv t "nems")),
    netm := (← boolOf (← kv t "netm")), ncid := (← optNat (← kv t "ncid")),
    newSid := (← ofHex (← kv t "newsid")), nst := (← hexList (← kv t "nst")),
    negFail := (← boolOf (← kv t "nf")) }

def alertName : Alert → String
  | .illegal_parameter => "illegal_parameter"
  | .handshake_failure => "handshake_failure"
  | .unexpected_message => "unexpected_message"
  | .bad_record_mac => "bad_record_mac"

def endName : EndState → String
  | .done => "done"
  | .localAlert a => "local_alert:" ++ alertName a
  | .remoteAlert a => "remote_alert:" ++ alertName a
  | .raised => "raised"

def decName : Decision → String
  | .resume s => s!"resume:{s.secret}"
  | .external i => s!"ext:{i}"
  | .full => "full"
  | .alert a => "alert:" ++ alertName a
  | .assertionError => "assert"

def b01 (b : Bool) : String := if b then "1" else "0"

def optNatOut : Option Nat → String
  | some n => toString n
  | none => "-"

def helloOut (h : Hello) : String :=
  let tk := match h.ticket with | none => "none" | some t => hexOut t
  let psk := match h.psk with
    | none => "none"
    | some ids => s!"{ids.length}:" ++ (match ids with | id :: _ => hexOut id.identity | [] => "-")
  s!"sid={hexOut h.sessionId} tkt={tk} psk={psk} sni={hexOut h.serverName} ems={b01 h.ems} etm={b01 h.etm}"

def paramsOut (p : Params) : String :=
  s!"{p.suite},{b01 p.ems},{b01 p.etm},{hexOut p.serverName},{optNatOut p.clientId}"

def obsLine (o : HsObs) : String :=
  if o.valueError then "verr" else
  match o.hello, o.dec, o.out with
  | some h, some d, some out =>
    let p := match o.sParams with | some p => paramsOut p | none => "-"
    s!"{helloOut h} dec={decName d} c={endName out.cState} cr={b01 out.cResumed} s={endName out.sState} sr={b01 out.sResumed} p={p} ss={optNatOut o.sSecret} cs={optNatOut o.cSecret}"
  | _, _, _ => "verr"

def handle (d : DState) : List String → DState × Option String
  | ["reset"] => ({ d with w := World.init }, some "ok")
  | ["sha384", l] =>
    match natList l with
    | some l => ({ d with sha384 := l }, some "ok")
    | none => (d, none)
  | ["tick", side, n] =>
    match n.toNat? with
    | some n =>
      if side == "c" then ({ d with w := step d.w (.tick true n) }, some "ok")
      else if side == "s" then ({ d with w := step d.w (.tick false n) }, some "ok")
      else (d, none)
    | none => (d, none)
  | ["srv", "none"] =>
    ({ d with w := step d.w (.newServer none) }, some s!"ok {d.w.caches.length}")
  | ["srv", cap, age] =>
    match cap.toNat?, age.toNat? with
    | some cap, some age =>
      ({ d with w := step d.w (.newServer (some (cap, age))) }, some s!"ok {d.w.caches.length}")
    | _, _ => (d, none)
  | ["fill", srv, ids] =>
    match srv.toNat?, hexList ids with
    | some srv, some ids => ({ d with w := step d.w (.cacheFill srv ids) }, some "ok")
    | _, _ => (d, none)
  | ["tamper", j, b] =>
    match j.toNat?, ofHex b with
    | some j, some b => ({ d with w := step d.w (.tamper j b) }, some "ok")
    | _, _ => (d, none)
  | ["close", k, cf, sf] =>
    match k.toNat?, boolOf cf, boolOf sf with
    | some k, some cf, some sf =>
      ({ d with w := step d.w (.close k ⟨cf, sf⟩) }, some "ok")
    | _, _, _ => (d, none)
  | ["sess", side, i] =>
    match i.toNat? with
    | some i =>
      if side == "c" then
        match d.w.cheap[i]? with
        | some s => (d, some s!"resumable={b01 s.resumable} sid={hexOut s.sessionID} t10={s.tickets10.length} t13={s.tickets13.length} secret={s.secret}")
        | none => (d, some "nosuch")
      else
        match d.w.sheap[i]? with
        | some s => (d, some s!"resumable={b01 s.resumable} sid={hexOut s.sessionID} secret={s.secret}")
        | none => (d, some "nosuch")
    | none => (d, none)
  | ["conn", k] =>
    match k.toNat? with
    | some k =>
      match d.w.conns[k]? with
      | some c => (d, some s!"cobj={optNatOut c.cobj} sobj={optNatOut c.sobj} from={optNatOut c.resumedFrom}")
      | none => (d, some "nosuch")
    | none => (d, none)
  | ["tpw", ver, ms, maj, min, suite, nonce, ct, chain, etm, ems, sn] =>
    -- SessionTicketPayload.write of the given fields
    (d, do
      let p : Tls.Ticket.TicketPayload := {
        version := (← ver.toNat?), masterSecret := (← ofHex ms), protoMajor := (← maj.toNat?),
        protoMinor := (← min.toNat?), suite := (← suite.toNat?), nonce := (← ofHex nonce),
        creationTime := (← ct.toNat?), certChain := (← ofHex chain), etm := (← boolOf etm),
        ems := (← boolOf ems), serverName := (← ofHex sn) }
      some (hexOut (Tls.Ticket.writePayload p)))
  | ["tpc", hasChain, etm, ems, sn] =>
    -- version SessionTicketPayload.create chooses
    (d, do
      let p := Tls.Ticket.create [] 3 3 0 0 [] (if (← boolOf hasChain) then some [] else none)
        (← boolOf etm) (← boolOf ems) (← ofHex sn)
      some (toString p.version))
  | ["tpp", b] =>
    (d, do
      match Tls.Ticket.parsePayload (← ofHex b) with
      | none => some "none"
      | some p => some s!"{p.version} {hexOut p.masterSecret} {p.protoMajor} {p.protoMinor} {p.suite} {hexOut p.nonce} {p.creationTime} {hexOut p.certChain} {b01 p.etm} {b01 p.ems} {hexOut p.serverName}")
  | "hs" :: t =>
    match parseHs d t with
    | some a =>
      let (w', o) := stepHs d.w a
      ({ d with w := w' }, some (obsLine o))
    | none => (d, none)
  | _ => (d, none)

def main : IO Unit := Tls.protoMainS handle { w := World.init, sha384 := [] }
