import TlsModel.Proto
import TlsModel.Settings
/-
  Driver for C19.
    validate <env> f=v f=v ...   -> `ok f=v f=v ...` (canonical, all fields) | `ValueError <message prefix>`
    defaults <env>               -> `ok f=v ...` of Gen.defaults
    consts <env>                 -> NAME=a,b,c ... of every generated name list
    pure                         -> true|false   (pureOps Gen.validateOps)
    taint <bits>                 -> attributes of the result that alias a receiver object on the path
                                    selected by the branch-condition bits (comma list | `-` | `impure`)
    conds                        -> number of branch conditions
  <env>  = 10 characters 0/1 in the order of `Env`'s fields.   <bits> = string of 0/1 (or `-`).
  Encodings: string lists `a,b` (`-` empty); ints decimal; versions `3.4`; flags T/F/X; bools 1/0;
  dhParams N/P/M; virtual hosts `;`-separated, each `e` (no keys) or `,`-separated keypairs `11`;
  pskConfigs `,`-separated `len` or `len:hash`; record_size_limit `N` or int;
  dc_sig_algs `L:<pairs>` or `S:a.b`.
-/
open Tls Tls.Settings

def parseEnv (s : String) : Option Env :=
  match s.toList.map (· == '1') with
  | [a, b, c, d, e, f, g, h, i, j] =>
    if s.toList.all (fun ch => ch == '0' || ch == '1') then some ⟨a, b, c, d, e, f, g, h, i, j⟩ else none
  | _ => none

def parseBits (s : String) : Option (List Bool) :=
  if s == "-" then some []
  else if s.toList.all (fun ch => ch == '0' || ch == '1') then some (s.toList.map (· == '1')) else none

def pStrList (s : String) : List String := if s == "-" then [] else s.splitOn ","
def eStrList (l : List String) : String := if l.isEmpty then "-" else ",".intercalate l

def pVer (s : String) : Option Ver :=
  match s.splitOn "." with
  | [a, b] => do pure ((← a.toNat?), (← b.toNat?))
  | _ => none
def eVer (v : Ver) : String := s!"{v.1}.{v.2}"
def pVerList (s : String) : Option (List Ver) := if s == "-" then some [] else (s.splitOn ",").mapM pVer
def eVerList (l : List Ver) : String := eStrList (l.map eVer)
def pNatList (s : String) : Option (List Nat) := if s == "-" then some [] else (s.splitOn ",").mapM String.toNat?
def eNatList (l : List Nat) : String := eStrList (l.map toString)

def pFlag : String → Option Flag
  | "T" => some .t | "F" => some .f | "X" => some .other | _ => none
def eFlag : Flag → String
  | .t => "T" | .f => "F" | .other => "X"
def pBool : String → Option Bool
  | "1" => some true | "0" => some false | _ => none
def eBool (b : Bool) : String := if b then "1" else "0"
def pDh : String → Option DhParams
  | "N" => some .none | "P" => some .pair | "M" => some .malformed | _ => none
def eDh : DhParams → String
  | .none => "N" | .pair => "P" | .malformed => "M"

def pKeypair : String → Option (Bool × Bool)
  | "11" => some (true, true) | "10" => some (true, false)
  | "01" => some (false, true) | "00" => some (false, false) | _ => none
def eKeypair (k : Bool × Bool) : String := eBool k.1 ++ eBool k.2
def pVhost (s : String) : Option (List (Bool × Bool)) :=
  if s == "e" then some [] else (s.splitOn ",").mapM pKeypair
def eVhost (v : List (Bool × Bool)) : String := if v.isEmpty then "e" else ",".intercalate (v.map eKeypair)
def pVhosts (s : String) : Option (List (List (Bool × Bool))) :=
  if s == "-" then some [] else (s.splitOn ";").mapM pVhost
def eVhosts (l : List (List (Bool × Bool))) : String :=
  if l.isEmpty then "-" else ";".intercalate (l.map eVhost)

def pPsk (s : String) : Option Psk :=
  match s.splitOn ":" with
  | [n] => do pure ⟨← n.toNat?, none⟩
  | [n, h] => do pure ⟨← n.toNat?, some h⟩
  | _ => none
def ePsk (p : Psk) : String :=
  match p.hash with
  | some h => s!"{p.len}:{h}"
  | none => toString p.len
def pPsks (s : String) : Option (List Psk) := if s == "-" then some [] else (s.splitOn ",").mapM pPsk
def ePsks (l : List Psk) : String := eStrList (l.map ePsk)

def pOptInt (s : String) : Option (Option Int) := if s == "N" then some none else s.toInt?.map some
def eOptInt : Option Int → String
  | none => "N"
  | some v => toString v

def pDc (s : String) : Option DcAlgs :=
  if s.startsWith "L:" then (pVerList (s.drop 2).toString).map .list
  else if s.startsWith "S:" then (pVer (s.drop 2).toString).map .scheme
  else none
def eDc : DcAlgs → String
  | .list xs => "L:" ++ eVerList xs
  | .scheme x => "S:" ++ eVer x

def splitKV (tok : String) : Option (String × String) :=
  match tok.splitOn "=" with
  | k :: v :: rest => some (k, "=".intercalate (v :: rest))
  | _ => none

def parseSettings (toks : List String) : Option Settings := do
  let kvs ← toks.mapM splitKV
  if kvs.length != 43 then none
  let get := fun (k : String) => (kvs.find? fun kv => kv.1 == k).map (·.2)
  pure {
    minKeySize := ← (← get "minKeySize").toInt?
    maxKeySize := ← (← get "maxKeySize").toInt?
    rsaSigHashes := pStrList (← get "rsaSigHashes")
    rsaSchemes := pStrList (← get "rsaSchemes")
    dsaSigHashes := pStrList (← get "dsaSigHashes")
    virtual_hosts := ← pVhosts (← get "virtual_hosts")
    eccCurves := pStrList (← get "eccCurves")
    dhParams := ← pDh (← get "dhParams")
    dhGroups := pStrList (← get "dhGroups")
    defaultCurve := ← get "defaultCurve"
    keyShares := pStrList (← get "keyShares")
    padding_cb := ← pBool (← get "padding_cb")
    use_heartbeat_extension := ← pFlag (← get "use_heartbeat_extension")
    heartbeat_response_callback := ← pBool (← get "heartbeat_response_callback")
    certificateTypes := pStrList (← get "certificateTypes")
    useExperimentalTackExtension := ← pBool (← get "useExperimentalTackExtension")
    sendFallbackSCSV := ← pBool (← get "sendFallbackSCSV")
    useEncryptThenMAC := ← pFlag (← get "useEncryptThenMAC")
    ecdsaSigHashes := pStrList (← get "ecdsaSigHashes")
    more_sig_schemes := pStrList (← get "more_sig_schemes")
    usePaddingExtension := ← pFlag (← get "usePaddingExtension")
    useExtendedMasterSecret := ← pFlag (← get "useExtendedMasterSecret")
    requireExtendedMasterSecret := ← pFlag (← get "requireExtendedMasterSecret")
    pskConfigs := ← pPsks (← get "pskConfigs")
    psk_modes := pStrList (← get "psk_modes")
    ticketKeys := ← pNatList (← get "ticketKeys")
    ticketCipher := ← get "ticketCipher"
    ticketLifetime := ← (← get "ticketLifetime").toInt?
    max_early_data := ← (← get "max_early_data").toInt?
    ticket_count := ← (← get "ticket_count").toInt?
    record_size_limit := ← pOptInt (← get "record_size_limit")
    ec_point_formats := ← pNatList (← get "ec_point_formats")
    certificate_compression_send := pStrList (← get "certificate_compression_send")
    certificate_compression_receive := pStrList (← get "certificate_compression_receive")
    dc_sig_algs := ← pDc (← get "dc_sig_algs")
    dc_valid_time := ← (← get "dc_valid_time").toInt?
    minVersion := ← pVer (← get "minVersion")
    maxVersion := ← pVer (← get "maxVersion")
    versions := ← pVerList (← get "versions")
    cipherNames := pStrList (← get "cipherNames")
    macNames := pStrList (← get "macNames")
    keyExchangeNames := pStrList (← get "keyExchangeNames")
    cipherImplementations := pStrList (← get "cipherImplementations")
  }

def encSettings (s : Settings) : String :=
  " ".intercalate [
    "minKeySize=" ++ toString s.minKeySize,
    "maxKeySize=" ++ toString s.maxKeySize,
    "rsaSigHashes=" ++ eStrList s.rsaSigHashes,
    "rsaSchemes=" ++ eStrList s.rsaSchemes,
    "dsaSigHashes=" ++ eStrList s.dsaSigHashes,
    "virtual_hosts=" ++ eVhosts s.virtual_hosts,
    "eccCurves=" ++ eStrList s.eccCurves,
    "dhParams=" ++ eDh s.dhParams,
    "dhGroups=" ++ eStrList s.dhGroups,
    "defaultCurve=" ++ s.defaultCurve,
    "keyShares=" ++ eStrList s.keyShares,
    "padding_cb=" ++ eBool s.padding_cb,
    "use_heartbeat_extension=" ++ eFlag s.use_heartbeat_extension,
    "heartbeat_response_callback=" ++ eBool s.heartbeat_response_callback,
    "certificateTypes=" ++ eStrList s.certificateTypes,
    "useExperimentalTackExtension=" ++ eBool s.useExperimentalTackExtension,
    "sendFallbackSCSV=" ++ eBool s.sendFallbackSCSV,
    "useEncryptThenMAC=" ++ eFlag s.useEncryptThenMAC,
    "ecdsaSigHashes=" ++ eStrList s.ecdsaSigHashes,
    "more_sig_schemes=" ++ eStrList s.more_sig_schemes,
    "usePaddingExtension=" ++ eFlag s.usePaddingExtension,
    "useExtendedMasterSecret=" ++ eFlag s.useExtendedMasterSecret,
    "requireExtendedMasterSecret=" ++ eFlag s.requireExtendedMasterSecret,
    "pskConfigs=" ++ ePsks s.pskConfigs,
    "psk_modes=" ++ eStrList s.psk_modes,
    "ticketKeys=" ++ eNatList s.ticketKeys,
    "ticketCipher=" ++ s.ticketCipher,
    "ticketLifetime=" ++ toString s.ticketLifetime,
    "max_early_data=" ++ toString s.max_early_data,
    "ticket_count=" ++ toString s.ticket_count,
    "record_size_limit=" ++ eOptInt s.record_size_limit,
    "ec_point_formats=" ++ eNatList s.ec_point_formats,
    "certificate_compression_send=" ++ eStrList s.certificate_compression_send,
    "certificate_compression_receive=" ++ eStrList s.certificate_compression_receive,
    "dc_sig_algs=" ++ eDc s.dc_sig_algs,
    "dc_valid_time=" ++ toString s.dc_valid_time,
    "minVersion=" ++ eVer s.minVersion,
    "maxVersion=" ++ eVer s.maxVersion,
    "versions=" ++ eVerList s.versions,
    "cipherNames=" ++ eStrList s.cipherNames,
    "macNames=" ++ eStrList s.macNames,
    "keyExchangeNames=" ++ eStrList s.keyExchangeNames,
    "cipherImplementations=" ++ eStrList s.cipherImplementations ]

def encConsts (e : Env) : String :=
  " ".intercalate [
    "CIPHER_NAMES=" ++ eStrList (Gen.cipherNames e),
    "ALL_CIPHER_NAMES=" ++ eStrList (Gen.allCipherNames e),
    "MAC_NAMES=" ++ eStrList (Gen.macNames e),
    "ALL_MAC_NAMES=" ++ eStrList (Gen.allMacNames e),
    "KEY_EXCHANGE_NAMES=" ++ eStrList (Gen.keyExchangeNames e),
    "CIPHER_IMPLEMENTATIONS=" ++ eStrList (Gen.cipherImplementations e),
    "CERTIFICATE_TYPES=" ++ eStrList (Gen.certificateTypes e),
    "RSA_SIGNATURE_HASHES=" ++ eStrList (Gen.rsaSignatureHashes e),
    "DSA_SIGNATURE_HASHES=" ++ eStrList (Gen.dsaSignatureHashes e),
    "ECDSA_SIGNATURE_HASHES=" ++ eStrList (Gen.ecdsaSignatureHashes e),
    "ALL_RSA_SIGNATURE_HASHES=" ++ eStrList (Gen.allRsaSignatureHashes e),
    "SIGNATURE_SCHEMES=" ++ eStrList (Gen.signatureSchemes e),
    "RSA_SCHEMES=" ++ eStrList (Gen.rsaSchemes e),
    "CURVE_NAMES=" ++ eStrList (Gen.curveNames e),
    "ALL_CURVE_NAMES=" ++ eStrList (Gen.allCurveNames e),
    "ALL_DH_GROUP_NAMES=" ++ eStrList (Gen.allDhGroupNames e),
    "TLS13_PERMITTED_GROUPS=" ++ eStrList (Gen.tls13PermittedGroups e),
    "KNOWN_VERSIONS=" ++ eVerList (Gen.knownVersions e),
    "TICKET_CIPHERS=" ++ eStrList (Gen.ticketCiphers e),
    "PSK_MODES=" ++ eStrList (Gen.pskModes e),
    "EC_POINT_FORMATS=" ++ eNatList (Gen.ecPointFormats e),
    "ALL_COMPRESSION_ALGOS_SEND=" ++ eStrList (Gen.allCompressionAlgosSend e),
    "ALL_COMPRESSION_ALGOS_RECEIVE=" ++ eStrList (Gen.allCompressionAlgosReceive e),
    "DELEGETED_CREDENTIAL_FORBIDDEN_ALG=" ++ eVerList (Gen.delegetedCredentialForbiddenAlg e),
    "DC_VALID_TIME=" ++ toString (Gen.dcValidTime e) ]

def handle : List String → Option String
  | "validate" :: env :: rest => do
    let e ← parseEnv env
    let s ← parseSettings rest
    match validate e s with
    | .ok o => some ("ok " ++ encSettings o)
    | .error m => some ("ValueError " ++ m)
  | ["defaults", env] => do
    let e ← parseEnv env
    some ("ok " ++ encSettings (Gen.defaults e))
  | ["consts", env] => do
    let e ← parseEnv env
    some (encConsts e)
  | ["pure"] => some (boolOut (pureOps Gen.validateOps))
  | ["conds"] => some (toString (condBound Gen.validateOps) ++ " " ++ toString Gen.validateConds.length)
  | ["taint", bits] => do
    let b ← parseBits bits
    match finalTaint b Gen.validateOps (fun _ => true) with
    | some T => some (eStrList (Gen.initFields.filter T))
    | none => some "impure"
  | ["flags"] => some (boolOut Gen.constsOk ++ " " ++ boolOut Gen.defaultsOk)
  | _ => none

def main : IO Unit := protoMain handle
