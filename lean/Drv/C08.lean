import TlsModel.Proto
import TlsModel.ErrPath
import TlsModel.Flights
/-
  Driver for C08 (line protocol, tokens `key=value` after the op).

    err kind=<name> [a=<nat>] [b=<nat>] closed=0|1 session=-|0|1 handler=hs|rd
        -> wire=<level>.<desc>,... closed=0|1 session=-|0|1 exc=<family>[:args]
    getmsg v13= exp=<csv> sec=<csv> client= open= mbox= hbs= hbr= dccs=<hex> dalert=<hex> dhs=<hex> in=<inputs>
        inputs: `;`-separated, each  r:<type>:<hex>:<ssl2 0|1>  or  b:<kind>
        -> <outcome> iters=<n> reads=<n> extracts=<n> warnings=<n> rest=<n> buf=<ccs>.<alert>.<hs>
    ch  pe= cv= se= ce= nc= sv= sa= alpn= sni= ems= ecpf= pha= pm= psk= sg= ks= ed= hb= rsl= ct= min= max= vers=
        -> alert:<d>:<message> | pass | escape:<...>
    sh  pe= v= sv= al= hrr= sid= co= cto= cn= tack= npn= ems= alpn= afo= hb= ecpf= rsl= ks= psk=
        cmin= cmax= cvers= rems= stack= snpn= salpn= uhb= hbcb= shares= pskn=
        -> same
    decomp declared= clen= known= avail= complete= corrupt= [old=1]  -> accepted=0|1 produced=<n> alert=<d|->
  Extension values: `-` absent, `D` duplicated, otherwise the value (see the parsers below).
-/
open Tls Tls.ErrPath Tls.Flights

def kv (toks : List String) : List (String × String) :=
  toks.filterMap fun t =>
    match t.splitOn "=" with
    | [k, v] => some (k, v)
    | _ => none

def look (m : List (String × String)) (k : String) : Option String := (m.find? (·.1 == k)).map (·.2)

def natOf (m : List (String × String)) (k : String) : Option Nat := (look m k).bind String.toNat?
def boolOf (m : List (String × String)) (k : String) : Option Bool :=
  match look m k with
  | some "1" => some true
  | some "0" => some false
  | _ => none

def csvNats (s : String) : Option (List Nat) :=
  if s == "" || s == "-" then some [] else (s.splitOn ",").mapM String.toNat?

/-- `N` = None, `L<csv>` = list -/
def optList (s : String) : Option (Option (List Nat)) :=
  if s == "N" then some none
  else if s.startsWith "L" then (csvNats (s.drop 1).toString).map some
  else none

def extOf {α : Type} (s : String) (f : String → Option α) : Option (Ext α) :=
  if s == "-" then some .absent
  else if s == "D" then some .dup
  else (f s).map .present

def bool01 (s : String) : Option Bool := if s == "1" then some true else if s == "0" then some false else none

def hostKind (s : String) : Option HostKind :=
  match s with
  | "e" => some .empty | "a" => some .nonAscii | "i" => some .invalidDns | "o" => some .ok
  | _ => none

def sniOf (s : String) : Option Sni :=
  if s == "B" then some ⟨true, []⟩
  else if s == "L" then some ⟨false, []⟩
  else do
    let names ← (s.splitOn ",").mapM fun n =>
      match n.splitOn "." with
      | [t, k] => do pure ((← t.toNat?), (← hostKind k))
      | _ => none
    pure ⟨false, names⟩

def pskOf (s : String) : Option Psk :=
  match s.splitOn "|" with
  | [a, b, c] => do pure ⟨← optList a, ← optList b, ← bool01 c⟩
  | _ => none

def optNat (s : String) : Option (Option Nat) := if s == "N" then some none else s.toNat?.map some

def escOut : Escape → String
  | .py e site => "escape:py:" ++ e.name ++ ":" ++ site.replace " " "_"
  | .dupExtension => "escape:dup"
  | .protoNoAlert site => "escape:proto:" ++ site.replace " " "_"

def verdictOut : Except Escape Verdict → String
  | .error e => escOut e
  | .ok .pass => "pass"
  | .ok (.alert d m) => "alert:" ++ toString d ++ ":" ++ m.replace " " "_"

def chOf (m : List (String × String)) : Option (SrvSettings × CH) := do
  let e := fun k => look m k
  let h : CH :=
    { parseError := ← boolOf m "pe", clientVersion := ← natOf m "cv", suitesEmpty := ← boolOf m "se",
      compressionEmpty := ← boolOf m "ce", hasNullCompression := ← boolOf m "nc",
      supportedVersions := ← extOf (← e "sv") optList,
      sigAlgs := ← extOf (← e "sa") optNat,
      alpn := ← extOf (← e "alpn") (fun s => if s.startsWith "L" then csvNats (s.drop 1).toString else none),
      sni := ← extOf (← e "sni") sniOf,
      ems := ← extOf (← e "ems") bool01,
      ecPointFormats := ← extOf (← e "ecpf") optList,
      pha := ← extOf (← e "pha") bool01,
      pskModes := ← extOf (← e "pm") optList,
      psk := ← extOf (← e "psk") pskOf,
      supGroups := ← extOf (← e "sg") optList,
      keyShare := ← extOf (← e "ks") optList,
      earlyData := ← extOf (← e "ed") bool01,
      heartbeat := ← extOf (← e "hb") String.toNat?,
      recordSizeLimit := ← extOf (← e "rsl") optNat,
      certType := ← extOf (← e "ct") optList }
  let vers ← csvNats (← e "vers")
  pure (⟨← natOf m "min", ← natOf m "max", vers⟩, h)

def shOf (m : List (String × String)) : Option (CliState × SH) := do
  let e := fun k => look m k
  let h : SH :=
    { parseError := ← boolOf m "pe", serverVersion := ← natOf m "v",
      supportedVersions := ← extOf (← e "sv") String.toNat?,
      aligned := ← boolOf m "al", hrrCipherMismatch := ← boolOf m "hrr", sessionIdEchoed := ← boolOf m "sid",
      cipherOffered := ← boolOf m "co", certTypeOffered := ← boolOf m "cto", compressionNull := ← boolOf m "cn",
      tack := ← boolOf m "tack", npn := ← boolOf m "npn",
      ems := ← extOf (← e "ems") (fun _ => some ()),
      alpn := ← extOf (← e "alpn") (fun s => if s.startsWith "L" then csvNats (s.drop 1).toString else none),
      alpnFirstOffered := ← boolOf m "afo",
      heartbeat := ← extOf (← e "hb") String.toNat?,
      ecPointFormats := ← extOf (← e "ecpf") optList,
      recordSizeLimit := ← extOf (← e "rsl") optNat,
      keyShare := ← extOf (← e "ks") optNat,
      psk := ← extOf (← e "psk") optNat }
  let c : CliState :=
    { minVersion := ← natOf m "cmin", maxVersion := ← natOf m "cmax", versions := ← csvNats (← e "cvers"),
      requireEms := ← boolOf m "rems", sentTack := ← boolOf m "stack", sentNpn := ← boolOf m "snpn",
      sentAlpn := ← boolOf m "salpn", useHeartbeat := ← boolOf m "uhb", heartbeatCallback := ← boolOf m "hbcb",
      sharesSent := ← optList (← e "shares"), pskIdsSent := ← optNat (← e "pskn") }
  pure (c, h)

def pyOf (s : String) : Option PyExc :=
  match s with
  | "TypeError" => some .typeError | "AttributeError" => some .attributeError | "IndexError" => some .indexError
  | "KeyError" => some .keyError | "ValueError" => some .valueError | "AssertionError" => some .assertionError
  | "UnicodeDecodeError" => some .unicodeError
  | _ => none

def kindOf (name : String) (a b : Nat) (py : Option PyExc) : Option ErrKind :=
  match name with
  | "recUnexpectedMessage" => some .recUnexpectedMessage
  | "recRecordOverflow" => some .recRecordOverflow
  | "recIllegalParameter" => some .recIllegalParameter
  | "recDecryptionFailed" => some .recDecryptionFailed
  | "recBadRecordMac" => some .recBadRecordMac
  | "recEmptyNonAppData" => some .recEmptyNonAppData
  | "recUnknownContentType" => some .recUnknownContentType
  | "msgIllegalParameter" => some .msgIllegalParameter
  | "msgBadCertificate" => some .msgBadCertificate
  | "msgSyntaxError" => some .msgSyntaxError
  | "invalidCcs13" => some .invalidCcs13
  | "interleaved13" => some .interleaved13
  | "unexpectedRecordType" => some .unexpectedRecordType
  | "heartbeatNotAllowed" => some .heartbeatNotAllowed
  | "ssl2NotClientHello" => some .ssl2NotClientHello
  | "ssl2ClientHelloNotExpected" => some .ssl2ClientHelloNotExpected
  | "unexpectedHandshakeType" => some .unexpectedHandshakeType
  | "notAligned13" => some .notAligned13
  | "semantic" => some (.semantic a)
  | "remoteAlert" => some (.remoteAlert a b)
  | "abruptClose" => some .abruptClose
  | "socketError" => some .socketError
  | "escaped" => py.map .escaped
  | "internalNoAlert" => some .internalNoAlert
  | _ => none

def kindOut : ErrKind → String
  | .recUnexpectedMessage => "recUnexpectedMessage" | .recRecordOverflow => "recRecordOverflow"
  | .recIllegalParameter => "recIllegalParameter" | .recDecryptionFailed => "recDecryptionFailed"
  | .recBadRecordMac => "recBadRecordMac" | .recEmptyNonAppData => "recEmptyNonAppData"
  | .recUnknownContentType => "recUnknownContentType" | .msgIllegalParameter => "msgIllegalParameter"
  | .msgBadCertificate => "msgBadCertificate" | .msgSyntaxError => "msgSyntaxError"
  | .invalidCcs13 => "invalidCcs13" | .interleaved13 => "interleaved13"
  | .unexpectedRecordType => "unexpectedRecordType" | .heartbeatNotAllowed => "heartbeatNotAllowed"
  | .ssl2NotClientHello => "ssl2NotClientHello" | .ssl2ClientHelloNotExpected => "ssl2ClientHelloNotExpected"
  | .unexpectedHandshakeType => "unexpectedHandshakeType" | .notAligned13 => "notAligned13"
  | .semantic d => "semantic:" ++ toString d
  | .remoteAlert l d => "remoteAlert:" ++ toString l ++ ":" ++ toString d
  | .abruptClose => "abruptClose" | .socketError => "socketError"
  | .escaped e => "escaped:" ++ e.name | .internalNoAlert => "internalNoAlert"

def excOut : Exc → String
  | .localAlert d => "local_alert:" ++ toString d
  | .remoteAlert l d => "remote_alert:" ++ toString l ++ ":" ++ toString d
  | .abruptClose => "abrupt_close" | .socketError => "socket_error"
  | .py e => "python:" ++ e.name | .internal => "internal"

def effOut (e : Effects) : String :=
  let w := if e.wire.isEmpty then "-" else ",".intercalate (e.wire.map fun p => toString p.1 ++ "." ++ toString p.2)
  let s := match e.conn.session with | none => "-" | some true => "1" | some false => "0"
  "wire=" ++ w ++ " closed=" ++ (if e.conn.closed then "1" else "0") ++ " session=" ++ s ++ " exc=" ++ excOut e.raised

def inputOf (s : String) : Option Input :=
  match s.splitOn ":" with
  | ["r", t, hex, s2] => do pure (.record (← t.toNat?) (← ofHex hex) (← bool01 s2))
  | ["b", k] => (kindOf k 0 0 none).map .bad
  | _ => none

def outcomeOut : Outcome → String
  | .delivered t d => "delivered:" ++ toString t ++ ":" ++ hexOut d
  | .failed k => "failed:" ++ kindOut k
  | .blocked => "blocked"
  | .outOfFuel => "outOfFuel"

/- flights: `items=` is a `;`-separated list of items, each a `,`-separated list of k:v with
   c (ctype) h (htype) p (parse) ccs (bytes a.b) b (four 0/1) n (n1.n2.n3) s (text, _ for space)
   e1 (-|D|N|<n>) x1 (-|D|L<a.b>) -/
def dotNats (s : String) : Option (List Nat) :=
  if s == "" then some [] else (s.splitOn ".").mapM String.toNat?

def itemOf (tok : String) : Option Item := do
  let m := (tok.splitOn ",").filterMap fun t =>
    match t.splitOn ":" with
    | [k, v] => some (k, v)
    | [k] => some (k, "")
    | _ => none
  let g := fun k d => (look m k).getD d
  let bs := (g "b" "1111").toList
  let ns ← dotNats (g "n" "0.0.0")
  let e1 ← extOf (g "e1" "-") optNat
  let x1 ← extOf (g "x1" "-") (fun s => if s.startsWith "L" then dotNats (s.drop 1).toString else none)
  pure { ctype := ← (g "c" "22").toNat?, htype := ← (g "h" "0").toNat?, parse := ← (g "p" "0").toNat?,
         ccs := ← dotNats (g "ccs" ""),
         b1 := bs.getD 0 '1' == '1', b2 := bs.getD 1 '1' == '1', b3 := bs.getD 2 '1' == '1', b4 := bs.getD 3 '1' == '1',
         n1 := ns.getD 0 0, n2 := ns.getD 1 0, n3 := ns.getD 2 0, s1 := (g "s" "").replace "_" " ", e1 := e1, x1 := x1 }

def itemsOf (s : String) : Option (List Item) :=
  if s == "-" || s == "" then some [] else (s.splitOn ";").mapM itemOf

def outOut : Out → String
  | .alert d m => "alert:" ++ toString d ++ ":" ++ m.replace " " "_"
  | .blocked => "blocked"
  | .pass => "pass"
  | .escape e => escOut e

def handle : List String → Option String
  | "err" :: rest => do
    let m := kv rest
    let k ← kindOf (← look m "kind") ((natOf m "a").getD 0) ((natOf m "b").getD 0) ((look m "py").bind pyOf)
    let closed ← boolOf m "closed"
    let session ← match look m "session" with
      | some "-" => some none | some "1" => some (some true) | some "0" => some (some false) | _ => none
    let c : Conn := ⟨closed, session⟩
    match look m "handler" with
    | some "hs" => some (effOut (onError k c))
    | some "rd" => some (effOut (onErrorRead k c))
    | some "inner" => some (effOut (onErrorInner k c))
    | _ => none
  | "getmsg" :: rest => do
    let m := kv rest
    let cfg : Cfg :=
      { v13 := ← boolOf m "v13", expected := ← csvNats (← look m "exp"), secondary := ← csvNats (← look m "sec"),
        client := ← boolOf m "client", sessionOpen := ← boolOf m "open", middlebox := ← boolOf m "mbox",
        hbSupported := ← boolOf m "hbs", hbCanReceive := ← boolOf m "hbr" }
    let d : Defrag := ⟨← ofHex (← look m "dccs"), ← ofHex (← look m "dalert"), ← ofHex (← look m "dhs")⟩
    let ins ← look m "in"
    let inp ← if ins == "-" then some [] else (ins.splitOn ";").mapM inputOf
    let r := getMsg cfg d inp
    some (outcomeOut r.outcome ++ " iters=" ++ toString r.iters ++ " reads=" ++ toString r.reads ++
      " extracts=" ++ toString r.extracts ++ " warnings=" ++ toString r.warnings ++ " rest=" ++ toString r.rest.length ++
      " buf=" ++ toString r.d.ccs.length ++ "." ++ toString r.d.alert.length ++ "." ++ toString r.d.hs.length)
  | "ch" :: rest => do
    let (s, h) ← chOf (kv rest)
    some (verdictOut (chChecks s h))
  | "ctchk" :: rest => do
    let (s, h) ← chOf (kv rest)
    some (verdictOut (certTypeCheck s h))
  | "sh" :: rest => do
    let (c, h) ← shOf (kv rest)
    some (verdictOut (shChecks c h))
  | "fl13s" :: rest => do
    let m := kv rest
    some (outOut (server13 ⟨← boolOf m "reqcert", ← boolOf m "compress"⟩ (← itemsOf (← look m "items"))))
  | "fl13c" :: rest => do
    let m := kv rest
    let c : Cli13 := ⟨← boolOf m "compress", ← boolOf m "rsl", ← boolOf m "havecert", ← boolOf m "salpn",
                      ← boolOf m "uhb", ← boolOf m "hbcb", ← boolOf m "dc"⟩
    some (outOut (client13 c (← itemsOf (← look m "items"))))
  | "fl12c" :: rest => do
    let m := kv rest
    let c : Cli12 := ⟨← boolOf m "certsuite", ← boolOf m "ske", ← boolOf m "dh", ← boolOf m "v12"⟩
    some (outOut (client12 c (← itemsOf (← look m "items"))))
  | "fl12s" :: rest => do
    let m := kv rest
    some (outOut (server12 ⟨← boolOf m "reqcert", ← boolOf m "v12"⟩ (← itemsOf (← look m "items"))))
  | "hrr" :: rest => do
    let m := kv rest
    let h : Hrr :=
      { keyShare := ← optList (← look m "ks1"), supGroups := ← optList (← look m "sg1"),
        acceptable := ← csvNats (← look m "acc"), parse2 := ← natOf m "p2",
        keyShare2 := ← extOf (← look m "ks2") optList, cookie := ← natOf m "cookie",
        pskBoth := ← boolOf m "pskboth", pskLast2 := ← boolOf m "psklast", sameOtherwise := ← boolOf m "same" }
    some (outOut (hrrChecks h))
  | "resume" :: rest => do
    let m := kv rest
    let r : Resume :=
      { requested := ← boolOf m "req", found := ← boolOf m "found", cipherOffered := ← boolOf m "co",
        srpSame := ← boolOf m "srp", sniSame := ← boolOf m "sni", etmOk := ← boolOf m "etm",
        emsOld := ← boolOf m "emsold", emsNew := ← boolOf m "emsnew", renegoNonEmpty := ← boolOf m "reneg",
        alpnWanted := ← boolOf m "alpnw", alpnCommon := ← boolOf m "alpnc", heartbeat := ← natOf m "hb" }
    some (outOut (resumeChecks r))
  | "early" :: rest => do
    let m := kv rest
    let r := earlySkip (← natOf m "max") (← natOf m "done") (← csvNats (← look m "sizes"))
    some ("skipped=" ++ toString r.1 ++ " failed=" ++ (if r.2 then "1" else "0"))
  | "cache" :: rest => do
    let m := kv rest
    let h ← csvNats (← look m "hist")
    some (if (Cache.afterHistory [(1, true)] 1 (h.map (· != 0))).resumes 1 then "resumes=1" else "resumes=0")
  | "decomp" :: rest => do
    let m := kv rest
    let z : ZStream := ⟨← natOf m "avail", ← boolOf m "complete", ← boolOf m "corrupt"⟩
    let f := if (look m "old") == some "1" then decompressOld else decompress
    let r := f (← natOf m "declared") (← natOf m "clen") (← boolOf m "known") z
    some ("accepted=" ++ (if r.accepted then "1" else "0") ++ " produced=" ++ toString r.produced ++
      " alert=" ++ (match r.alert with | some d => toString d | none => "-"))
  | _ => none

def main : IO Unit := protoMain handle
