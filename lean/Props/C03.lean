import TlsProofs.Negotiate
import TlsProofs.Compat
import TlsProofs.NoAbort
/-
  C03 — both ends of a completed handshake agree on everything, within both policies.

  Model: TlsModel/Negotiate.lean (`negotiate cs ss cc sc`, `clientView`, `serverView`), tables
  regenerated from tlslite/constants.py (TlsModel/Gen/Negotiate.lean).  `st.allowsSuite s` reads the
  suite's cipher / MAC / key-exchange from its registered IETF name, not from the library's lists.
-/
namespace Tls.Neg.C03
open Tls.Neg Tls.Gen.Neg

/-! ### 1. every negotiated parameter is in the offer and inside both policies; otherwise an alert

  FULL STATEMENT (what the property text asks), proved by the two theorems below together with
  `version_inside_both_ranges`:
    negotiate cs ss cc sc = .ok p  →
      p.version inside [minVersion, maxVersion] of both sides ∧
      p.suite ∈ offer ∧ cs.allowsSuite p.suite ∧ ss.allowsSuite p.suite ∧
      (group: enabled on both sides and offered) ∧
      (DH prime / SRP modulus within [minKeySize, maxKeySize] of the client) ∧
      (signature scheme offered by the verifier, produced from the signer's own lists) ∧
      (peer key size / curve / key type within the verifier's settings, both directions)
                                                        (`selected_in_offer_and_policy`), and
    otherwise  ∃ side d, negotiate cs ss cc sc = .alert side d        (`otherwise_an_alert`).
  Several conjuncts, and the second clause as a whole, became provable only after repairs made to the
  tree while this check was written (server version range, DH prime against the client's key sizes, client
  key in TLS 1.3; six places where a local credential unusable for what was negotiated made an exception
  escape without an alert): on the parents of those commits the mirrored code lacks the guard and the
  proof does not close.
-/
theorem selected_in_offer_and_policy (cs ss : Settings) (cc : ClientCfg) (sc : ServerCfg) (p : Params)
    (h : negotiate cs ss cc sc = .ok p) :
    let o := clientOffer cs cc
    -- version: inside the client's policy, named by the client, inside the server's range
    cs.minVersion ≤ p.version ∧ (p.version ≤ cs.maxVersion ∨ p.version ∈ cs.versions) ∧
    (∀ vs, o.supportedVersions = some vs → p.version ∈ vs ∧ p.version ∈ ss.versions ∧
        ss.minVersion ≤ p.version ∧ p.version ≤ ss.maxVersion) ∧
    (o.supportedVersions = none → p.version ≤ o.clientVersion ∧ p.version ≤ ss.maxVersion) ∧
    -- cipher suite: offered, usable at this version, and its registered cipher / MAC / key exchange
    -- are allowed by the client's and by the server's name lists
    p.suite ∈ o.suites ∧ p.suite ∈ filterForVersion o.suites p.version ∧
    cs.allowsSuite p.suite ∧ ss.allowsSuite p.suite ∧
    -- TLS ≤ 1.2 ECDHE: the curve is enabled on both sides and was offered
    (p.version ≤ 3 → ecdhAllSuites.contains p.suite = true →
        cs.allowsCurve p.group ∧ ss.allowsCurve p.group ∧ ∀ gs, o.groups = some gs → p.group ∈ gs) ∧
    -- TLS ≤ 1.2 DHE: the prime is within the client's key size bounds
    (p.version ≤ 3 → dhAllSuites.contains p.suite = true →
        cs.minKeySize ≤ p.dhBits ∧ p.dhBits ≤ cs.maxKeySize) ∧
    -- TLS ≤ 1.2 SRP: the modulus is within the client's key size bounds
    (p.version ≤ 3 → srpAllSuites.contains p.suite = true → dhAllSuites.contains p.suite = false →
        ecdhAllSuites.contains p.suite = false → cs.minKeySize ≤ p.dhBits ∧ p.dhBits ≤ cs.maxKeySize) ∧
    -- signature scheme of the server: from the server's own lists, offered by the client, and
    -- accepted by the client's lists for the presented chain
    (p.sigScheme ≠ 0 → ∀ algs, o.sigAlgs = some algs →
        p.sigScheme ∈ sigHashesToList ss none sc.cred p.version ∧ p.sigScheme ∈ algs) ∧
    (p.version = 3 → p.sigScheme ≠ 0 → ∀ c, p.serverCert = some c →
        p.sigScheme ∈ sigHashesToList cs none (some c) 3) ∧
    (3 < p.version → ∀ c, p.serverCert = some c →
        p.sigScheme ∈ o.sigAlgs.getD [] ∧ p.sigScheme ∈ sigHashesToList cs none (some c) 4) ∧
    -- the server's key: checked against the client's settings
    (∀ c, p.serverCert = some c → checkCertChain cs .client c p.version = .ok ()) ∧
    -- the client's key and signature scheme: checked against the server's settings and its request
    (∀ c, p.clientCert = some c →
        checkCertChain ss .server c p.version = .ok () ∧
        (p.version = 3 → p.clientSig ∈ sigHashesToList ss none (some c) 3) ∧
        (3 < p.version → p.clientSig ∈ sigHashesToList ss none (some c) 4)) := by
  intro o
  obtain ⟨sel, hsel, hacc, hfin⟩ := negotiate_ok h
  obtain ⟨_, hpick, hsall, hsoff, hssig, _, hkx⟩ := serverSelect_ok hsel
  obtain ⟨hhello, ev, es, eg, esig, ecert, _, hscert, h12, _⟩ := clientAccept_ok hacc
  obtain ⟨hmin, hmax, hsuite⟩ := clientCheckHello_ok hhello
  obtain ⟨hp1, hp2⟩ := pickVersion_ok hpick
  obtain ⟨_, hcc⟩ := serverFinish_ok hfin
  have hoff : sel.suite ∈ o.suites := hsoff
  have hcall : cs.allowsSuite sel.suite := clientSuites_allowed (cs := cs) (fl := cc.flavour) hoff
  have hcc' : ∀ c, p.clientCert = some c →
      checkCertChain ss .server c p.version = .ok () ∧
      (p.version = 3 → p.clientSig ∈ sigHashesToList ss none (some c) 3) ∧
      (3 < p.version → p.clientSig ∈ sigHashesToList ss none (some c) 4) :=
    fun c hc => ⟨(hcc c hc).1, (hcc c hc).2.1, fun hv => ((hcc c hc).2.2 hv).1⟩
  rw [ev] at hcc'
  rw [ev, es, eg, esig, ecert]
  refine ⟨hmin, hmax, fun vs hvs => ⟨(hp1 vs hvs).2.2.2.1, (hp1 vs hvs).1, (hp1 vs hvs).2.1, (hp1 vs hvs).2.2.1⟩,
    fun hn => ⟨(hp2 hn).2.1, (hp2 hn).1⟩,
    hoff, hsuite, hcall, hsall, ?_, ?_, ?_, ?_, ?_, ?_, ?_, hcc'⟩
  · intro hle hec
    obtain ⟨hec1, _⟩ := hkx hle
    obtain ⟨hck, _, _⟩ := h12 hle
    obtain ⟨hg1, _, _⟩ := clientCheckKex_ok hck
    obtain ⟨hs1, _⟩ := ecSelect_ok hec1
    exact ⟨curveNamesToList_allows (hg1 hec), curveNamesToList_allows (hs1 hec).1, (hs1 hec).2⟩
  · intro hle hdh
    obtain ⟨_, edh, _, hsz⟩ := h12 hle
    rw [edh]
    exact clientCheckDhSize_ok hsz hdh
  · intro hle hsrp hndh hnec
    obtain ⟨hck, edh, _⟩ := h12 hle
    obtain ⟨_, _, hs3⟩ := clientCheckKex_ok hck
    rw [edh]
    exact hs3 hsrp hndh hnec
  · intro hne algs halgs
    exact (pickSig_ok (hssig hne)).1 algs halgs hne
  · intro hv hne c hc
    exact (clientCheckServerCert_ok hscert c hc).2.1 hv hne
  · intro hv c hc
    exact (clientCheckServerCert_ok hscert c hc).2.2 hv
  · intro c hc
    exact (clientCheckServerCert_ok hscert c hc).1

/-- what the acceptance of a chain means in terms of the settings' fields -/
theorem accepted_chain_inside_policy (st : Settings) (side : Side) (c : Cred) (v : Nat)
    (h : checkCertChain st side c v = .ok ()) :
    (c.certAlg = "ecdsa" → v ≤ 3 → c.curve ∈ st.eccCurves) ∧
    (c.certAlg = "ecdsa" → 4 ≤ v → ∃ hn, curveHash c.curve = some hn ∧ hn ∈ st.ecdsaSigHashes) ∧
    ((c.certAlg = "Ed25519" ∨ c.certAlg = "Ed448") → 3 ≤ v ∧ c.certAlg ∈ st.moreSigSchemes) ∧
    (c.certAlg ≠ "ecdsa" → c.certAlg ≠ "Ed25519" → c.certAlg ≠ "Ed448" →
      st.minKeySize ≤ c.keyBits ∧ c.keyBits ≤ st.maxKeySize) :=
  checkCertChain_ok h

/-- `_filterSuites` admits only suites whose registered cipher, MAC and key exchange the settings name
    (full strength: holds for every suite of the current tables, AEAD suites need 'aead') -/
theorem filterSuites_inside_policy (suites : List Nat) (st : Settings) (v s : Nat)
    (h : s ∈ filterSuites suites st v) : s ∈ suites ∧ st.allowsSuite s :=
  ⟨(mem_filterSuites h).1, filterSuites_allows h⟩

-- non-vacuity: default settings on both sides with an RSA certificate complete with TLS 1.3,
-- TLS_AES_256_GCM_SHA384, secp256r1, rsa_pss_rsae_sha512
example : okWith (negotiate dflt dflt certClient (certServer rsaCred))
    (fun p => p.version == 4 && p.suite == 0x1302 && p.group == 23 && p.sigScheme == 2054) = true := by
  decide +kernel
-- … and TLS 1.2 ECDHE-ECDSA when the client stops at TLS 1.2
example : okWith (negotiate { dflt with maxVersion := 3, versions := [3, 2, 1] } dflt certClient (certServer ecdsaCred))
    (fun p => p.version == 3 && ecdheEcdsaSuites.contains p.suite && p.group != 0 && p.sigScheme != 0) = true := by
  decide +kernel
-- … and disjoint cipher policies end in an alert
example : negotiate { dflt with cipherNames := ["aes128"], maxVersion := 3, versions := [3, 2, 1] }
    { dflt with cipherNames := ["aes256"] } certClient (certServer rsaCred) = .alert .server "insufficient_security" := by
  decide +kernel

/-- (a) the negotiated version lies inside BOTH configured ranges.  Hypotheses: what `validate()`
    establishes (`versions` holds no TLS 1.3 entry when maxVersion is below it; min ≤ max; no version
    above (3,4) exists). -/
theorem version_inside_both_ranges (cs ss : Settings) (cc : ClientCfg) (sc : ServerCfg) (p : Params)
    (hcv : cs.maxVersion < 4 → ∀ w ∈ cs.versions, w < 4) (hsr : ss.minVersion ≤ ss.maxVersion)
    (hs4 : ss.maxVersion ≤ 4)
    (h : negotiate cs ss cc sc = .ok p) :
    cs.minVersion ≤ p.version ∧ p.version ≤ cs.maxVersion ∧ ss.minVersion ≤ p.version ∧ p.version ≤ ss.maxVersion := by
  obtain ⟨sel, hsel, hacc, _⟩ := negotiate_ok h
  obtain ⟨hreal, hpick, _⟩ := serverSelect_ok hsel
  obtain ⟨hhello, ev, _⟩ := clientAccept_ok hacc
  obtain ⟨hmin, _, _⟩ := clientCheckHello_ok hhello
  rw [← ev] at hmin hpick
  obtain ⟨hp1, hp2⟩ := pickVersion_ok hpick
  have hsv : (clientOffer cs cc).supportedVersions = if cs.versions.any (· > 3) then some cs.versions else none := rfl
  have hcvn : (clientOffer cs cc).clientVersion = min cs.maxVersion 3 := rfl
  by_cases h13 : cs.versions.any (· > 3) = true
  · rw [if_pos h13] at hsv
    obtain ⟨_, h2, h3, _, _⟩ := hp1 _ hsv
    -- a TLS 1.3 entry in the list means maxVersion is TLS 1.3
    have hc4 : 4 ≤ cs.maxVersion := by
      by_cases hlt : cs.maxVersion < 4
      · exfalso
        rw [List.any_eq_true] at h13
        obtain ⟨w, hw, hw3⟩ := h13
        have := hcv hlt w hw
        simp only [gt_iff_lt, decide_eq_true_eq] at hw3
        omega
      · omega
    exact ⟨hmin, by omega, h2, h3⟩
  · rw [if_neg h13] at hsv
    obtain ⟨h1, h2, h3⟩ := hp2 hsv
    have hr : offerRealVersion (clientOffer cs cc) = min cs.maxVersion 3 := by
      unfold offerRealVersion; rw [hsv]; exact hcvn
    rw [hr] at hreal
    rw [hcvn] at h2 h3
    refine ⟨hmin, by omega, ?_, h1⟩
    rw [h3]
    split <;> omega

-- the key size bounds bite (each was a completed handshake before the repairs 22d0e9e / 312cede):
-- an anonymous-DH client that demands 3072-bit keys refuses the server's 2048-bit prime
example : negotiate { dflt with maxVersion := 3, versions := [3, 2, 1], minKeySize := 3072, dhGroups := [],
                                keyExchangeNames := ["dh_anon"] }
                    { dflt with maxVersion := 3, versions := [3, 2, 1], keyExchangeNames := ["dh_anon"] }
                    anonClient anonServer = .alert .client "insufficient_security" := by
  decide +kernel
-- a server that demands 2048-bit keys refuses a 1024-bit client RSA key, in TLS 1.3 and in TLS 1.2
example :
    negotiate dflt { dflt with minKeySize := 2048 } { certClient with cred := some rsa1024Cred }
              { certServer rsaCred with reqCert := true } = .alert .server "handshake_failure" ∧
    negotiate { dflt with maxVersion := 3, versions := [3, 2, 1] } { dflt with minKeySize := 2048 }
              { certClient with cred := some rsa1024Cred } { certServer rsaCred with reqCert := true }
      = .alert .server "handshake_failure" := by
  constructor <;> decide +kernel

/-- "… otherwise the handshake fails with an alert": for a server that was given credentials (the
    handshake function refuses to start without: ValueError before any message) the outcome is a
    completed handshake or an alert raised by a named side; no exception escapes -/
theorem otherwise_an_alert (cs ss : Settings) (cc : ClientCfg) (sc : ServerCfg)
    (hcred : serverHasCredentials ss sc = true) :
    (∃ p, negotiate cs ss cc sc = .ok p) ∨ (∃ side d, negotiate cs ss cc sc = .alert side d) := by
  have h := negotiate_noAbort cs ss cc sc hcred
  cases hn : negotiate cs ss cc sc with
  | ok p => exact Or.inl ⟨p, rfl⟩
  | alert s d => exact Or.inr ⟨s, d, rfl⟩
  | abort s d => exact absurd hn (h s d)

-- the six former escapes now end in alerts (each was `Outcome.abort` in the model of the parent trees):
-- Ed25519 server key at TLS 1.1; Ed25519 client certificate at TLS 1.1; TLS 1.2 client certificate with
-- every usable hash disabled; anonymous DH without a common FFDHE group
example :
    negotiate { dflt with maxVersion := 2, versions := [3, 2, 1] } dflt certClient
        (certServer { certAlg := "Ed25519", keyBits := 253, curve := "" }) = .alert .server "insufficient_security" ∧
    negotiate { dflt with maxVersion := 2, versions := [3, 2, 1] } dflt
        { certClient with cred := some { certAlg := "Ed25519", keyBits := 253, curve := "" } }
        { certServer rsaCred with reqCert := true } = .alert .client "handshake_failure" ∧
    negotiate { dflt with maxVersion := 3, versions := [3, 2, 1], rsaSigHashes := [] } dflt
        { certClient with cred := some rsa1024Cred } { certServer ecdsaCred with reqCert := true }
      = .alert .client "handshake_failure" ∧
    negotiate { dflt with maxVersion := 3, versions := [3, 2, 1], keyExchangeNames := ["dh_anon"], dhGroups := ["ffdhe2048"] }
              { dflt with maxVersion := 3, versions := [3, 2, 1], keyExchangeNames := ["dh_anon"], dhGroups := ["ffdhe3072"] }
              anonClient anonServer = .alert .server "internal_error" := by
  refine ⟨?_, ?_, ?_, ?_⟩ <;> decide +kernel

/-! ### 2. both endpoints' views are the same function of the same transcript

  For every transcript whose selection the server produced for the client's offer and the client
  accepted, `clientView` and `serverView` (what `_handshakeClientAsyncHelper` / `_clientTLS13Handshake`
  and `_handshakeServerAsyncHelper` / `_serverTLS13Handshake` store) agree on every field, for every
  key schedule `K`: version, suite, master / traffic / exporter / resumption secrets, exporter output for
  every label and length, EtM, EMS, ALPN, server name, both record size limits (what one side sends is
  at most what the other accepts), both certificate chains.  Full strength since d953e10 / 79985ec
  (before, the chain fields differed for DHE_DSS suites and for TLS 1.3 PSK / unrequested client
  certificates, and the corresponding equalities could not be proved).
-/
theorem views_agree (K : KeySched) (cs ss : Settings) (cc : ClientCfg) (sc : ServerCfg)
    (t : Transcript) (pm : Bytes) (p : Params)
    (hoffer : t.offer = clientOffer cs cc)
    (hsel : serverSelect ss sc t.offer = .ok t.selection)
    (hacc : clientAccept cs cc sc t.offer t.selection = .ok p) :
    let c := clientView K cs t pm
    let s := serverView K ss t pm
    c.version = s.version ∧ c.suite = s.suite ∧ c.masterSecret = s.masterSecret ∧
    c.clAppSecret = s.clAppSecret ∧ c.srAppSecret = s.srAppSecret ∧
    c.exporterSecret = s.exporterSecret ∧ c.resumptionSecret = s.resumptionSecret ∧
    (∀ label n, c.exporter label n = s.exporter label n) ∧
    c.etm = s.etm ∧ c.ems = s.ems ∧ c.alpn = s.alpn ∧ c.serverName = s.serverName ∧
    c.sendLimit ≤ s.recvLimit ∧ s.sendLimit ≤ c.recvLimit ∧
    c.serverChain = s.serverChain ∧ c.clientChain = s.clientChain := by
  intro c s
  simp only [serverSelect, bind_eq_ok] at hsel
  obtain ⟨v, _, _, _, _, _, suites, _, ssg, _, hsel⟩ := hsel
  have hrsl : t.offer.recordSizeLimit = cs.recordSizeLimit := by rw [hoffer]; rfl
  by_cases hv : v > 3
  · rw [if_pos hv] at hsel
    obtain ⟨e1, e2, e3, _⟩ := serverSelect13_ok hsel
    have hv' : t.selection.version > 3 := by rw [e1]; exact hv
    have hems : (if t.selection.version > 3 then true else t.selection.ems) =
                (if t.selection.version > 3 then true else (ss.useEMS && t.offer.ems && decide (t.selection.version > 0))) := by
      rw [if_pos hv', if_pos hv']
    refine ⟨rfl, rfl, ?_, ?_, ?_, ?_, ?_, ?_, ?_, ?_, rfl, rfl, ?_, ?_, ?_, rfl⟩
    · show (secretsOf K t pm _).1 = (secretsOf K t pm _).1; rw [hems]
    · show (secretsOf K t pm _).2.1 = (secretsOf K t pm _).2.1; rw [hems]
    · show (secretsOf K t pm _).2.2.1 = (secretsOf K t pm _).2.2.1; rw [hems]
    · show (secretsOf K t pm _).2.2.2.1 = (secretsOf K t pm _).2.2.2.1; rw [hems]
    · show (secretsOf K t pm _).2.2.2.2 = (secretsOf K t pm _).2.2.2.2; rw [hems]
    · intro label n
      show K.exportKm _ _ (if _ then (secretsOf K t pm _).2.2.2.1 else (secretsOf K t pm _).1) _ _ _ _ =
           K.exportKm _ _ (if _ then (secretsOf K t pm _).2.2.2.1 else (secretsOf K t pm _).1) _ _ _ _
      rw [hems]
    · show (if t.selection.version > 3 then false else _) = (if t.selection.version > 3 then false else _)
      rw [if_pos hv', if_pos hv']
    · exact hems
    · -- client sends at most what the server accepts
      show (if (t.selection.rslEcho != 0) = true then (if t.selection.version > 3 then _ else _) else maxRec) ≤
           (if (t.offer.recordSizeLimit != 0 && ss.recordSizeLimit != 0) = true then
              (if t.selection.version > 3 then _ else _) else maxRec)
      rw [e3, if_pos hv', if_pos hv']
      by_cases hon : (t.offer.recordSizeLimit != 0 && ss.recordSizeLimit != 0) = true
      · rw [if_pos hon, if_pos hon]
        simp only [Bool.and_eq_true, bne_iff_ne, ne_eq] at hon
        have : (min (maxRec + 1) ss.recordSizeLimit != 0) = true := by
          simp only [bne_iff_ne, ne_eq, maxRec]; omega
        rw [if_pos this]
        simp only [maxRec]; omega
      · rw [if_neg hon, if_neg hon]
        simp
    · show (if (t.offer.recordSizeLimit != 0 && ss.recordSizeLimit != 0) = true then
              (if t.selection.version > 3 then _ else _) else maxRec) ≤
           (if (t.selection.rslEcho != 0) = true then (if t.selection.version > 3 then _ else _) else maxRec)
      rw [e3, if_pos hv', if_pos hv']
      by_cases hon : (t.offer.recordSizeLimit != 0 && ss.recordSizeLimit != 0) = true
      · rw [if_pos hon, if_pos hon]
        simp only [Bool.and_eq_true, bne_iff_ne, ne_eq] at hon
        have : (min (maxRec + 1) ss.recordSizeLimit != 0) = true := by
          simp only [bne_iff_ne, ne_eq, maxRec]; omega
        rw [if_pos this, hrsl]
        exact Nat.le_refl _
      · rw [if_neg hon, if_neg hon]
        simp
    · show (if t.selection.sendsCert = true then t.serverChain else []) =
           (if t.selection.version > 3 then (if t.selection.psk.isSome = true then [] else t.serverChain) else _)
      rw [if_pos hv', serverSelect13_sendsCert hsel]
      cases t.selection.psk <;> rfl
  · rw [if_neg hv] at hsel
    obtain ⟨e1, e2, _, _, e5, e6, e7, _⟩ := serverSelect12_ok hsel
    have hv' : ¬ t.selection.version > 3 := by rw [e1]; exact hv
    have hems : (if t.selection.version > 3 then true else t.selection.ems) =
                (if t.selection.version > 3 then true else (ss.useEMS && t.offer.ems && decide (t.selection.version > 0))) := by
      rw [if_neg hv', if_neg hv', e5, e1]
    -- the client checked that the chain is expected exactly for the certificate suites
    obtain ⟨_, _, _, _, _, _, _, _, _, _⟩ := clientAccept_ok hacc
    refine ⟨rfl, rfl, ?_, ?_, ?_, ?_, ?_, ?_, ?_, ?_, rfl, rfl, ?_, ?_, ?_, rfl⟩
    · show (secretsOf K t pm _).1 = (secretsOf K t pm _).1; rw [hems]
    · show (secretsOf K t pm _).2.1 = (secretsOf K t pm _).2.1; rw [hems]
    · show (secretsOf K t pm _).2.2.1 = (secretsOf K t pm _).2.2.1; rw [hems]
    · show (secretsOf K t pm _).2.2.2.1 = (secretsOf K t pm _).2.2.2.1; rw [hems]
    · show (secretsOf K t pm _).2.2.2.2 = (secretsOf K t pm _).2.2.2.2; rw [hems]
    · intro label n
      show K.exportKm _ _ (if _ then (secretsOf K t pm _).2.2.2.1 else (secretsOf K t pm _).1) _ _ _ _ =
           K.exportKm _ _ (if _ then (secretsOf K t pm _).2.2.2.1 else (secretsOf K t pm _).1) _ _ _ _
      rw [hems]
    · show (if t.selection.version > 3 then false else t.selection.etm) = (if t.selection.version > 3 then false else _)
      rw [if_neg hv', if_neg hv', e6, e2]
    · exact hems
    · show (if (t.selection.rslEcho != 0) = true then (if t.selection.version > 3 then _ else _) else maxRec) ≤
           (if (t.offer.recordSizeLimit != 0 && ss.recordSizeLimit != 0) = true then
              (if t.selection.version > 3 then _ else _) else maxRec)
      rw [e7, if_neg hv', if_neg hv']
      by_cases hon : (t.offer.recordSizeLimit != 0 && ss.recordSizeLimit != 0) = true
      · rw [if_pos hon, if_pos hon]
        simp only [Bool.and_eq_true, bne_iff_ne, ne_eq] at hon
        have : (min maxRec ss.recordSizeLimit != 0) = true := by
          simp only [bne_iff_ne, ne_eq, maxRec]; omega
        rw [if_pos this]
        exact Nat.le_refl _
      · rw [if_neg hon, if_neg hon]
        simp
    · show (if (t.offer.recordSizeLimit != 0 && ss.recordSizeLimit != 0) = true then
              (if t.selection.version > 3 then _ else _) else maxRec) ≤
           (if (t.selection.rslEcho != 0) = true then (if t.selection.version > 3 then _ else _) else maxRec)
      rw [e7, if_neg hv', if_neg hv']
      by_cases hon : (t.offer.recordSizeLimit != 0 && ss.recordSizeLimit != 0) = true
      · rw [if_pos hon, if_pos hon]
        simp only [Bool.and_eq_true, bne_iff_ne, ne_eq] at hon
        have : (min maxRec ss.recordSizeLimit != 0) = true := by
          simp only [bne_iff_ne, ne_eq, maxRec]; omega
        rw [if_pos this, hrsl]
        exact Nat.le_refl _
      · rw [if_neg hon, if_neg hon]
        simp
    · show (if t.selection.sendsCert = true then t.serverChain else []) =
           (if t.selection.version > 3 then _ else
              if (certAllSuites.contains t.selection.suite || ecdheEcdsaSuites.contains t.selection.suite ||
                  dheDsaSuites.contains t.selection.suite) = true
              then t.serverChain else [])
      rw [if_neg hv', serverSelect12_sendsCert hsel, e2]




-- non-vacuity: an honest TLS 1.2 run with client authentication, ALPN and SNI satisfies the hypotheses
example :
    withTranscript
      (transcriptOf { dflt with maxVersion := 3, versions := [3, 2, 1] } dflt
        { certClient with cred := some rsa1024Cred, alpn := ["6832"], serverName := "example.com" }
        { certServer rsaCred with reqCert := true, alpn := ["6832"] } [[0x30]] [[0x31]])
      (fun t =>
        decide (t.offer = clientOffer { dflt with maxVersion := 3, versions := [3, 2, 1] }
                  { certClient with cred := some rsa1024Cred, alpn := ["6832"], serverName := "example.com" }) &&
        decide (serverSelect dflt { certServer rsaCred with reqCert := true, alpn := ["6832"] } t.offer = .ok t.selection) &&
        okWith (clientAccept { dflt with maxVersion := 3, versions := [3, 2, 1] }
                  { certClient with cred := some rsa1024Cred, alpn := ["6832"], serverName := "example.com" }
                  { certServer rsaCred with reqCert := true, alpn := ["6832"] } t.offer t.selection)
               (fun p => p.version == 3 && p.alpn == "6832" && p.clientCert == some rsa1024Cred) &&
        -- and the two views are not trivial: a DHE_DSS / PSK-free run with both chains present
        (clientView K0 { dflt with maxVersion := 3, versions := [3, 2, 1] } t [7]).serverChain == [[0x30]] &&
        (serverView K0 dflt t [7]).clientChain == [[0x31]] &&
        (clientView K0 { dflt with maxVersion := 3, versions := [3, 2, 1] } t [7]).exporter [1, 2] 5 ==
          (serverView K0 dflt t [7]).exporter [1, 2] 5) = true := by
  decide +kernel

/-! ### 3. negotiation is a function of the two configurations -/
theorem negotiate_deterministic (cs ss : Settings) (cc : ClientCfg) (sc : ServerCfg) (r1 r2 : Outcome Params)
    (h1 : negotiate cs ss cc sc = r1) (h2 : negotiate cs ss cc sc = r2) : r1 = r2 := by
  rw [← h1, ← h2]

/-- … and what is negotiated depends on the client only through its ClientHello -/
theorem negotiate_factors_through_offer (cs cs' ss : Settings) (cc cc' : ClientCfg) (sc : ServerCfg)
    (h : clientOffer cs cc = clientOffer cs' cc') :
    serverSelect ss sc (clientOffer cs cc) = serverSelect ss sc (clientOffer cs' cc') := by
  rw [h]

example : negotiate dflt dflt certClient (certServer rsaCred) = negotiate dflt dflt certClient (certServer rsaCred) := rfl

/-! ### 4. the selected version is the highest one both sides allow

  Hypotheses: facts about the (user-settable, undocumented) `versions` lists that hold for every
  validated settings object whose `versions` keeps the default order: each list covers its own
  [minVersion, maxVersion] range, the server's list is decreasing, `validate()` removed (3,4) when
  maxVersion is lower.  `server_versions_order_decides` shows the order hypothesis is needed.
  "No common version": the handshake never completes (`no_common_version_fails`); it ends in
  protocol_version when the client is too old for the server (`client_too_old_protocol_version`); when
  the server is too old for the client another server-side alert may come first.
-/
theorem version_is_max_common (cs ss : Settings) (cc : ClientCfg) (sc : ServerCfg) (p : Params)
    (hcv : cs.maxVersion < 4 → ∀ w ∈ cs.versions, w < 4)
    (hcsup : ∀ w, cs.minVersion ≤ w → w ≤ cs.maxVersion → w ∈ cs.versions)
    (hssup : ∀ w, ss.minVersion ≤ w → w ≤ ss.maxVersion → w ∈ ss.versions)
    (hsd : ss.versions.Pairwise (· > ·))
    (hsr : ss.minVersion ≤ ss.maxVersion) (hs4 : ss.maxVersion ≤ 4)
    (h : negotiate cs ss cc sc = .ok p) :
    p.version = min cs.maxVersion ss.maxVersion ∧ cs.minVersion ≤ p.version ∧ ss.minVersion ≤ p.version := by
  obtain ⟨hcmin, hcmax, hsmin, hsmax⟩ := version_inside_both_ranges cs ss cc sc p hcv hsr hs4 h
  refine ⟨?_, hcmin, hsmin⟩
  obtain ⟨sel, hsel, hacc, _⟩ := negotiate_ok h
  obtain ⟨hreal, hpick, _⟩ := serverSelect_ok hsel
  obtain ⟨hhello, ev, _⟩ := clientAccept_ok hacc
  rw [← ev] at hpick
  obtain ⟨hp1, hp2⟩ := pickVersion_ok hpick
  have hsv : (clientOffer cs cc).supportedVersions = if cs.versions.any (· > 3) then some cs.versions else none := rfl
  have hcvn : (clientOffer cs cc).clientVersion = min cs.maxVersion 3 := rfl
  by_cases h13 : cs.versions.any (· > 3) = true
  · rw [if_pos h13] at hsv
    obtain ⟨_, _, _, _, hfm⟩ := hp1 _ hsv
    -- m = min of the two maxima is in the (filtered, still decreasing) server list and in the client's
    have hm_c : min cs.maxVersion ss.maxVersion ∈ cs.versions := hcsup _ (by omega) (Nat.min_le_left _ _)
    have hm_s : min cs.maxVersion ss.maxVersion ∈
        ss.versions.filter (fun i => decide (ss.minVersion ≤ i) && decide (i ≤ ss.maxVersion)) := by
      rw [List.mem_filter]
      refine ⟨hssup _ (by omega) (Nat.min_le_right _ _), ?_⟩
      simp only [Bool.and_eq_true, decide_eq_true_eq]
      exact ⟨by omega, Nat.min_le_right _ _⟩
    have := firstMatching_max hfm (List.Pairwise.filter _ hsd) _ hm_s hm_c
    omega
  · rw [if_neg h13] at hsv
    obtain ⟨_, _, h3⟩ := hp2 hsv
    rw [hcvn] at h3
    have hr : offerRealVersion (clientOffer cs cc) = min cs.maxVersion 3 := by
      unfold offerRealVersion; rw [hsv]; exact hcvn
    rw [hr] at hreal
    -- no TLS 1.3 entry although the list covers the client's range: maxVersion ≤ TLS 1.2
    have hc3 : cs.maxVersion ≤ 3 := by
      by_cases h3' : cs.maxVersion ≤ 3
      · exact h3'
      · exfalso
        apply h13
        rw [List.any_eq_true]
        exact ⟨cs.maxVersion, hcsup _ (by omega) (Nat.le_refl _), by simp; omega⟩
    rw [h3]
    split <;> omega

example : okWith (negotiate { dflt with minVersion := 2, maxVersion := 3, versions := [3, 2, 1] }
                            { dflt with minVersion := 1, maxVersion := 2, versions := [3, 2, 1] } certClient (certServer rsaCred))
    (fun p => p.version == 2) = true := by decide +kernel
example : okWith (negotiate dflt { dflt with maxVersion := 2, versions := [3, 2, 1] } certClient (certServer rsaCred))
    (fun p => p.version == 2) = true := by decide +kernel

/-- when the two version ranges do not meet the handshake does not complete -/
theorem no_common_version_fails (cs ss : Settings) (cc : ClientCfg) (sc : ServerCfg)
    (hcv : cs.maxVersion < 4 → ∀ w ∈ cs.versions, w < 4) (hsr : ss.minVersion ≤ ss.maxVersion)
    (hs4 : ss.maxVersion ≤ 4)
    (hdisj : cs.maxVersion < ss.minVersion ∨ ss.maxVersion < cs.minVersion) :
    ∀ p, negotiate cs ss cc sc ≠ .ok p := by
  intro p h
  obtain ⟨h1, h2, h3, h4⟩ := version_inside_both_ranges cs ss cc sc p hcv hsr hs4 h
  omega

example : negotiate { dflt with minVersion := 4 } { dflt with maxVersion := 3, versions := [3, 2, 1] }
    certClient (certServer rsaCred) = .alert .client "protocol_version" := by decide +kernel

/-- a client whose highest version is below the server's minimum gets protocol_version from the server -/
theorem client_too_old_protocol_version (cs ss : Settings) (cc : ClientCfg) (sc : ServerCfg)
    (hc : ∀ w ∈ cs.versions, w ≤ 4 → w ≤ cs.maxVersion) (hlt : cs.maxVersion < ss.minVersion) :
    negotiate cs ss cc sc = .alert .server "protocol_version" := by
  have hreal : offerRealVersion (clientOffer cs cc) ≤ cs.maxVersion := by
    apply offerRealVersion_le
    · show min cs.maxVersion 3 ≤ cs.maxVersion; exact Nat.min_le_left _ _
    · intro vs hvs w hw hw4
      have : (clientOffer cs cc).supportedVersions = if cs.versions.any (· > 3) then some cs.versions else none := rfl
      rw [this] at hvs
      split at hvs
      · injection hvs with hvs; subst hvs; exact hc w hw hw4
      · cases hvs
  have hfail : failIf (decide (offerRealVersion (clientOffer cs cc) < ss.minVersion)) Side.server "protocol_version"
      = Outcome.alert .server "protocol_version" := by
    unfold failIf
    rw [if_pos]
    simp only [decide_eq_true_eq]; omega
  simp only [negotiate, serverSelect, serverVersion, hfail]
  rfl

example : negotiate { dflt with maxVersion := 2, versions := [3, 2, 1] } { dflt with minVersion := 3 }
    certClient (certServer rsaCred) = .alert .server "protocol_version" := by decide +kernel

/-- the server's preference is the ORDER of its `versions` list: listed as [TLS 1.0, TLS 1.1] it selects
    TLS 1.0 with a client that also offers TLS 1.1 (the decreasing-order hypothesis is needed; with TLS 1.2
    or later enabled on the server the downgrade sentinel turns such a choice into an alert) -/
theorem server_versions_order_decides :
    okWith (negotiate dflt { dflt with maxVersion := 2, versions := [1, 2] } certClient (certServer rsaCred))
      (fun p => p.version == 1) = true ∧
    negotiate dflt { dflt with versions := [3, 4, 2, 1] } certClient (certServer rsaCred)
      = .alert .client "illegal_parameter" := by
  constructor <;> decide +kernel


/-! ### 5. compatible settings complete (C03 / C19 second half: "any two endpoints configured from
  validated settings that share a protocol version and, for it, a cipher suite, group and signature scheme
  usable with the server's credentials complete a handshake")

  `compatible cs ss cc sc` (TlsModel/Compat.lean) is written over sets, never over the library's choices:
    * `commonVersion`: the highest version inside both [minVersion, maxVersion] ranges that the ClientHello
      can express (listed in both `versions` when the client offers TLS 1.3);
    * `commonSuites` non-empty: suites both name lists admit, defined for that version, usable with the
      server's key; and EVERY one of them can be carried through (`suiteWorks`: a common curve for ECDHE,
      acceptable primes for DHE, a common TLS 1.3 group directly or through HelloRetryRequest, a key able
      to sign the legacy ServerKeyExchange below TLS 1.2) — "the server is free to pick any of them";
    * `sigShared` (TLS ≥ 1.2): a scheme the server can produce with its key that the client offered, and
      every such scheme is accepted by the client for this chain;
    * `certAccepted`, `serverCurveListed`: the server's key inside the client's limits / curves;
    * `extensionsOk`: required EMS satisfiable, a common ALPN protocol when both have lists (TLS ≤ 1.2).
  Hypotheses of the theorem: `wf` (facts `validate()` establishes + default order of `versions`),
  `plainCert` (certificate handshake, no client authentication, no external PSK, no SNI mismatch),
  `clientHelloSane` (the client's own ClientHello passes the server's structural TLS 1.3 checks: follows
  from validate() for duplicate-free keyShares; decidable, checked on every generated case).

  FULL STATEMENT under the weaker reading (`compatibleSome`: SOME common suite works): does not hold —
  the server takes its first preference among the common suites and does not look for one that works
  (`some_working_suite_is_not_enough`).  Further regions the premise has to exclude, each with a
  counterexample below: no fallback to a lower common version (`no_version_fallback`); the TLS 1.2
  signature lists are applied to RSA key transport, which signs nothing
  (`rsa_key_transport_needs_signature_scheme`; below TLS 1.2 they are no longer applied:
  `tls11_ignores_signature_lists`).  In the other
  direction TLS 1.3 completes over a group RFC 8446 forbids (`tls13_completes_over_secp256k1`).
-/
theorem compatible_completes (cs ss : Settings) (cc : ClientCfg) (sc : ServerCfg)
    (hwc : cs.wf = true) (hws : ss.wf = true) (hplain : plainCert cs cc sc = true)
    (hsane : clientHelloSane cs cc = true) (h : compatible cs ss cc sc = true) :
    ∃ p, negotiate cs ss cc sc = .ok p := by
  cases hv : commonVersion cs ss with
  | none => unfold compatible at h; rw [hv] at h; cases h
  | some v =>
    by_cases hv3 : v ≤ 3
    · exact compatible_completes_le12 hwc hws hplain hsane hv hv3 h
    · exact compatible_completes_13 hwc hws hplain hsane hv (by omega) h

-- non-vacuity: the default settings are compatible (TLS 1.3) …
example : dflt.wf = true ∧ plainCert dflt certClient (certServer rsaCred) = true ∧
    clientHelloSane dflt certClient = true ∧ compatible dflt dflt certClient (certServer rsaCred) = true ∧
    commonVersion dflt dflt = some 4 := by decide +kernel
-- … so are a TLS 1.0-only server with an ECDSA key and the default client
example : compatible dflt { dflt with maxVersion := 1, versions := [3, 2, 1] } certClient (certServer ecdsaCred) = true ∧
    ({ dflt with maxVersion := 1, versions := [3, 2, 1] } : Settings).wf = true ∧
    commonVersion dflt { dflt with maxVersion := 1, versions := [3, 2, 1] } = some 1 := by decide +kernel
-- … and disjoint cipher lists are not
example : compatible { dflt with cipherNames := ["aes128gcm"] } { dflt with cipherNames := ["aes256gcm"] }
    certClient (certServer rsaCred) = false := by decide +kernel

/-- a completed handshake used a version both ends have in common -/
theorem completes_implies_common_version (cs ss : Settings) (cc : ClientCfg) (sc : ServerCfg) (p : Params)
    (hwc : cs.wf = true) (hws : ss.wf = true) (h : negotiate cs ss cc sc = .ok p) :
    versionCommon cs ss p.version = true ∧ ∃ v, commonVersion cs ss = some v ∧ p.version ≤ v := by
  obtain ⟨c1, c2, c3, c4, c5, c6, _⟩ := wf_spec hwc
  obtain ⟨s1, s2, s3, s4, s5, s6, _⟩ := wf_spec hws
  obtain ⟨r1, r2, r3, r4⟩ := version_inside_both_ranges cs ss cc sc p c3 s1 s2 h
  have hsel := selected_in_offer_and_policy cs ss cc sc p h
  simp only at hsel
  obtain ⟨_, _, hext, _⟩ := hsel
  have hcom : versionCommon cs ss p.version = true := by
    apply versionCommon_intro r1 r2 r3 r4
    intro h13
    have hsv := offer_supportedVersions cs cc
    rw [if_pos h13] at hsv
    obtain ⟨m1, m2, _, _⟩ := hext _ hsv
    exact ⟨m1, m2⟩
  refine ⟨hcom, ?_⟩
  cases hv : commonVersion cs ss with
  | none =>
    exfalso
    unfold commonVersion at hv
    have := List.find?_eq_none.mp hv p.version (by
      have : p.version ≤ 4 := by omega
      simp only [List.mem_cons, List.not_mem_nil, or_false]; omega)
    exact this hcom
  | some v => exact ⟨v, rfl, (commonVersion_spec hv).2.2 _ (by omega) hcom⟩

/-- SOME working common suite is not enough: with an RSA key, DHE_RSA and RSA key transport both enabled,
    the server prefers DHE_RSA and sends its 1536-bit prime, which a client demanding 2048-bit keys refuses;
    TLS_RSA_WITH_* would have worked -/
theorem some_working_suite_is_not_enough :
    compatibleSome { dflt with maxVersion := 3, versions := [3, 2, 1], keyExchangeNames := ["dhe_rsa", "rsa"],
                               dhGroups := [], minKeySize := 2048 }
                   { dflt with maxVersion := 3, versions := [3, 2, 1], keyExchangeNames := ["dhe_rsa", "rsa"],
                               dhParamBits := 1536 } certClient (certServer rsaCred) = true ∧
    negotiate { dflt with maxVersion := 3, versions := [3, 2, 1], keyExchangeNames := ["dhe_rsa", "rsa"],
                          dhGroups := [], minKeySize := 2048 }
              { dflt with maxVersion := 3, versions := [3, 2, 1], keyExchangeNames := ["dhe_rsa", "rsa"],
                          dhParamBits := 1536 } certClient (certServer rsaCred)
      = .alert .client "insufficient_security" := by
  constructor <;> decide +kernel

/-- no fallback: both ends enable TLS 1.2 and TLS 1.3, the client only CBC ciphers (no TLS 1.3 suite):
    the handshake fails at TLS 1.3 although the same pair capped at TLS 1.2 completes -/
theorem no_version_fallback :
    negotiate { dflt with cipherNames := ["aes128"] } dflt certClient (certServer rsaCred)
      = .alert .server "insufficient_security" ∧
    okWith (negotiate { dflt with cipherNames := ["aes128"], maxVersion := 3, versions := [3, 2, 1] } dflt
              certClient (certServer rsaCred)) (fun p => p.version == 3) = true := by
  constructor <;> decide +kernel

/-- regression (repaired by 2910674): the TLS 1.2 signature lists are NOT applied when TLS 1.1 is
    negotiated (the ServerKeyExchange signature is fixed there): disjoint hash lists no longer stop it -/
theorem tls11_ignores_signature_lists :
    okWith (negotiate { dflt with rsaSigHashes := ["sha256"] }
              { dflt with maxVersion := 2, versions := [3, 2, 1], rsaSigHashes := ["sha384"] }
              certClient (certServer rsaCred)) (fun p => p.version == 2 && p.sigScheme == 0) = true ∧
    compatible { dflt with rsaSigHashes := ["sha256"] }
               { dflt with maxVersion := 2, versions := [3, 2, 1], rsaSigHashes := ["sha384"] }
               certClient (certServer rsaCred) = true := by
  constructor <;> decide +kernel

/-- RSA key transport signs nothing, yet disjoint signature lists stop it -/
theorem rsa_key_transport_needs_signature_scheme :
    negotiate { dflt with maxVersion := 3, versions := [3, 2, 1], keyExchangeNames := ["rsa"], rsaSigHashes := ["sha256"] }
              { dflt with maxVersion := 3, versions := [3, 2, 1], keyExchangeNames := ["rsa"], rsaSigHashes := ["sha384"] }
              certClient (certServer rsaCred) = .alert .server "handshake_failure" := by
  decide +kernel

/-- TLS 1.3 completes over secp256k1 (group 22, forbidden by RFC 8446 B.3.1.4) when both ends enable it -/
theorem tls13_completes_over_secp256k1 :
    okWith (negotiate { dflt with eccCurves := ["secp256k1"], keyShares := ["secp256k1"], dhGroups := [] }
                      { dflt with eccCurves := ["secp256k1"], keyShares := ["secp256k1"], dhGroups := [] }
                      certClient (certServer rsaCred)) (fun p => p.version == 4 && p.group == 22) = true := by
  decide +kernel

/-! ### 6. SRP and anonymous handshakes start from settings capped at TLS 1.2

  `handshakeClientSRP` / `handshakeClientAnonymous` go on with `effectiveClient cs flavour`: the validated
  settings with maxVersion capped at TLS 1.2 and (3,4) removed from `versions` (there are no such suites in
  TLS 1.3).  The cap only narrows the caller's policy, so everything proved about `negotiate` for the
  effective settings holds for the caller's settings as well; and the default pairs now complete. -/
theorem effectiveClient_inside (cs : Settings) (fl : ClientFlavour) :
    (effectiveClient cs fl).minVersion = cs.minVersion ∧ (effectiveClient cs fl).maxVersion ≤ cs.maxVersion ∧
    (∀ w ∈ (effectiveClient cs fl).versions, w ∈ cs.versions) ∧
    (effectiveClient cs fl).cipherNames = cs.cipherNames ∧ (effectiveClient cs fl).macNames = cs.macNames ∧
    (effectiveClient cs fl).keyExchangeNames = cs.keyExchangeNames ∧ (effectiveClient cs fl).eccCurves = cs.eccCurves ∧
    (effectiveClient cs fl).minKeySize = cs.minKeySize ∧ (effectiveClient cs fl).maxKeySize = cs.maxKeySize ∧
    (fl ≠ .cert → (effectiveClient cs fl).maxVersion ≤ 3) := by
  unfold effectiveClient
  split
  · rename_i h
    simp only [Bool.and_eq_true, bne_iff_ne, ne_eq, decide_eq_true_eq] at h
    refine ⟨rfl, by simp only; omega, fun w hw => (List.mem_filter.mp hw).1, rfl, rfl, rfl, rfl, rfl, rfl, fun _ => Nat.le_refl _⟩
  · rename_i h
    refine ⟨rfl, Nat.le_refl _, fun _ hw => hw, rfl, rfl, rfl, rfl, rfl, rfl, fun hne => ?_⟩
    simp only [Bool.and_eq_true, bne_iff_ne, ne_eq, decide_eq_true_eq, not_and, Nat.not_lt] at h
    exact h hne

/-- regression (2e75152): default SRP and anonymous clients complete with default servers (before, the
    ClientHello advertised TLS 1.3, the server selected it and no cipher suite could be common) -/
theorem default_srp_and_anon_pairs_complete :
    okWith (negotiateFor dflt dflt srpClient srpServer) (fun p => p.version == 3 && srpSuites.contains p.suite) = true ∧
    okWith (negotiateFor dflt dflt srpClient (srpCertServer rsaCred)) (fun p => p.version == 3 && srpCertSuites.contains p.suite) = true ∧
    okWith (negotiateFor dflt dflt anonClient anonServer) (fun p => p.version == 3 && isAnonSuite p.suite) = true ∧
    negotiate dflt dflt srpClient srpServer = .alert .server "handshake_failure" := by
  refine ⟨?_, ?_, ?_, ?_⟩ <;> decide +kernel

/-- regression (65e20d7): a client offering only srp_sha completes with a server that has a verifier database
    AND a certificate (filter_for_certificate keeps the SRP suites without server authentication) -/
theorem srp_sha_client_with_srp_cert_server_completes :
    okWith (negotiateFor { dflt with keyExchangeNames := ["srp_sha"] } dflt srpClient (srpCertServer rsaCred))
      (fun p => srpSuites.contains p.suite && p.serverCert == none) = true ∧
    okWith (negotiateFor { dflt with keyExchangeNames := ["srp_sha"] } dflt srpClient (srpCertServer ecdsaCred))
      (fun p => srpSuites.contains p.suite) = true := by
  constructor <;> decide +kernel

end Tls.Neg.C03
